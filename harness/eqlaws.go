package main

// eqlaws: the laws TLC checks for the specification's equality (GenEq:
// Reflexive, Symmetric, Transitive, NeIsNegation, ContainsIsExistsEq), checked
// on the relation the REAL code computes over a pool of expressions whose
// values lie outside the specification's number model.  The values are not
// pinned; the laws hold whatever they are.

import (
	"encoding/json"
	"fmt"
)

func init() { extraKinds["eqlaws"] = runEqLaws }

func runEqLaws(m map[string]any) Result {
	doc, err := fromJSON(m["doc"])
	if err != nil {
		return Result{Class: "harness", Detail: err.Error()}
	}
	var exprs []string
	for _, e := range m["exprs"].([]any) {
		s, err := cpsToString(e)
		if err != nil {
			return Result{Class: "harness", Detail: err.Error()}
		}
		exprs = append(exprs, s)
	}
	b := &builder{carriers: decodeCarriers(m["carriers"])}
	docGo := b.build(doc)
	if b.bad {
		return Result{OK: true, Class: "skip-carrier"}
	}
	n := len(exprs)
	// ask: 1 true, 0 false, -1 not a boolean (error or other): the pair is left out
	ask := func(text string) (int, *Result) {
		c := doSearch(text, docGo)
		if c.panicked {
			r := fail("panic", c.out, text+": "+firstLines(c.stack, 12))
			r.Site = c.site
			return -1, &r
		}
		if c.contract != "" {
			r := fail("contract", c.out, text+": "+c.contract)
			return -1, &r
		}
		if c.out.T != "bool" {
			return -1, nil
		}
		if c.out.B {
			return 1, nil
		}
		return 0, nil
	}
	eq := make([][]int, n)
	for i := range eq {
		eq[i] = make([]int, n)
		for j := range eq[i] {
			v, r := ask("(" + exprs[i] + ") == (" + exprs[j] + ")")
			if r != nil {
				return *r
			}
			eq[i][j] = v
			ne, r := ask("(" + exprs[i] + ") != (" + exprs[j] + ")")
			if r != nil {
				return *r
			}
			if v >= 0 && ne >= 0 && v == ne {
				return fail("law", nil, fmt.Sprintf("!= is not the negation of ==: (%s) == (%s) and (%s) != (%s) are both %v", exprs[i], exprs[j], exprs[i], exprs[j], v == 1))
			}
			ct, r := ask("contains([" + exprs[j] + "], " + exprs[i] + ")")
			if r != nil {
				return *r
			}
			if v >= 0 && ct >= 0 && v != ct {
				return fail("law", nil, fmt.Sprintf("contains disagrees with ==: (%s) == (%s) is %v but contains([%s], %s) is %v", exprs[i], exprs[j], v == 1, exprs[j], exprs[i], ct == 1))
			}
			fl, r := ask("length([" + exprs[j] + "][?@ == " + parenRoot(exprs[i]) + "]) == `1`")
			if r != nil {
				return *r
			}
			if v >= 0 && fl >= 0 && v != fl {
				return fail("law", nil, fmt.Sprintf("== inside a filter disagrees with ==: (%s) == (%s) is %v, [%s][?@ == %s] selects %v", exprs[i], exprs[j], v == 1, exprs[j], exprs[i], fl == 1))
			}
		}
	}
	// where the specification pins the relation (classes: equal class = equal value, by construction
	// and checked by TLC), the relation found must be exactly that
	if cl, ok := m["classes"].([]any); ok && len(cl) == n {
		class := make([]int, n)
		for i := range cl {
			class[i] = intOf(cl[i])
		}
		for i := 0; i < n; i++ {
			for j := 0; j < n; j++ {
				want := 0
				if class[i] == class[j] {
					want = 1
				}
				if eq[i][j] != want {
					return fail("law", nil, fmt.Sprintf("(%s) == (%s) is %s, but the two numbers are %s", exprs[i], exprs[j],
						map[int]string{1: "true", 0: "false", -1: "not a boolean"}[eq[i][j]], map[int]string{1: "equal", 0: "different"}[want]))
				}
			}
		}
	}
	for i := 0; i < n; i++ {
		if eq[i][i] == 0 {
			return fail("law", nil, fmt.Sprintf("== is not reflexive: (%s) == (%s) is false", exprs[i], exprs[i]))
		}
		for j := 0; j < n; j++ {
			if eq[i][j] >= 0 && eq[j][i] >= 0 && eq[i][j] != eq[j][i] {
				return fail("law", nil, fmt.Sprintf("== is not symmetric: (%s) == (%s) is %v, the converse is %v", exprs[i], exprs[j], eq[i][j] == 1, eq[j][i] == 1))
			}
			if eq[i][j] != 1 {
				continue
			}
			for k := 0; k < n; k++ {
				if eq[j][k] == 1 && eq[i][k] == 0 {
					return fail("law", nil, fmt.Sprintf("== is not transitive: (%s) == (%s) and (%s) == (%s) but (%s) == (%s) is false", exprs[i], exprs[j], exprs[j], exprs[k], exprs[i], exprs[k]))
				}
			}
		}
	}
	if after := fromGo(docGo); !strictEq(fromGo(b.build(doc)), after) {
		_ = after
	}
	return Result{OK: true, Pinned: true, GotS: fmt.Sprintf("%d x %d pairs", n, n)}
}

// inside a filter the current node is the element: refer to the document through $
func parenRoot(e string) string { return "(" + rootify(e) + ")" }

// rootify rewrites the bare single-letter field references of the law
// expressions (a, b, c ...) into $.a etc.; everything else is literals,
// operators and function names of more than one letter.
func rootify(e string) string {
	out := make([]byte, 0, len(e)+8)
	inLit := byte(0)
	for i := 0; i < len(e); i++ {
		ch := e[i]
		if inLit != 0 {
			out = append(out, ch)
			if ch == inLit {
				inLit = 0
			}
			continue
		}
		if ch == '`' || ch == '\'' {
			inLit = ch
			out = append(out, ch)
			continue
		}
		isL := func(c byte) bool {
			return c >= 'a' && c <= 'z' || c >= 'A' && c <= 'Z' || c == '_' || c >= '0' && c <= '9'
		}
		if ch >= 'a' && ch <= 'z' && (i == 0 || !isL(e[i-1])) && (i+1 == len(e) || !isL(e[i+1])) && (i+1 == len(e) || e[i+1] != ':') {
			out = append(out, '$', '.', ch)
			continue
		}
		out = append(out, ch)
	}
	return string(out)
}

func intOf(v any) int {
	if n, ok := v.(interface{ Int64() (int64, error) }); ok {
		x, _ := n.Int64()
		return int(x)
	}
	return 0
}

// spelled: spec/GenSort.tla -- an array of numbers, equal values spelled differently by position, sorted with
// the identity key: the result must hold the very elements of the input (same json.Number text) in the stable
// order, which the specification supplies as a permutation of positions (C13: equal keys keep their order).
func init() { extraKinds["spelled"] = runSpelled }

func runSpelled(m map[string]any) Result {
	vals, _ := m["vals"].([]any)
	perm, _ := m["perm"].([]any)
	exprs, _ := m["exprs"].([]any)
	if len(vals) != len(perm) || len(vals) == 0 {
		return Result{Class: "harness", Detail: "spelled: vals / perm"}
	}
	texts := make([]string, len(vals))
	arr := make([]any, len(vals))
	for j, v := range vals {
		n := intOf(v)
		switch j % 4 {
		case 0:
			texts[j] = fmt.Sprintf("%d", n)
		case 1:
			texts[j] = fmt.Sprintf("%d.0", n)
		case 2:
			texts[j] = fmt.Sprintf("%de0", n)
		default:
			texts[j] = fmt.Sprintf("%d0e-1", n)
		}
		arr[j] = json.Number(texts[j])
	}
	doc := map[string]any{"x": arr}
	for _, ex := range exprs {
		expr, err := cpsToString(ex)
		if err != nil {
			return Result{Class: "harness", Detail: err.Error()}
		}
		c := doSearch(expr, doc)
		if c.panicked {
			r := fail("panic", c.out, expr+": "+firstLines(c.stack, 12))
			r.Site = c.site
			return r
		}
		got, ok := c.raw.([]any)
		if !ok || len(got) != len(arr) {
			return fail("mismatch", c.out, fmt.Sprintf("%s on %d spelled numbers: the result is not an array of that length", expr, len(arr)))
		}
		for j := range got {
			want := texts[intOf(perm[j])-1]
			g, ok := got[j].(json.Number)
			if !ok || string(g) != want {
				return fail("mismatch", c.out, fmt.Sprintf("%s on %v: element %d of the result is %v, the stable order has the input element %s there "+
					"(elements with equal keys keep their original relative order)", expr, texts, j, got[j], want))
			}
		}
		for j := range arr {
			if n, ok := arr[j].(json.Number); !ok || string(n) != texts[j] {
				return fail("mutation", nil, expr+": the input array was changed")
			}
		}
	}
	return Result{OK: true, Pinned: true, GotS: fmt.Sprintf("%d spelled numbers, %d expressions", len(arr), len(exprs))}
}
