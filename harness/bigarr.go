package main

// bigarr: spec/GenBigArr.tla -- numeric functions on arrays far larger than
// the model can enumerate.  The case names the array (n consecutive integers
// descending from base+n-1 to base), the harness builds it once per Go
// carrier that can hold every element exactly, and the expected outcome is
// the closed form computed by the specification.

import (
	"fmt"
	"math/big"
	"strconv"
)

func init() { extraKinds["bigarr"] = runBigArr }

var cycleKinds = []string{"json", "int64", "decimal", "float64", "uint64", "int", "jsonexp"}

func runBigArr(m map[string]any) Result {
	expr, err := cpsToString(m["expr"])
	if err != nil {
		return Result{Class: "harness", Detail: err.Error()}
	}
	adm, err := decodeAdm(m["adm"])
	if err != nil {
		return Result{Class: "harness", Detail: err.Error()}
	}
	baseTV, err := fromJSON(m["base"])
	if err != nil || baseTV.T != "num" || baseTV.E < 0 {
		return Result{Class: "harness", Detail: fmt.Sprintf("bigarr: base: %v", err)}
	}
	base := new(big.Int).Mul(baseTV.N, new(big.Int).Exp(big.NewInt(10), big.NewInt(int64(baseTV.E)), nil))
	n := 0
	if v, ok := m["n"].(interface{ Int64() (int64, error) }); ok {
		x, _ := v.Int64()
		n = int(x)
	}
	mult, scale := intField(m, "mult"), intField(m, "scale")
	arr := &TV{T: "arr", A: make([]*TV, n)}
	for i := 0; i < n; i++ {
		off := n - 1 - i // descending
		if mult > 1 {
			off = (mult * i) % n // shuffled (mult is coprime to n)
		}
		x := new(big.Int).Add(base, big.NewInt(int64(off)))
		text := x.String()
		if scale != 0 {
			text += "e" + strconv.Itoa(scale)
		}
		arr.A[i] = numTV(text)
	}
	doc := &TV{T: "obj", O: []Mem{{"x", arr}}}
	ran := 0
	var last *TV
	for _, kind := range decodeCarriers(m["carriers"]) {
		cs := make([]string, n)
		for i := range cs {
			cs[i] = kind
			if kind == "cycle" {
				// a different Go type from element to element; json.Number where the type cannot hold the value
				cs[i] = cycleKinds[i%len(cycleKinds)]
				if _, ok := numCarrier(arr.A[i], cs[i]); !ok {
					cs[i] = "json"
				}
			}
		}
		b := &builder{carriers: cs}
		docGo := b.build(doc)
		if b.bad {
			continue
		}
		c := doSearch(expr, docGo)
		if r := genericChecks(c, doc, docGo, b, true); r != nil {
			r.Detail = fmt.Sprintf("%d elements from %s as %s: %s", n, base.String(), kind, r.Detail)
			return *r
		}
		if !admits(adm, c.out) {
			return fail("mismatch", c.out, fmt.Sprintf("%d consecutive integers from %s held as %s: outcome outside the admissible set, expected %s", n, base.String(), kind, adm[0].show()))
		}
		if e, cc := doCompile(expr); e != nil && !cc.panicked {
			b2 := &builder{carriers: cs}
			c2 := doExprSearch(e, b2.build(doc))
			if !sameOutcome(c.out, c2.out) && !admits(adm, c2.out) {
				return fail("differs", c2.out, "Expression.Search gave "+c2.out.show()+" but Search gave "+c.out.show())
			}
		}
		last = c.out
		ran++
	}
	if ran == 0 {
		return Result{OK: true, Class: "skip-carrier"}
	}
	return Result{OK: true, Pinned: pinned(adm), GotS: fmt.Sprintf("%s (%d carriers)", last.show(), ran)}
}
