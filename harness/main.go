// Command harness replays cases generated from the TLA+ specification into
// the real library (built from /repo's working tree with -tags verif) and
// records traces of real executions for validation by TLC.
//
//	harness replay  -out summary.json [-workers N] [-timeout 10s]   < cases.ndjson
//	harness worker                                  (child: one case per line)
//	harness one     < case.json                     (run a single case, print the result)
//	harness record  ...                             (see record.go)
package main

import (
	"bufio"
	"bytes"
	"crypto/md5"
	"strconv"
	"encoding/json"
	"flag"
	"fmt"
	"io"
	"os"
	"os/exec"
	"strings"
	"sync"
	"sync/atomic"
	"time"

	"github.com/woodsbury/jmespath"
)

var stepCounter atomic.Int64
var nodeKinds sync.Map

func init() {
	jmespath.VerifSetStepHook(stepHook)
}

var gate func(node string)

func stepHook(node string) {
	stepCounter.Add(1)
	if g := gate; g != nil {
		g(node)
	}
	if trackKinds {
		nodeKinds.Store(node, true)
	}
}

var trackKinds = false

// directory of document pools (children inherit it through the environment)
var poolDir = func() string {
	if d := os.Getenv("VERIF_POOLS"); d != "" {
		return d
	}
	return "/verif/spec/pools"
}()

func jsonInt(i int) json.Number { return json.Number(strconv.Itoa(i)) }

func countSteps(f func()) int64 {
	a := stepCounter.Load()
	f()
	return stepCounter.Load() - a
}

func decodeLine(line []byte) (map[string]any, error) {
	d := json.NewDecoder(bytes.NewReader(line))
	d.UseNumber()
	var m map[string]any
	if err := d.Decode(&m); err != nil {
		return nil, err
	}
	return m, nil
}

func main() {
	if len(os.Args) < 2 {
		fmt.Fprintln(os.Stderr, "usage: harness replay|worker|one|record ...")
		os.Exit(2)
	}
	switch os.Args[1] {
	case "worker":
		workerMain()
	case "one":
		data, _ := io.ReadAll(os.Stdin)
		m, err := decodeLine(data)
		if err != nil {
			fmt.Fprintln(os.Stderr, err)
			os.Exit(2)
		}
		if c, ok := m["case"].(map[string]any); ok {
			m = c
		}
		r := runCase(m)
		out, _ := json.MarshalIndent(r, "", " ")
		fmt.Println(string(out))
		if !r.OK {
			os.Exit(1)
		}
	case "replay":
		replayMain(os.Args[2:])
	default:
		if f, ok := commands[os.Args[1]]; ok {
			f(os.Args[2:])
			return
		}
		fmt.Fprintln(os.Stderr, "unknown command", os.Args[1])
		os.Exit(2)
	}
}

var commands = map[string]func([]string){}

func workerMain() {
	trackKinds = os.Getenv("VERIF_TRACK_KINDS") != ""
	in := bufio.NewReaderSize(os.Stdin, 1<<20)
	out := bufio.NewWriter(os.Stdout)
	for {
		line, err := in.ReadBytes('\n')
		if len(line) > 1 {
			var r Result
			m, derr := decodeLine(line)
			if derr != nil {
				r = Result{Class: "harness", Detail: "bad case line: " + derr.Error()}
			} else if _, ok := m["__kinds"]; ok {
				var ks []string
				nodeKinds.Range(func(k, _ any) bool { ks = append(ks, k.(string)); return true })
				r = Result{OK: true, Extra: ks}
			} else {
				r = runCase(m)
			}
			b, _ := json.Marshal(r)
			out.Write(b)
			out.WriteByte('\n')
			out.Flush()
		}
		if err != nil {
			return
		}
	}
}

type child struct {
	cmd    *exec.Cmd
	in     io.WriteCloser
	out    *bufio.Reader
	stderr *tailBuffer
}

type tailBuffer struct {
	mu  sync.Mutex
	buf []byte
}

func (t *tailBuffer) Write(p []byte) (int, error) {
	t.mu.Lock()
	defer t.mu.Unlock()
	t.buf = append(t.buf, p...)
	if len(t.buf) > 16384 {
		// keep head (the fatal error line) and tail
		t.buf = append(t.buf[:4096:4096], t.buf[len(t.buf)-8192:]...)
	}
	return len(p), nil
}

func (t *tailBuffer) String() string {
	t.mu.Lock()
	defer t.mu.Unlock()
	return string(t.buf)
}

func startChild() (*child, error) {
	cmd := exec.Command(os.Args[0], "worker")
	cmd.Env = append(os.Environ(), "GOMAXPROCS=2", "GOMEMLIMIT=1500MiB")
	in, err := cmd.StdinPipe()
	if err != nil {
		return nil, err
	}
	out, err := cmd.StdoutPipe()
	if err != nil {
		return nil, err
	}
	tb := &tailBuffer{}
	cmd.Stderr = tb
	if err := cmd.Start(); err != nil {
		return nil, err
	}
	return &child{cmd: cmd, in: in, out: bufio.NewReaderSize(out, 1<<20), stderr: tb}, nil
}

func (c *child) kill() {
	c.in.Close()
	c.cmd.Process.Kill()
	c.cmd.Wait()
}

// roundTrip sends one case; on timeout or death the child is gone.
func (c *child) roundTrip(line []byte, timeout time.Duration) (Result, string) {
	type resp struct {
		b   []byte
		err error
	}
	ch := make(chan resp, 1)
	go func() {
		if _, err := c.in.Write(append(line, '\n')); err != nil {
			ch <- resp{nil, err}
			return
		}
		b, err := c.out.ReadBytes('\n')
		ch <- resp{b, err}
	}()
	select {
	case r := <-ch:
		if r.err != nil || len(r.b) == 0 {
			c.cmd.Wait()
			return Result{}, "crash"
		}
		var res Result
		if err := json.Unmarshal(r.b, &res); err != nil {
			return Result{}, "crash"
		}
		return res, ""
	case <-time.After(timeout):
		return Result{}, "hang"
	}
}

type violation struct {
	Case   map[string]any `json:"case"`
	Result Result         `json:"result"`
}

type summary struct {
	Cases      int64            `json:"cases"`
	Passed     int64            `json:"passed"`
	Pinned     int64            `json:"pinned"`
	Skipped    int64            `json:"skipped"`
	Violations int64            `json:"violations"`
	Unconfirmed int64           `json:"unconfirmed"`
	Classes    map[string]int64 `json:"classes"`
	Steps      int64            `json:"steps"`
	Kept       []violation      `json:"kept"`
	Samples    []map[string]any `json:"samples"`
	NodeKinds  []string         `json:"node_kinds,omitempty"`
	HarnessErr []string         `json:"harness_errors,omitempty"`
	WallS      float64          `json:"wall_s"`
	NotRun     int64            `json:"not_run"`
	Duplicates int64            `json:"duplicate_lines"`
	Lines      int64            `json:"distinct_lines"`
}

func replayMain(args []string) {
	fs := flag.NewFlagSet("replay", flag.ExitOnError)
	outPath := fs.String("out", "", "summary file")
	workers := fs.Int("workers", 16, "child processes")
	timeout := fs.Duration("timeout", 3*time.Second, "per-case budget")
	maxHangs := fs.Int64("maxhangs", 12, "stop replaying after this many confirmed hangs or crashes")
	var hangs atomic.Int64
	keep := fs.Int("keep", 400, "violations kept with full detail")
	nsamples := fs.Int("samples", 6, "samples kept")
	logPath := fs.String("log", "", "file receiving the non-case lines of the input (TLC's own output)")
	poolDirFlag := fs.String("pools", poolDir, "directory of document pools")
	only := fs.String("only", "", "replay only cases of this kind")
	var dups int64
	fs.Parse(args)
	start := time.Now()
	os.Setenv("VERIF_POOLS", *poolDirFlag)
	poolDir = *poolDirFlag

	lines := make(chan []byte, 4096)
	var mu sync.Mutex
	sum := summary{Classes: map[string]int64{}}
	kinds := map[string]bool{}

	record := func(m map[string]any, r Result) {
		mu.Lock()
		defer mu.Unlock()
		sum.Cases++
		sum.Steps += r.Steps
		if r.Class == "skip-carrier" {
			sum.Skipped++
			return
		}
		if r.Pinned {
			sum.Pinned++
		}
		if r.OK {
			sum.Passed++
			if len(sum.Samples) < *nsamples && (sum.Cases%97 == 1 || sum.Cases < 3) {
				s := map[string]any{"got": r.GotS}
				for _, k := range []string{"expr", "expr2"} {
					if e, err := cpsToString(m[k]); err == nil && m[k] != nil {
						s[k] = e
					}
				}
				if d, err := fromJSON(m["doc"]); err == nil {
					s["doc"] = d.show()
				}
				if k := getString(m, "kind"); k != "" {
					s["kind"] = k
				}
				sum.Samples = append(sum.Samples, s)
			}
			return
		}
		if r.Class == "harness" {
			if len(sum.HarnessErr) < 20 {
				sum.HarnessErr = append(sum.HarnessErr, r.Detail)
			}
			return
		}
		if r.Class == "unconfirmed" {
			sum.Unconfirmed++
			return
		}
		sum.Violations++
		sum.Classes[r.Class]++
		if len(sum.Kept) < *keep {
			sum.Kept = append(sum.Kept, violation{m, r})
		}
	}

	var wg sync.WaitGroup
	for w := 0; w < *workers; w++ {
		wg.Add(1)
		go func() {
			defer wg.Done()
			var c *child
			defer func() {
				if c != nil {
					if os.Getenv("VERIF_TRACK_KINDS") != "" {
						if r, why := c.roundTrip([]byte(`{"__kinds":1}`), 5*time.Second); why == "" {
							mu.Lock()
							for _, k := range r.Extra {
								kinds[k] = true
							}
							mu.Unlock()
						}
					}
					c.kill()
				}
			}()
			for line := range lines {
				m0, err := decodeLine(line)
				if err != nil {
					record(nil, Result{Class: "harness", Detail: "bad line: " + err.Error() + ": " + string(line[:min(len(line), 200)])})
					continue
				}
				subs, err := expandPool(m0, poolDir)
				if err != nil {
					record(m0, Result{Class: "harness", Detail: err.Error()})
					continue
				}
				for _, m := range subs {
				if k := getString(m, "kind"); (k == "docscale" || k == "count") && *only == "scale" {
					// the nesting stages run the document families too
				} else if *only != "" && k != *only {
					continue
				}
				if k := getString(m, "kind"); k == "scale" || k == "docscale" {
					m["deep"] = os.Getenv("VERIF_DEEP") // part of the case identity (known findings name it)
				}
				if hangs.Load() >= *maxHangs {
					mu.Lock()
					sum.NotRun++
					mu.Unlock()
					continue
				}
				line, _ := json.Marshal(m)
				if c == nil {
					c, err = startChild()
					if err != nil {
						record(m, Result{Class: "harness", Detail: "cannot start worker: " + err.Error()})
						continue
					}
				}
				budget := *timeout
				r, why := c.roundTrip(line, budget)
				if why == "" {
					record(m, r)
					continue
				}
				// the child died or hung on this case: confirm in a fresh child
				stderr := c.stderr.String()
				c.kill()
				c = nil
				confirmed := false
				var detail string
				confirmBudget := 2 * budget
				if confirmBudget < 30*time.Second {
					confirmBudget = 30 * time.Second
				}
				if c2, err := startChild(); err == nil {
					// confirmation: a fresh process and a budget that a merely busy machine
					// cannot exhaust (a real hang costs this much once per case, at most 12 times)
					r2, why2 := c2.roundTrip(line, confirmBudget)
					if why2 == why {
						confirmed = true
						if why2 == "crash" {
							stderr = c2.stderr.String()
						}
					} else if why2 == "" {
						detail = "did not reproduce in a fresh process"
						_ = r2
					} else {
						confirmed = true
					}
					c2.kill()
				}
				if confirmed {
					hangs.Add(1)
					res := Result{Class: why, Detail: firstLines(stderr, 40)}
					if why == "crash" && strings.Contains(stderr, "DATA RACE") {
						res.Class = "race"
						res.Site = raceSite(stderr)
					}
					if why == "hang" {
						res.Detail = fmt.Sprintf("no answer within %v, nor within %v in a fresh process", budget, confirmBudget)
					} else {
						res.Site = crashSite(stderr)
					}
					record(m, res)
				} else {
					record(m, Result{Class: "unconfirmed", Detail: why + ": " + detail})
				}
				}
			}
		}()
	}

	var logw *bufio.Writer
	if *logPath != "" {
		f, err := os.Create(*logPath)
		if err != nil {
			fmt.Fprintln(os.Stderr, err)
			os.Exit(2)
		}
		defer f.Close()
		logw = bufio.NewWriter(f)
		defer logw.Flush()
	}
	seen := map[[16]byte]bool{}
	in := bufio.NewReaderSize(os.Stdin, 1<<20)
	for {
		line, err := in.ReadBytes('\n')
		line = bytes.TrimSpace(line)
		var payload []byte
		if bytes.HasPrefix(line, []byte("\"CASE ")) {
			// a TLA+ string printed by TLC: same escapes as a Go string literal
			if u, uerr := strconv.Unquote(string(line)); uerr == nil {
				payload = []byte(u[5:])
			} else {
				mu.Lock()
				sum.HarnessErr = append(sum.HarnessErr, "cannot unquote TLC line: "+uerr.Error())
				mu.Unlock()
			}
		} else if len(line) > 0 && line[0] == '{' {
			payload = append([]byte(nil), line...)
		} else if logw != nil && len(line) > 0 {
			logw.Write(line)
			logw.WriteByte('\n')
		}
		if payload != nil {
			h := md5.Sum(payload)
			if seen[h] {
				dups++
			} else {
				seen[h] = true
				lines <- payload
			}
		}
		if err != nil {
			break
		}
	}
	close(lines)
	wg.Wait()
	for k := range kinds {
		sum.NodeKinds = append(sum.NodeKinds, k)
	}
	sum.WallS = time.Since(start).Seconds()
	sum.Duplicates = dups
	sum.Lines = int64(len(seen))
	b, _ := json.Marshal(sum)
	if *outPath != "" {
		if err := os.WriteFile(*outPath, b, 0o644); err != nil {
			fmt.Fprintln(os.Stderr, err)
			os.Exit(2)
		}
	} else {
		os.Stdout.Write(b)
	}
	if len(sum.HarnessErr) > 0 {
		fmt.Fprintln(os.Stderr, "harness errors:", strings.Join(sum.HarnessErr, "; "))
		os.Exit(2)
	}
}

func firstLines(s string, n int) string {
	lines := strings.Split(s, "\n")
	if len(lines) > n {
		lines = lines[:n]
	}
	return strings.Join(lines, "\n")
}

func crashSite(stderr string) string {
	for _, l := range strings.Split(stderr, "\n") {
		if strings.HasPrefix(l, "fatal error:") || strings.HasPrefix(l, "runtime: goroutine stack exceeds") {
			return strings.TrimSpace(l)
		}
	}
	return "?"
}

var poolCache sync.Map

func loadPool(dir, name string) ([]any, error) {
	if v, ok := poolCache.Load(name); ok {
		return v.([]any), nil
	}
	data, err := os.ReadFile(dir + "/" + name + ".json")
	if err != nil {
		return nil, err
	}
	d := json.NewDecoder(bytes.NewReader(data))
	d.UseNumber()
	var docs []any
	if err := d.Decode(&docs); err != nil {
		return nil, err
	}
	out := make([]any, len(docs))
	for i, x := range docs {
		t := fromGo(x)
		if ok, why := t.plainJSON(); !ok {
			return nil, fmt.Errorf("pool %s[%d]: %s", name, i, why)
		}
		// through JSON text so that the in-memory form equals what a worker decodes
		b, _ := json.Marshal(t.toJSON())
		m, err := decodeLine(b)
		if err != nil {
			return nil, err
		}
		out[i] = m
	}
	poolCache.Store(name, out)
	return out, nil
}

// expandPool turns a case that carries one admissible set per document of a
// named pool ("pool", "adms") into one case per document ("doc", "adm").
func expandPool(m map[string]any, dir string) ([]map[string]any, error) {
	if multi, ok := m["multi"].([]any); ok {
		// a batch: shared fields at the top, one map of overriding fields per case
		var out []map[string]any
		for _, x := range multi {
			sub, ok := x.(map[string]any)
			if !ok {
				return nil, fmt.Errorf("multi: element is %T", x)
			}
			c := make(map[string]any, len(m)+len(sub))
			for k, v := range m {
				if k != "multi" {
					c[k] = v
				}
			}
			for k, v := range sub {
				c[k] = v
			}
			more, err := expandPool(c, dir)
			if err != nil {
				return nil, err
			}
			out = append(out, more...)
		}
		return out, nil
	}
	name, ok := m["pool"].(string)
	if !ok || getString(m, "kind") == "hist" || getString(m, "kind") == "sched" || getString(m, "kind") == "race" {
		return []map[string]any{m}, nil
	}
	docs, err := loadPool(dir, name)
	if err != nil {
		return nil, err
	}
	adms, _ := m["adms"].([]any)
	if len(adms) != len(docs) {
		return nil, fmt.Errorf("case has %d admissible sets for pool %s of %d documents", len(adms), name, len(docs))
	}
	out := make([]map[string]any, 0, len(docs))
	for i := range docs {
		c := make(map[string]any, len(m)+2)
		for k, v := range m {
			if k != "pool" && k != "adms" {
				c[k] = v
			}
		}
		c["doc"] = docs[i]
		c["adm"] = adms[i]
		c["di"] = i
		out = append(out, c)
	}
	return out, nil
}

func raceSite(stderr string) string {
	lines := strings.Split(stderr, "\n")
	for i, l := range lines {
		if strings.HasPrefix(l, "Write at") || strings.HasPrefix(l, "Previous write at") {
			if i+1 < len(lines) {
				return strings.TrimSpace(lines[i+1])
			}
		}
	}
	return "?"
}
