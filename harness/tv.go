package main

// Tagged values: the projection shared with the TLA+ specification
// (spec/JValue.tla) and the driver (lib/tagged.py).
//
//	{"t":"null"} {"t":"bool","b":true} {"t":"num","n":15,"e":-1}
//	{"t":"str","s":[97,98]} {"t":"arr","a":[...],"u":false}
//	{"t":"obj","o":[{"k":[97],"v":...}]}
//
// and outcomes {"t":"err","cs":["invalid-type"]} / {"t":"any"}.

import (
	"encoding/json"
	"fmt"
	"math"
	"math/big"
	"sort"
	"strconv"
	"strings"
	"unicode/utf8"

	"github.com/woodsbury/decimal128"
)

type Mem struct {
	K string
	V *TV
}

type TV struct {
	T  string // null bool num str arr obj err any | nonfinite foreign badutf8
	B  bool
	N  *big.Int // coefficient
	E  int      // exponent (value = N * 10^E), normalised: N%10 != 0 or N == 0 && E == 0
	S  string
	A  []*TV
	U  bool
	O  []Mem // sorted by key (code point order == byte order for valid UTF-8)
	CS []string
	X  string // detail for nonfinite / foreign
	Lo *TV    // t = "range": inclusive bounds (numbers)
	Hi *TV
}

func cpsToString(v any) (string, error) {
	arr, ok := v.([]any)
	if !ok {
		return "", fmt.Errorf("code points: not an array: %T", v)
	}
	var b strings.Builder
	for _, x := range arr {
		n, ok := x.(json.Number)
		if !ok {
			return "", fmt.Errorf("code point: %T", x)
		}
		i, err := n.Int64()
		if err != nil {
			return "", err
		}
		if i < 0 {
			b.WriteByte(0xff) // -1: a byte that can never be part of valid UTF-8
		} else if i >= 0xD800 && i <= 0xDFFF {
			// lone surrogate code point: encode as the 3-byte (invalid) form
			b.Write([]byte{0xED, byte(0xA0 | ((i >> 6) & 0x1F)), byte(0x80 | (i & 0x3F))})
		} else {
			b.WriteRune(rune(i))
		}
	}
	return b.String(), nil
}

func stringToCps(s string) []int {
	out := make([]int, 0, len(s))
	for len(s) > 0 {
		r, sz := utf8.DecodeRuneInString(s)
		if r == utf8.RuneError && sz <= 1 {
			out = append(out, -1)
		} else {
			out = append(out, int(r))
		}
		s = s[sz:]
	}
	return out
}

func normNum(n *big.Int, e int) (*big.Int, int) {
	if n.Sign() == 0 {
		return new(big.Int), 0
	}
	n = new(big.Int).Set(n)
	ten := big.NewInt(10)
	q, r := new(big.Int), new(big.Int)
	for {
		q.QuoRem(n, ten, r)
		if r.Sign() != 0 {
			break
		}
		n.Set(q)
		e++
	}
	return n, e
}

// parseDecimal parses JSON-number-like text (also 1E+3, +1, .5 as produced by
// various formatters).  ok=false for NaN / Infinity / garbage.
func parseDecimal(s string) (*big.Int, int, bool) {
	t := strings.TrimSpace(s)
	if t == "" {
		return nil, 0, false
	}
	neg := false
	if t[0] == '+' || t[0] == '-' {
		neg = t[0] == '-'
		t = t[1:]
	}
	exp := 0
	if i := strings.IndexAny(t, "eE"); i >= 0 {
		x, err := strconv.Atoi(t[i+1:])
		if err != nil {
			return nil, 0, false
		}
		exp = x
		t = t[:i]
	}
	if i := strings.IndexByte(t, '.'); i >= 0 {
		exp -= len(t) - i - 1
		t = t[:i] + t[i+1:]
	}
	if t == "" {
		return nil, 0, false
	}
	for _, c := range t {
		if c < '0' || c > '9' {
			return nil, 0, false
		}
	}
	n, ok := new(big.Int).SetString(t, 10)
	if !ok {
		return nil, 0, false
	}
	if neg {
		n.Neg(n)
	}
	n, exp = normNum(n, exp)
	return n, exp, true
}

func numTV(text string) *TV {
	n, e, ok := parseDecimal(text)
	if !ok {
		return &TV{T: "nonfinite", X: text}
	}
	return &TV{T: "num", N: n, E: e}
}

// fromJSON decodes the tagged JSON form.
func fromJSON(v any) (*TV, error) {
	m, ok := v.(map[string]any)
	if !ok {
		return nil, fmt.Errorf("tagged value: not an object: %T", v)
	}
	t, _ := m["t"].(string)
	switch t {
	case "null", "any":
		return &TV{T: t}, nil
	case "bool":
		b, _ := m["b"].(bool)
		return &TV{T: t, B: b}, nil
	case "num":
		if big, ok := m["big"].(string); ok {
			return numTV(big), nil
		}
		if ds, ok := m["ds"].([]any); ok {
			// digit-sequence form of spec/Decimal.tla
			var sb strings.Builder
			if neg, _ := m["neg"].(bool); neg {
				sb.WriteByte('-')
			}
			if len(ds) == 0 {
				sb.WriteByte('0')
			}
			for _, d := range ds {
				dn, _ := d.(json.Number)
				sb.WriteString(dn.String())
			}
			e, _ := m["e"].(json.Number)
			sb.WriteString("e" + e.String())
			return numTV(sb.String()), nil
		}
		n, _ := m["n"].(json.Number)
		e, _ := m["e"].(json.Number)
		ni, ok := new(big.Int).SetString(n.String(), 10)
		if !ok {
			return nil, fmt.Errorf("num n: %q", n)
		}
		ei, err := strconv.Atoi(e.String())
		if err != nil {
			return nil, err
		}
		ni, ei = normNum(ni, ei)
		return &TV{T: t, N: ni, E: ei}, nil
	case "str":
		s, err := cpsToString(m["s"])
		if err != nil {
			return nil, err
		}
		return &TV{T: t, S: s}, nil
	case "arr":
		arr, _ := m["a"].([]any)
		out := &TV{T: t, A: make([]*TV, 0, len(arr))}
		out.U, _ = m["u"].(bool)
		for _, x := range arr {
			c, err := fromJSON(x)
			if err != nil {
				return nil, err
			}
			out.A = append(out.A, c)
		}
		return out, nil
	case "obj":
		arr, _ := m["o"].([]any)
		out := &TV{T: t}
		for _, x := range arr {
			mm, ok := x.(map[string]any)
			if !ok {
				return nil, fmt.Errorf("member: %T", x)
			}
			k, err := cpsToString(mm["k"])
			if err != nil {
				return nil, err
			}
			c, err := fromJSON(mm["v"])
			if err != nil {
				return nil, err
			}
			out.O = append(out.O, Mem{k, c})
		}
		sort.SliceStable(out.O, func(i, j int) bool { return out.O[i].K < out.O[j].K })
		return out, nil
	case "range":
		// magnitudes lo..hi (digit sequences) times 10^e, with a sign
		mk := func(key string, neg bool) (*TV, error) {
			sub := map[string]any{"t": "num", "ds": m[key], "neg": neg, "e": m["e"]}
			return fromJSON(sub)
		}
		neg, _ := m["neg"].(bool)
		lo, err := mk("lo", neg)
		if err != nil {
			return nil, err
		}
		hi, err := mk("hi", neg)
		if err != nil {
			return nil, err
		}
		if neg {
			lo, hi = hi, lo
		}
		return &TV{T: "range", Lo: lo, Hi: hi}, nil
	case "err":
		arr, _ := m["cs"].([]any)
		out := &TV{T: t}
		for _, x := range arr {
			s, _ := x.(string)
			out.CS = append(out.CS, s)
		}
		sort.Strings(out.CS)
		return out, nil
	}
	return nil, fmt.Errorf("tagged value: unknown tag %q", t)
}

func (v *TV) toJSON() any {
	switch v.T {
	case "null", "any":
		return map[string]any{"t": v.T}
	case "bool":
		return map[string]any{"t": v.T, "b": v.B}
	case "num":
		if v.N.IsInt64() && v.N.Int64() > -(1<<31) && v.N.Int64() < (1<<31) {
			return map[string]any{"t": v.T, "n": v.N.Int64(), "e": v.E}
		}
		return map[string]any{"t": v.T, "big": v.N.String() + "e" + strconv.Itoa(v.E)}
	case "str":
		return map[string]any{"t": v.T, "s": stringToCps(v.S)}
	case "arr":
		a := make([]any, len(v.A))
		for i, x := range v.A {
			a[i] = x.toJSON()
		}
		return map[string]any{"t": v.T, "a": a, "u": v.U}
	case "obj":
		o := make([]any, len(v.O))
		for i, m := range v.O {
			o[i] = map[string]any{"k": stringToCps(m.K), "v": m.V.toJSON()}
		}
		return map[string]any{"t": v.T, "o": o}
	case "err":
		return map[string]any{"t": v.T, "cs": v.CS}
	}
	return map[string]any{"t": v.T, "x": v.X}
}

// show renders a value for humans.
func (v *TV) show() string {
	switch v.T {
	case "null":
		return "null"
	case "any":
		return "<unpinned>"
	case "bool":
		return strconv.FormatBool(v.B)
	case "num":
		if v.E >= 0 && v.E <= 20 {
			return v.N.String() + strings.Repeat("0", v.E)
		}
		if v.E < 0 && v.E > -40 {
			s := new(big.Int).Abs(v.N).String()
			for len(s) <= -v.E {
				s = "0" + s
			}
			s = s[:len(s)+v.E] + "." + s[len(s)+v.E:]
			if v.N.Sign() < 0 {
				s = "-" + s
			}
			return s
		}
		return v.N.String() + "e" + strconv.Itoa(v.E)
	case "str":
		return strconv.Quote(v.S)
	case "arr":
		parts := make([]string, len(v.A))
		for i, x := range v.A {
			parts[i] = x.show()
		}
		s := "[" + strings.Join(parts, ",") + "]"
		if v.U {
			s = "~" + s
		}
		return s
	case "obj":
		parts := make([]string, len(v.O))
		for i, m := range v.O {
			parts[i] = strconv.Quote(m.K) + ":" + m.V.show()
		}
		return "{" + strings.Join(parts, ",") + "}"
	case "err":
		return "error:" + strings.Join(v.CS, "|")
	case "range":
		return "[" + v.Lo.show() + " .. " + v.Hi.show() + "]"
	}
	return v.T + "(" + v.X + ")"
}

// floatExact: decimal text of a binary float.  A float whose exact decimal
// expansion has at most 34 significant digits (every integer below 2^113 or
// so, every dyadic fraction m/2^k with a short expansion: 0.5, 2^-25,
// 1 + 2^-30) IS that decimal: the library converts it exactly and C14 speaks
// of floats "when the value is exactly representable".  Any other float
// denotes its shortest round-trip decimal (what encoding/json prints, what a
// user means by the float64 0.1).
var shortestFloats = false // projection used to compare across encoding/json

func floatExact(x float64) string {
	if !shortestFloats {
		if r := new(big.Rat).SetFloat64(x); r != nil {
			k := r.Denom().BitLen() - 1 // the denominator is 2^k: exactly k fractional digits
			if k <= 120 {
				exact := r.FloatString(k)
				if sigDigits(exact) <= 34 {
					return exact
				}
			}
		}
	}
	return strconv.FormatFloat(x, 'e', -1, 64)
}

// sigDigits counts the significant digits of a number in 'e' notation.
func sigDigits(text string) int {
	m := text
	if i := strings.IndexAny(m, "eE"); i >= 0 {
		m = m[:i]
	}
	m = strings.TrimLeft(m, "+-")
	m = strings.Replace(m, ".", "", 1)
	m = strings.TrimLeft(m, "0")
	m = strings.TrimRight(m, "0")
	if m == "" {
		return 1
	}
	return len(m)
}

// fromGo projects a Go value returned by (or passed to) the library.
// Anything that is not plain JSON data becomes a "foreign"/"nonfinite"/
// "badutf8" node, which no admissible value ever equals.
func fromGo(x any) *TV {
	switch x := x.(type) {
	case nil:
		return &TV{T: "null"}
	case bool:
		return &TV{T: "bool", B: x}
	case string:
		if !utf8.ValidString(x) {
			return &TV{T: "badutf8", X: strconv.Quote(x)}
		}
		return &TV{T: "str", S: x}
	case json.Number:
		return numTV(x.String())
	case decimal128.Decimal:
		if x.IsNaN() || x.IsInf(0) {
			return &TV{T: "nonfinite", X: x.String()}
		}
		return numTV(x.String())
	case float64:
		if math.IsNaN(x) || math.IsInf(x, 0) {
			return &TV{T: "nonfinite", X: fmt.Sprint(x)}
		}
		return numTV(floatExact(x))
	case float32:
		if math.IsNaN(float64(x)) || math.IsInf(float64(x), 0) {
			return &TV{T: "nonfinite", X: fmt.Sprint(x)}
		}
		return numTV(floatExact(float64(x)))
	case int:
		return numTV(strconv.FormatInt(int64(x), 10))
	case int8:
		return numTV(strconv.FormatInt(int64(x), 10))
	case int16:
		return numTV(strconv.FormatInt(int64(x), 10))
	case int32:
		return numTV(strconv.FormatInt(int64(x), 10))
	case int64:
		return numTV(strconv.FormatInt(x, 10))
	case uint:
		return numTV(strconv.FormatUint(uint64(x), 10))
	case uint8:
		return numTV(strconv.FormatUint(uint64(x), 10))
	case uint16:
		return numTV(strconv.FormatUint(uint64(x), 10))
	case uint32:
		return numTV(strconv.FormatUint(uint64(x), 10))
	case uint64:
		return numTV(strconv.FormatUint(x, 10))
	case []any:
		out := &TV{T: "arr", A: make([]*TV, len(x))}
		for i, e := range x {
			out.A[i] = fromGo(e)
		}
		return out
	case map[string]any:
		out := &TV{T: "obj", O: make([]Mem, 0, len(x))}
		for k, e := range x {
			if !utf8.ValidString(k) {
				return &TV{T: "badutf8", X: strconv.Quote(k)}
			}
			out.O = append(out.O, Mem{k, fromGo(e)})
		}
		sort.Slice(out.O, func(i, j int) bool { return out.O[i].K < out.O[j].K })
		return out
	}
	return &TV{T: "foreign", X: fmt.Sprintf("%T", x)}
}

// plainJSON reports whether a projected value consists of JSON data only.
func (v *TV) plainJSON() (bool, string) {
	switch v.T {
	case "null", "bool", "num", "str":
		return true, ""
	case "arr":
		for _, x := range v.A {
			if ok, why := x.plainJSON(); !ok {
				return false, why
			}
		}
		return true, ""
	case "obj":
		for _, m := range v.O {
			if ok, why := m.V.plainJSON(); !ok {
				return false, why
			}
		}
		return true, ""
	}
	return false, v.T + ":" + v.X
}

func numEq(a, b *TV) bool { return a.E == b.E && a.N.Cmp(b.N) == 0 }

// eqU: equality up to the order of arrays marked unordered on either side.
func eqU(a, b *TV) bool {
	if a.T != b.T {
		return false
	}
	switch a.T {
	case "null":
		return true
	case "bool":
		return a.B == b.B
	case "num":
		return numEq(a, b)
	case "str":
		return a.S == b.S
	case "arr":
		if len(a.A) != len(b.A) {
			return false
		}
		if a.U || b.U {
			used := make([]bool, len(b.A))
		outer:
			for _, x := range a.A {
				for j, y := range b.A {
					if !used[j] && eqU(x, y) {
						used[j] = true
						continue outer
					}
				}
				return false
			}
			return true
		}
		for i := range a.A {
			if !eqU(a.A[i], b.A[i]) {
				return false
			}
		}
		return true
	case "obj":
		if len(a.O) != len(b.O) {
			return false
		}
		for i := range a.O {
			if a.O[i].K != b.O[i].K || !eqU(a.O[i].V, b.O[i].V) {
				return false
			}
		}
		return true
	}
	return false
}

// admits: does the admissible set contain the actual outcome?
func admits(adm []*TV, got *TV) bool {
	for _, a := range adm {
		if a.T == "any" {
			return true
		}
	}
	if got.T == "err" {
		for _, a := range adm {
			if a.T != "err" {
				continue
			}
			ok := true
			for _, c := range got.CS {
				found := false
				for _, d := range a.CS {
					if c == d {
						found = true
					}
				}
				ok = ok && found
			}
			if ok {
				return true
			}
		}
		return false
	}
	for _, a := range adm {
		if a.T == "range" {
			if got.T == "num" && numCmp(a.Lo, got) <= 0 && numCmp(got, a.Hi) <= 0 {
				return true
			}
			continue
		}
		if a.T != "err" && eqU(a, got) {
			return true
		}
	}
	return false
}

// numCmp compares two numbers by value.
func numCmp(a, b *TV) int {
	e := a.E
	if b.E < e {
		e = b.E
	}
	scale := func(v *TV) *big.Int {
		n := new(big.Int).Set(v.N)
		if v.E > e {
			n.Mul(n, new(big.Int).Exp(big.NewInt(10), big.NewInt(int64(v.E-e)), nil))
		}
		return n
	}
	// avoid astronomically large powers: decide by sign and adjusted exponent first
	sa, sb := a.N.Sign(), b.N.Sign()
	if sa != sb {
		if sa < sb {
			return -1
		}
		return 1
	}
	if sa == 0 {
		return 0
	}
	adj := func(v *TV) int { return len(new(big.Int).Abs(v.N).String()) + v.E }
	if adj(a) != adj(b) {
		if (adj(a) < adj(b)) == (sa > 0) {
			return -1
		}
		return 1
	}
	return scale(a).Cmp(scale(b))
}

func pinned(adm []*TV) bool {
	if len(adm) != 1 {
		return false
	}
	a := adm[0]
	if a.T == "any" || a.T == "range" {
		return false
	}
	if a.T == "err" && len(a.CS) != 1 {
		return false
	}
	return true
}

// Carriers for number leaves (property C14).  "" = json.Number.
var carrierKinds = []string{"json", "int", "int8", "int16", "int32", "int64", "uint", "uint8", "uint16", "uint32", "uint64", "float32", "float64", "decimal"}

// hostile carriers (property C03): Go values a caller may put into the data
// that are not JSON numbers at all, or not finite ones.
var hostileKinds = map[string]func() any{
	"nan":         func() any { return math.NaN() },
	"+inf":        func() any { return math.Inf(1) },
	"-inf":        func() any { return math.Inf(-1) },
	"f32nan":      func() any { return float32(math.NaN()) },
	"f32inf":      func() any { return float32(math.Inf(1)) },
	"decnan":      func() any { return decimal128.NaN() },
	"decinf":      func() any { return decimal128.Inf(1) },
	"decneginf":   func() any { return decimal128.Inf(-1) },
	"jsonempty":   func() any { return json.Number("") },
	"jsonabc":     func() any { return json.Number("abc") },
	"jsonhuge":    func() any { return json.Number("1e999999999") },
	"jsontiny":    func() any { return json.Number("-1e-999999999") },
	"jsonminus":   func() any { return json.Number("-") },
	"jsonhex":     func() any { return json.Number("0x10") },
	"typedslice":  func() any { return []int{1, 2} },
	"typedmap":    func() any { return map[string]int{"a": 1} },
	"anymapkey":   func() any { return map[any]any{1: 2} },
	"struct":      func() any { return struct{ A int }{1} },
	"chan":        func() any { return make(chan int) },
	"nilptr":      func() any { var p *int; return p },
	"func":        func() any { return func() {} },
	"complex":     func() any { return complex(1, 2) },
	"uintptr":     func() any { return uintptr(7) },
	"int64min":    func() any { return int64(math.MinInt64) },
	"uint64max":   func() any { return uint64(math.MaxUint64) },
	"f64big":      func() any { return float64(1 << 63) },
	"f64max":      func() any { return math.MaxFloat64 },
	"bytes":       func() any { return []byte("ab") },
	"rune":        func() any { return 'x' },
	"nilslice":    func() any { var s []any; return s },
	"nilmap":      func() any { var m map[string]any; return m },
	"badutf8":     func() any { return "a\xffb" },
	"contbytes":   func() any { return strings.Repeat("\x80\xbf", 20) }, // continuation bytes only
	"badutf8long": func() any { return strings.Repeat("\xff", 100) },
	"longstr":     func() any { return strings.Repeat("a", 10000) },
	"nulstr":      func() any { return "a\x00b" },
	"lonesurr":    func() any { return "\xed\xa0\x80x" }, // an encoded surrogate half
	"selfref": func() any {
		s := make([]any, 1)
		s[0] = s[:0]
		return s
	},
}

func numCarrier(v *TV, kind string) (any, bool) {
	if f, ok := hostileKinds[kind]; ok {
		return f(), true
	}
	text := v.N.String() + "e" + strconv.Itoa(v.E)
	plain := plainDecimal(v)
	switch kind {
	case "", "json":
		return json.Number(plain), true
	case "jsonexp": // the same value in exponent spelling, e.g. 1e2, 5e-1
		return json.Number(text), true
	case "jsondot": // an integer written with a fraction part, e.g. 100.0
		if v.E < 0 {
			return nil, false
		}
		return json.Number(plain + ".0"), true
	case "decimal":
		d, err := decimal128.Parse(text)
		if err != nil {
			return nil, false
		}
		return d, true
	case "floatany": // the nearest float64, exact or not (only where the case does not depend on the value)
		f, err := strconv.ParseFloat(text, 64)
		if err != nil || math.IsInf(f, 0) {
			return nil, false
		}
		return f, true
	case "float64", "float32":
		f, err := strconv.ParseFloat(text, 64)
		if err != nil {
			return nil, false
		}
		// exactly representable in binary?  (the shortest round-trip text is
		// not enough: 0.1 round-trips but is not the value 1/10)
		if kind == "float32" {
			f = float64(float32(f))
		}
		want, ok := new(big.Rat).SetString(text)
		have := new(big.Rat)
		if !ok || math.IsInf(f, 0) || math.IsNaN(f) || have.SetFloat64(f) == nil || have.Cmp(want) != 0 {
			return nil, false
		}
		if kind == "float32" {
			return float32(f), true
		}
		return f, true
	}
	if v.E < 0 {
		return nil, false
	}
	n := new(big.Int).Set(v.N)
	n.Mul(n, new(big.Int).Exp(big.NewInt(10), big.NewInt(int64(v.E)), nil))
	fits := func(lo, hi int64) bool { return n.IsInt64() && n.Int64() >= lo && n.Int64() <= hi }
	switch kind {
	case "int":
		if n.IsInt64() {
			return int(n.Int64()), true
		}
	case "int64":
		if n.IsInt64() {
			return n.Int64(), true
		}
	case "int32":
		if fits(math.MinInt32, math.MaxInt32) {
			return int32(n.Int64()), true
		}
	case "int16":
		if fits(math.MinInt16, math.MaxInt16) {
			return int16(n.Int64()), true
		}
	case "int8":
		if fits(math.MinInt8, math.MaxInt8) {
			return int8(n.Int64()), true
		}
	case "uint", "uint64":
		if n.IsUint64() {
			if kind == "uint" {
				return uint(n.Uint64()), true
			}
			return n.Uint64(), true
		}
	case "uint32":
		if fits(0, math.MaxUint32) {
			return uint32(n.Int64()), true
		}
	case "uint16":
		if fits(0, math.MaxUint16) {
			return uint16(n.Int64()), true
		}
	case "uint8":
		if fits(0, math.MaxUint8) {
			return uint8(n.Int64()), true
		}
	}
	return nil, false
}

// plainDecimal: JSON number text without exponent where reasonable.
func plainDecimal(v *TV) string {
	if v.E >= 0 && v.E <= 30 {
		return v.N.String() + strings.Repeat("0", v.E)
	}
	if v.E < 0 && v.E >= -30 {
		return (&TV{T: "num", N: v.N, E: v.E}).show()
	}
	return v.N.String() + "e" + strconv.Itoa(v.E)
}

const sentinelSpare = "\x00verif-spare-capacity\x00"

// toGo builds a fresh Go document.  Number leaves take their carrier from
// carriers (by pre-order leaf index; missing = json.Number).  Slices are built
// with spare capacity filled with a sentinel so that writes past len show.
type builder struct {
	carriers []string
	leaf     int
	bad      bool // some carrier could not hold its value
	hostile  bool // some leaf was replaced by a non-JSON Go value
	slices   [][]any
}

func (b *builder) build(v *TV) any {
	switch v.T {
	case "null":
		return nil
	case "bool":
		return v.B
	case "num":
		kind := ""
		if b.leaf < len(b.carriers) {
			kind = b.carriers[b.leaf]
		}
		b.leaf++
		if _, h := hostileKinds[kind]; h {
			b.hostile = true
		}
		x, ok := numCarrier(v, kind)
		if !ok {
			b.bad = true
			x, _ = numCarrier(v, "json")
		}
		return x
	case "str":
		return v.S
	case "arr":
		s := make([]any, len(v.A), len(v.A)+2)
		for i, x := range v.A {
			s[i] = b.build(x)
		}
		full := s[:cap(s)]
		for i := len(s); i < cap(s); i++ {
			full[i] = sentinelSpare
		}
		b.slices = append(b.slices, s)
		return s
	case "obj":
		m := make(map[string]any, len(v.O))
		for _, e := range v.O {
			m[e.K] = b.build(e.V)
		}
		return m
	}
	return nil
}

func (b *builder) spareIntact() bool {
	for _, s := range b.slices {
		full := s[:cap(s)]
		for i := len(s); i < cap(s); i++ {
			if full[i] != sentinelSpare {
				return false
			}
		}
	}
	return true
}
