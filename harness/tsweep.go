package main

// tsweep: spec/GenTSweep.tla -- document, expression and expected value are
// templates instantiated for every n of a range.  The instantiation below is
// the one defined in the specification (Inst): REP sections are repeated n
// times with IDX = 0..n-1, NUM(a, b) is a*n + b in decimal.

import (
	"bytes"
	"encoding/json"
	"fmt"
	"strconv"
	"strings"
)

func init() { extraKinds["tsweep"] = runTSweep }

const (
	tsOpen  = 57360
	tsClose = 57361
	tsIdx   = 57344
	tsNum   = 57600
)

func cpsToRunes(v any) ([]rune, error) {
	a, ok := v.([]any)
	if !ok {
		if s, ok := v.(string); ok {
			return []rune(s), nil
		}
		return nil, fmt.Errorf("template: %T", v)
	}
	out := make([]rune, len(a))
	for i, x := range a {
		n, ok := x.(interface{ Int64() (int64, error) })
		if !ok {
			return nil, fmt.Errorf("template element %T", x)
		}
		c, _ := n.Int64()
		out[i] = rune(c)
	}
	return out, nil
}

func tsSubst(sb *strings.Builder, s []rune, n, i int) {
	for _, c := range s {
		switch {
		case c == tsIdx:
			sb.WriteString(strconv.Itoa(i))
		case c == tsIdx+1: // RIDX
			sb.WriteString(strconv.Itoa(n - 1 - i))
		case c == tsIdx+2: // IDX1
			sb.WriteString(strconv.Itoa(i + 1))
		case c == tsIdx+3: // TRI
			sb.WriteString(strconv.Itoa(n * (n + 1) / 2))
		case c == tsIdx+4: // TRI0
			sb.WriteString(strconv.Itoa(n * (n - 1) / 2))
		case c >= tsNum && c < tsNum+128:
			a, b := int(c-tsNum)/32, int(c-tsNum)%32-8
			sb.WriteString(strconv.Itoa(a*n + b))
		default:
			sb.WriteRune(c)
		}
	}
}

func tsInst(t []rune, n int) string {
	var sb strings.Builder
	for len(t) > 0 {
		o := -1
		for j, c := range t {
			if c == tsOpen {
				o = j
				break
			}
		}
		if o < 0 {
			tsSubst(&sb, t, n, 0)
			break
		}
		c := o + 1
		for c < len(t) && t[c] != tsClose {
			c++
		}
		tsSubst(&sb, t[:o], n, 0)
		for i := 0; i < n; i++ {
			tsSubst(&sb, t[o+1:c], n, i)
		}
		if c >= len(t) {
			break
		}
		t = t[c+1:]
	}
	return sb.String()
}

func decodePlain(text string) (any, error) {
	d := json.NewDecoder(bytes.NewReader([]byte(text)))
	d.UseNumber()
	var v any
	if err := d.Decode(&v); err != nil {
		return nil, fmt.Errorf("%v in %.80q", err, text)
	}
	return v, nil
}

func runTSweep(m map[string]any) Result {
	family := getString(m, "family")
	docT, err1 := cpsToRunes(m["doc"])
	exprT, err2 := cpsToRunes(m["expr"])
	expT, err3 := cpsToRunes(m["exp"])
	if err1 != nil || err2 != nil || err3 != nil {
		return Result{Class: "harness", Detail: fmt.Sprint("tsweep templates: ", err1, err2, err3)}
	}
	from, to := intField(m, "from"), intField(m, "to")
	if strings.HasPrefix(family, "wide-let") || strings.HasPrefix(family, "nested-lets") || family == "last-var" || family == "shadow-distinct" ||
		family == "unbound-among-many" || family == "hash-keys" || family == "merge-many" || family == "args-many" {
		// quadratic text sizes are not the point of these families
		if to > 2000 {
			to = 2000
		}
	}
	for n := from; n <= to; n++ {
		docText, expr, expText := tsInst(docT, n), tsInst(exprT, n), tsInst(expT, n)
		where := fmt.Sprintf("family %s, n = %d (%.60s on %.60s)", family, n, expr, docText)
		docGo, err := decodePlain(docText)
		if err != nil {
			return Result{Class: "harness", Detail: "tsweep document: " + err.Error()}
		}
		before := fromGo(docGo)
		var adm []*TV
		if strings.HasPrefix(expText, "SYNTAX:") {
			adm = []*TV{{T: "err", CS: []string{strings.TrimPrefix(expText, "SYNTAX:")}}}
		} else {
			want, err := decodePlain(expText)
			if err != nil {
				return Result{Class: "harness", Detail: "tsweep expected value: " + err.Error()}
			}
			adm = []*TV{fromGo(want)}
		}
		c := doSearch(expr, docGo)
		if c.panicked {
			r := fail("panic", c.out, where+": "+firstLines(c.stack, 12))
			r.Site = c.site
			return r
		}
		if c.contract != "" {
			return fail("contract", c.out, where+": "+c.contract)
		}
		if !admits(adm, c.out) {
			got := c.out.show()
			if len(got) > 300 {
				got = got[:300] + "..."
			}
			return fail("mismatch", nil, where+": got "+got+", expected "+fmt.Sprintf("%.300s", adm[0].show()))
		}
		if !strictEq(before, fromGo(docGo)) {
			return fail("mutation", nil, where+": the document was changed by the call")
		}
		if e, cc := doCompile(expr); e != nil && !cc.panicked {
			if c2 := doExprSearch(e, docGo); !sameOutcome(c.out, c2.out) {
				return fail("differs", nil, where+": Expression.Search and Search disagree")
			}
		}
	}
	return Result{OK: true, Pinned: true, GotS: fmt.Sprintf("%s: n = %d..%d", family, from, to)}
}
