package main

import (
	"sync"
	"math/big"
	"os"
	"strconv"
	"errors"
	"fmt"
	"runtime/debug"
	"strings"

	"github.com/woodsbury/jmespath"
)

var sentinels = []struct {
	err  error
	name string
}{
	{jmespath.ErrSyntax, "syntax"},
	{jmespath.ErrInvalidArity, "invalid-arity"},
	{jmespath.ErrUnknownFunction, "unknown-function"},
	{jmespath.ErrInvalidType, "invalid-type"},
	{jmespath.ErrInvalidValue, "invalid-value"},
	{jmespath.ErrUndefinedVariable, "undefined-variable"},
	{jmespath.ErrNotANumber, "not-a-number"},
	{jmespath.ErrEvaluationFailed, "evaluation-failed"},
}

// Result of one case, sent back to the parent.
type Result struct {
	OK     bool     `json:"ok"`
	Class  string   `json:"class,omitempty"`  // mismatch panic contract mutation nonjson badutf8 differs ...
	Got    any      `json:"got,omitempty"`    // tagged actual outcome
	GotS   string   `json:"gots,omitempty"`   // rendered
	Detail string   `json:"detail,omitempty"` // free text (stack, explanation)
	Site   string   `json:"site,omitempty"`   // panic site
	Steps  int64    `json:"steps,omitempty"`
	Pinned bool     `json:"pinned"`
	Extra  []string `json:"extra,omitempty"`
}

type call struct {
	out      *TV    // value, or err outcome
	raw      any    // raw Go result
	panicked bool
	site     string
	stack    string
	contract string // violation of the error contract, if any
	errText  string
}

func panicSite(stack string) string {
	// first frame inside the library
	lines := strings.Split(stack, "\n")
	for i := 0; i+1 < len(lines); i++ {
		l := lines[i]
		if strings.HasPrefix(l, "github.com/woodsbury/jmespath") && !strings.Contains(l, "Verif") {
			fn := l
			if j := strings.LastIndex(fn, "("); j > 0 {
				fn = fn[:j]
			}
			return fn
		}
	}
	return "?"
}

func classify(err error) (*TV, string) {
	var names []string
	for _, s := range sentinels {
		if errors.Is(err, s.err) {
			names = append(names, s.name)
		}
	}
	contract := ""
	if len(names) != 1 {
		contract = fmt.Sprintf("error %q matches %d exported categories %v, want exactly 1", err.Error(), len(names), names)
	}
	if len(names) == 0 {
		names = []string{"(none)"}
	}
	return &TV{T: "err", CS: names}, contract
}

// protect runs f, converting a panic into a call record.
func protect(f func() (any, error)) (c call) {
	defer func() {
		if r := recover(); r != nil {
			c.panicked = true
			c.stack = fmt.Sprintf("panic: %v\n%s", r, debug.Stack())
			c.site = panicSite(c.stack)
			c.out = &TV{T: "panic", X: fmt.Sprint(r)}
		}
	}()
	res, err := f()
	c.raw = res
	if err != nil {
		c.out, c.contract = classify(err)
		c.errText = err.Error() // every returned error must format
		if res != nil {
			c.contract = "non-nil result returned together with an error"
		}
		return c
	}
	c.out = fromGo(res)
	return c
}

func doSearch(expr string, doc any) call {
	return protect(func() (any, error) { return jmespath.Search(expr, doc) })
}

func doCompile(expr string) (*jmespath.Expression, call) {
	var e *jmespath.Expression
	c := protect(func() (any, error) {
		var err error
		e, err = jmespath.Compile(expr)
		if err == nil && e == nil {
			return nil, errors.New("Compile returned nil, nil")
		}
		if err != nil && e != nil {
			return e, err
		}
		return nil, err
	})
	return e, c
}

func doExprSearch(e *jmespath.Expression, doc any) call {
	return protect(func() (any, error) { return e.Search(doc) })
}

func sameOutcome(a, b *TV) bool {
	if a.T == "err" || b.T == "err" {
		return a.T == b.T && strings.Join(a.CS, ",") == strings.Join(b.CS, ",")
	}
	if a.T == "panic" || b.T == "panic" {
		return a.T == b.T
	}
	x, y := *a, *b
	return eqU(&x, &y)
}

func getString(m map[string]any, k string) string { s, _ := m[k].(string); return s }

func decodeAdm(v any) ([]*TV, error) {
	arr, ok := v.([]any)
	if !ok {
		return nil, fmt.Errorf("adm: %T", v)
	}
	out := make([]*TV, 0, len(arr))
	for _, x := range arr {
		t, err := fromJSON(x)
		if err != nil {
			return nil, err
		}
		out = append(out, t)
	}
	return out, nil
}

func decodeCarriers(v any) []string {
	arr, _ := v.([]any)
	out := make([]string, 0, len(arr))
	for _, x := range arr {
		s, _ := x.(string)
		out = append(out, s)
	}
	return out
}

func fail(class string, got *TV, detail string) Result {
	r := Result{OK: false, Class: class, Detail: detail}
	if got != nil {
		r.Got = got.toJSON()
		r.GotS = got.show()
	}
	return r
}

// generic checks on one call against a document built by b.
func genericChecks(c call, before *TV, docGo any, b *builder, jsonInput bool) *Result {
	if c.panicked {
		r := fail("panic", c.out, c.stack)
		r.Site = c.site
		return &r
	}
	if c.contract != "" {
		r := fail("contract", c.out, c.contract)
		return &r
	}
	if before != nil {
		after := fromGo(docGo)
		if !sameOutcome(before, after) || !b.spareIntact() {
			r := fail("mutation", c.out, "input document changed by the call: before "+before.show()+" after "+after.show())
			return &r
		}
	}
	if c.out.T != "err" && jsonInput {
		if ok, why := c.out.plainJSON(); !ok {
			cl := "nonjson"
			if strings.HasPrefix(why, "badutf8") {
				cl = "badutf8"
			}
			r := fail(cl, c.out, "result is not plain JSON data: "+why)
			return &r
		}
		if ok, why := jsonRoundTrip(c.raw, c.out); !ok {
			r := fail("nonjson", c.out, why)
			return &r
		}
	}
	return nil
}

// runCase executes one case against the real library.
func runCase(m map[string]any) Result {
	kind := getString(m, "kind")
	switch kind {
	case "search", "":
		return runSearch(m)
	case "compile":
		return runCompileCase(m)
	case "pair":
		return runPair(m)
	}
	if f, ok := extraKinds[kind]; ok {
		return f(m)
	}
	return Result{OK: false, Class: "harness", Detail: "unknown case kind " + kind}
}

var extraKinds = map[string]func(map[string]any) Result{}

func runSearch(m map[string]any) Result {
	expr, err := cpsToString(m["expr"])
	if err != nil {
		return Result{Class: "harness", Detail: err.Error()}
	}
	doc, err := fromJSON(m["doc"])
	if err != nil {
		return Result{Class: "harness", Detail: err.Error()}
	}
	adm, err := decodeAdm(m["adm"])
	if err != nil {
		return Result{Class: "harness", Detail: err.Error()}
	}
	if sets, ok := m["carriersets"].([]any); ok {
		return runCarrierSets(expr, doc, adm, sets)
	}
	b := &builder{carriers: decodeCarriers(m["carriers"])}
	docGo := b.build(doc)
	if b.bad {
		return Result{OK: true, Class: "skip-carrier", Pinned: false}
	}
	steps := countSteps(func() {})
	_ = steps
	var c call
	n := countSteps(func() { c = doSearch(expr, docGo) })
	before := baselineOf(doc, b, docGo)
	if b.hostile {
		before = nil // the projection cannot represent foreign values; only "returns normally" is checked
	}
	if r := genericChecks(c, before, docGo, b, !b.hostile); r != nil {
		r.Pinned = pinned(adm)
		return *r
	}
	if b.hostile {
		// every returned error formats (done in protect) and the Expression path does not panic either
		if e, cc := doCompile(expr); cc.panicked {
			r := fail("panic", cc.out, cc.stack)
			r.Site = cc.site
			return r
		} else if e != nil {
			b2 := &builder{carriers: b.carriers}
			if c2 := doExprSearch(e, b2.build(doc)); c2.panicked {
				r := fail("panic", c2.out, c2.stack)
				r.Site = c2.site
				return r
			}
		}
		return Result{OK: true, Pinned: false, GotS: c.out.T}
	}
	res := Result{OK: true, Pinned: pinned(adm), Steps: n}
	if !admits(adm, c.out) {
		r := fail("mismatch", c.out, "outcome outside the admissible set")
		r.Pinned = res.Pinned
		return r
	}
	// a compiled expression is the same function (cheap form of C06, run on every case)
	e, cc := doCompile(expr)
	if cc.panicked {
		r := fail("panic", cc.out, cc.stack)
		r.Site = cc.site
		return r
	}
	if e == nil {
		if c.out.T != "err" || !sameOutcome(c.out, cc.out) {
			return fail("differs", cc.out, "Compile fails with "+cc.out.show()+" but Search gave "+c.out.show())
		}
	} else {
		b2 := &builder{carriers: b.carriers}
		doc2 := b2.build(doc)
		before2 := baselineOf(doc, b2, doc2)
		c2 := doExprSearch(e, doc2)
		if r := genericChecks(c2, before2, doc2, b2, true); r != nil {
			return *r
		}
		if !sameOutcome(c.out, c2.out) && !admits(adm, c2.out) {
			return fail("differs", c2.out, "Expression.Search gave "+c2.out.show()+" but Search gave "+c.out.show())
		}
		// ... and stays the same function however it was used in between (C06,
		// C18): evaluate it on a perturbed document (every leaf changed, one
		// more member in every object), then on the original again; neither
		// the earlier result nor the outcome may change
		if r := reuseCheck(e, doc, b.carriers, adm, c2); r != nil {
			return *r
		}
		if sharedGoroutines > 0 {
			if r := sharedCheck(expr, doc, b.carriers, adm); r != nil {
				return *r
			}
		}
	}
	res.GotS = c.out.show()
	// determinism (C15): repeated evaluation on independently rebuilt documents
	// (fresh maps) with a fresh compilation gives the same outcome, up to the
	// order of arrays the specification marks as unordered
	for rep := 1; rep < repeatCount; rep++ {
		br := &builder{carriers: b.carriers}
		dr := br.build(doc)
		cr := doSearch(expr, dr)
		if cr.panicked {
			r := fail("panic", cr.out, cr.stack)
			r.Site = cr.site
			return r
		}
		if !sameUpTo(adm, c.out, cr.out) {
			r := fail("nondeterministic", cr.out, fmt.Sprintf("evaluation %d gave %s, the first gave %s", rep+1, cr.out.show(), c.out.show()))
			r.Pinned = res.Pinned
			return r
		}
	}
	return res
}

var repeatCount = func() int {
	n, _ := strconv.Atoi(os.Getenv("VERIF_REPEAT"))
	return n
}()

// sameUpTo: two outcomes of the same case agree as far as the specification
// demands: both errors (which fault is reported may vary when several are
// present), or equal values; arrays the admissible value marks unordered are
// compared as multisets; for an Open case every array is.
func sameUpTo(adm []*TV, a, b *TV) bool {
	if a.T == "err" || b.T == "err" {
		return a.T == b.T
	}
	for _, x := range adm {
		if x.T != "err" && x.T != "any" && x.T != "range" && eqU(x, a) {
			return eqU(x, b)
		}
	}
	for _, x := range adm {
		if x.T == "any" {
			// not pinned by the specification -- this includes every
			// order-sensitive use of an unordered array (e.g. values(@)[0]),
			// whose variation the property permits: nothing is demanded
			return true
		}
	}
	return eqU(allUnordered(a), b)
}

func allUnordered(v *TV) *TV {
	switch v.T {
	case "arr":
		out := &TV{T: "arr", U: true, A: make([]*TV, len(v.A))}
		for i, x := range v.A {
			out.A[i] = allUnordered(x)
		}
		return out
	case "obj":
		out := &TV{T: "obj", O: make([]Mem, len(v.O))}
		for i, m := range v.O {
			out.O[i] = Mem{m.K, allUnordered(m.V)}
		}
		return out
	}
	return v
}

// static outcome: adm is a list of {"ok":true} / {"ok":false,"cs":[...]}
func runCompileCase(m map[string]any) Result {
	expr, err := cpsToString(m["expr"])
	if err != nil {
		return Result{Class: "harness", Detail: err.Error()}
	}
	sadm, _ := m["sadm"].([]any)
	e, c := doCompile(expr)
	if c.panicked {
		r := fail("panic", c.out, c.stack)
		r.Site = c.site
		return r
	}
	if c.contract != "" {
		return fail("contract", c.out, c.contract)
	}
	okAdm := false
	classes := map[string]bool{}
	for _, a := range sadm {
		am, _ := a.(map[string]any)
		if ok, _ := am["ok"].(bool); ok {
			okAdm = true
		} else {
			cs, _ := am["cs"].([]any)
			for _, x := range cs {
				s, _ := x.(string)
				classes[s] = true
			}
		}
	}
	pin := len(sadm) == 1 && (okAdm || len(classes) == 1)
	if e != nil {
		if !okAdm {
			r := fail("accepts", &TV{T: "str", S: "compiled"}, "Compile accepted a text outside the grammar")
			r.Pinned = pin
			return r
		}
	} else {
		if len(classes) == 0 {
			r := fail("rejects", c.out, "Compile rejected a text of the grammar: "+c.errText)
			r.Pinned = pin
			return r
		}
		for _, cl := range c.out.CS {
			if !classes[cl] {
				r := fail("mismatch", c.out, "Compile failed with a category that is not present")
				r.Pinned = pin
				return r
			}
		}
		// MustCompile panics exactly when Compile fails
	}
	mp := mustCompilePanics(expr)
	if mp != (e == nil) {
		return fail("differs", c.out, fmt.Sprintf("MustCompile panicked=%v but Compile failed=%v", mp, e == nil))
	}
	return Result{OK: true, Pinned: pin, GotS: c.out.show()}
}

func mustCompilePanics(expr string) (p bool) {
	defer func() {
		if r := recover(); r != nil {
			p = true
		}
	}()
	jmespath.MustCompile(expr)
	return false
}

// two expressions that must agree on a document (identities, C17 / C10 / C18)
func runPair(m map[string]any) Result {
	lhs, err := cpsToString(m["expr"])
	if err != nil {
		return Result{Class: "harness", Detail: err.Error()}
	}
	rhs, err := cpsToString(m["expr2"])
	if err != nil {
		return Result{Class: "harness", Detail: err.Error()}
	}
	doc, err := fromJSON(m["doc"])
	if err != nil {
		return Result{Class: "harness", Detail: err.Error()}
	}
	adm, err := decodeAdm(m["adm"])
	if err != nil {
		return Result{Class: "harness", Detail: err.Error()}
	}
	carriers := decodeCarriers(m["carriers"])
	strict, _ := m["strict"].(bool)
	b1 := &builder{carriers: carriers}
	d1 := b1.build(doc)
	if b1.bad {
		return Result{OK: true, Class: "skip-carrier", Pinned: false}
	}
	c1 := doSearch(lhs, d1)
	if r := genericChecks(c1, doc, d1, b1, true); r != nil {
		return *r
	}
	b2 := &builder{carriers: carriers}
	d2 := b2.build(doc)
	c2 := doSearch(rhs, d2)
	if r := genericChecks(c2, doc, d2, b2, true); r != nil {
		r.Detail = "(second expression) " + r.Detail
		return *r
	}
	pin := pinned(adm)
	if !admits(adm, c1.out) {
		r := fail("mismatch", c1.out, "first expression: outcome outside the admissible set")
		r.Pinned = pin
		return r
	}
	if !admits(adm, c2.out) {
		r := fail("mismatch", c2.out, "second expression: outcome outside the admissible set")
		r.Pinned = pin
		return r
	}
	if pin && !sameOutcome(c1.out, c2.out) {
		// both admissible and pinned, so they are equal up to unordered arrays
		u := false
		for _, a := range adm {
			if a.T != "err" && a.T != "any" && eqU(a, c1.out) && eqU(a, c2.out) {
				u = true
			}
		}
		if !u && c1.out.T != "err" {
			r := fail("differs", c2.out, "the two expressions disagree: "+c1.out.show()+" vs "+c2.out.show())
			r.Pinned = pin
			return r
		}
	}
	if m["expr3"] != nil {
		// a third text for the same computation (e.g. sequenced by let)
		third, err := cpsToString(m["expr3"])
		if err != nil {
			return Result{Class: "harness", Detail: err.Error()}
		}
		b3 := &builder{carriers: carriers}
		d3 := b3.build(doc)
		c3 := doSearch(third, d3)
		if r := genericChecks(c3, doc, d3, b3, true); r != nil {
			r.Detail = "(third expression) " + r.Detail
			return *r
		}
		if !admits(adm, c3.out) {
			r := fail("mismatch", c3.out, "third expression: outcome outside the admissible set")
			r.Pinned = pin
			return r
		}
		if strict && !sameOutcome(c1.out, c3.out) && !(pin && c1.out.T != "err" && eqU(c1.out, c3.out)) {
			return fail("differs", c3.out, "the first and the third expression disagree: "+c1.out.show()+" vs "+c3.out.show()+"  ("+third+")")
		}
	}
	if strict && !pin && !sameOutcome(c1.out, c2.out) {
		// the value is outside what the model pins, but the two texts denote
		// the same expression: they must agree
		return fail("differs", c2.out, "the two expressions disagree: "+c1.out.show()+" vs "+c2.out.show())
	}
	return Result{OK: true, Pinned: pin || strict, GotS: c1.out.show()}
}

// perturb returns a document of the same shape with every leaf changed and an
// extra member in every object.
func perturb(v *TV) *TV {
	switch v.T {
	case "bool":
		return &TV{T: "bool", B: !v.B}
	case "num":
		return &TV{T: "num", N: new(big.Int).Add(v.N, big.NewInt(1)), E: v.E}
	case "str":
		return &TV{T: "str", S: v.S + "~"}
	case "arr":
		out := &TV{T: "arr", A: make([]*TV, len(v.A))}
		for i, x := range v.A {
			out.A[i] = perturb(x)
		}
		return out
	case "obj":
		out := &TV{T: "obj", O: make([]Mem, 0, len(v.O)+1)}
		seen := false
		for _, m := range v.O {
			out.O = append(out.O, Mem{m.K, perturb(m.V)})
			seen = seen || m.K == "zz~"
		}
		if !seen {
			out.O = append(out.O, Mem{"zz~", &TV{T: "num", N: big.NewInt(0)}})
		}
		return out
	}
	return v
}

func reuseCheck(e *jmespath.Expression, doc *TV, carriers []string, adm []*TV, first call) *Result {
	var snap *TV
	if first.out.T != "err" {
		snap = fromGo(first.raw)
	}
	ba := &builder{}
	if ca := doExprSearch(e, ba.build(perturb(doc))); ca.panicked {
		r := fail("panic", ca.out, "on a perturbed copy of the document: "+ca.stack)
		r.Site = ca.site
		return &r
	}
	if snap != nil {
		if after := fromGo(first.raw); !strictEq(snap, after) {
			r := fail("mutation", after, "the result of an earlier Expression.Search changed when the expression was used on another document: was "+snap.show()+" now "+after.show())
			return &r
		}
	}
	bb := &builder{carriers: carriers}
	cb := doExprSearch(e, bb.build(doc))
	if cb.panicked {
		r := fail("panic", cb.out, cb.stack)
		r.Site = cb.site
		return &r
	}
	if !sameUpTo(adm, first.out, cb.out) {
		r := fail("differs", cb.out, "a compiled expression changed its outcome after being used on another document: first "+first.out.show()+", afterwards "+cb.out.show())
		return &r
	}
	return nil
}

// VERIF_SHARED=n (property C07): a freshly compiled expression -- never
// evaluated before -- is searched by n goroutines released together, on one
// shared document; every outcome must be admissible and the document
// unchanged.  Run in a -race build, where unsynchronised state reachable from
// the shared Expression (lazily filled caches, scratch buffers) is reported.
var sharedGoroutines = func() int {
	n, _ := strconv.Atoi(os.Getenv("VERIF_SHARED"))
	return n
}()

func sharedCheck(expr string, doc *TV, carriers []string, adm []*TV) *Result {
	e, cc := doCompile(expr)
	if e == nil || cc.panicked {
		return nil
	}
	bs := &builder{carriers: carriers}
	shared := bs.build(doc)
	outs := make([][2]call, sharedGoroutines)
	start := make(chan struct{})
	var wg sync.WaitGroup
	for g := 0; g < sharedGoroutines; g++ {
		wg.Add(1)
		go func(g int) {
			defer wg.Done()
			<-start
			outs[g][0] = doExprSearch(e, shared)
			outs[g][1] = doExprSearch(e, shared)
		}(g)
	}
	close(start)
	wg.Wait()
	for g := range outs {
		for k := 0; k < 2; k++ {
			c := outs[g][k]
			if c.panicked {
				r := fail("panic", c.out, fmt.Sprintf("goroutine %d of %d sharing one compiled expression: %s", g+1, sharedGoroutines, c.stack))
				r.Site = c.site
				return &r
			}
			if !admits(adm, c.out) {
				r := fail("mismatch", c.out, fmt.Sprintf("goroutine %d of %d sharing one compiled expression and one document: outcome outside the admissible set", g+1, sharedGoroutines))
				return &r
			}
		}
	}
	if after := fromGo(shared); !strictEq(doc, after) || !bs.spareIntact() {
		r := fail("mutation", after, "the shared document changed during concurrent searches")
		return &r
	}
	return nil
}

// runCarrierSets: one expression, one document, several assignments of Go
// types to its numbers (C14).  Assignments that cannot hold a value exactly are
// left out; all others must give the same outcome, whatever it is.
func runCarrierSets(expr string, doc *TV, adm []*TV, sets []any) Result {
	var first *TV
	firstKind := ""
	ran := 0
	for _, s := range sets {
		cs := decodeCarriers(s)
		b := &builder{carriers: cs}
		docGo := b.build(doc)
		if b.bad {
			continue
		}
		c := doSearch(expr, docGo)
		if r := genericChecks(c, doc, docGo, b, true); r != nil {
			r.Detail = fmt.Sprintf("carriers %v: %s", cs, r.Detail)
			return *r
		}
		if !admits(adm, c.out) {
			return fail("mismatch", c.out, fmt.Sprintf("carriers %v: outcome outside the admissible set", cs))
		}
		ran++
		if first == nil {
			first, firstKind = c.out, fmt.Sprint(cs)
			continue
		}
		if !sameOutcome(first, c.out) {
			return fail("differs", c.out, fmt.Sprintf("the outcome depends on the Go type that carries the number: %s gives %s, %v gives %s", firstKind, first.show(), cs, c.out.show()))
		}
	}
	if ran < 2 {
		return Result{OK: true, Class: "skip-carrier"}
	}
	return Result{OK: true, Pinned: true, GotS: fmt.Sprintf("%s under %d carrier sets", first.show(), ran)}
}

// baselineOf: what the document must still look like after a call.  Normally
// the case's own document; with an inexact float carrier ("floatany") the Go
// value is only the nearest float to the number written in the case, so the
// document is compared with itself as it was before the call.
func baselineOf(doc *TV, b *builder, docGo any) *TV {
	for _, k := range b.carriers {
		if k == "floatany" {
			return fromGo(docGo)
		}
	}
	return doc
}
