package main

// hist: replay of one history of spec/API.tla into the real API (C06, C18,
// C08).  Before every call deep snapshots exist of every document the caller
// holds (pool documents are built with spare slice capacity filled with a
// sentinel) and of every earlier result; after the call all of them must be
// unchanged.  Expression.Search outcomes are compared with the specification
// and with a fresh one-shot Search on a fresh copy of the document.

import (
	"fmt"

	"github.com/woodsbury/jmespath"
)

func init() { extraKinds["hist"] = runHist }

type histResult struct {
	goVal any
	snap  *TV
}

func strictEq(a, b *TV) bool {
	x, y := stripU(a), stripU(b)
	return eqU(x, y)
}

func stripU(v *TV) *TV {
	switch v.T {
	case "arr":
		out := &TV{T: "arr", A: make([]*TV, len(v.A))}
		for i, x := range v.A {
			out.A[i] = stripU(x)
		}
		return out
	case "obj":
		out := &TV{T: "obj", O: make([]Mem, len(v.O))}
		for i, m := range v.O {
			out.O[i] = Mem{m.K, stripU(m.V)}
		}
		return out
	}
	return v
}

func runHist(m map[string]any) Result {
	poolName, _ := m["pool"].(string)
	pool, err := loadPool(poolDir, poolName)
	if err != nil {
		return Result{Class: "harness", Detail: err.Error()}
	}
	textsAny, _ := m["texts"].([]any)
	texts := make([]string, len(textsAny))
	for i, t := range textsAny {
		texts[i], err = cpsToString(t)
		if err != nil {
			return Result{Class: "harness", Detail: err.Error()}
		}
	}
	var docsTV []*TV
	var docsGo []any
	var builders []*builder
	if n, ok := m["npool"].(interface{ Int64() (int64, error) }); ok {
		if v, _ := n.Int64(); int(v) < len(pool) {
			pool = pool[:v]
		}
	}
	for _, d := range pool {
		tv, err := fromJSON(d)
		if err != nil {
			return Result{Class: "harness", Detail: err.Error()}
		}
		b := &builder{}
		docsTV = append(docsTV, tv)
		docsGo = append(docsGo, b.build(tv))
		builders = append(builders, b)
	}
	var handles []*jmespath.Expression
	results := map[int]histResult{}
	steps, _ := m["steps"].([]any)
	pin := true
	num := func(sm map[string]any, k string) int {
		n, _ := sm[k].(interface{ Int64() (int64, error) })
		if n == nil {
			return 0
		}
		v, _ := n.Int64()
		return int(v)
	}
	checkUnchanged := func(stepNo int, what string) *Result {
		for i := range docsGo {
			after := fromGo(docsGo[i])
			if !strictEq(docsTV[i], after) {
				r := fail("mutation", after, fmt.Sprintf("step %d (%s): document %d changed: before %s after %s", stepNo, what, i+1, docsTV[i].show(), after.show()))
				return &r
			}
		}
		for _, b := range builders {
			if !b.spareIntact() {
				r := fail("mutation", nil, fmt.Sprintf("step %d (%s): the spare capacity of a caller's slice was written", stepNo, what))
				return &r
			}
		}
		for j, res := range results {
			after := fromGo(res.goVal)
			if !strictEq(res.snap, after) {
				r := fail("mutation", after, fmt.Sprintf("step %d (%s): the result of step %d changed afterwards: was %s now %s", stepNo, what, j, res.snap.show(), after.show()))
				return &r
			}
		}
		return nil
	}
	for si, s := range steps {
		sm, _ := s.(map[string]any)
		op := getString(sm, "op")
		t := num(sm, "t")
		stepNo := si + 1
		switch op {
		case "compile", "mustcompile":
			cm := map[string]any{"sadm": sm["sadm"]}
			cps := stringToCps(texts[t-1])
			arr := make([]any, len(cps))
			for i, c := range cps {
				arr[i] = jsonInt(c)
			}
			cm["expr"] = arr
			r := runCompileCase(cm) // includes MustCompile panics iff Compile fails
			if !r.OK {
				r.Detail = fmt.Sprintf("step %d (%s %q): %s", stepNo, op, texts[t-1], r.Detail)
				return r
			}
			pin = pin && r.Pinned
			if op == "compile" {
				if e, c := doCompile(texts[t-1]); e != nil && !c.panicked {
					handles = append(handles, e)
				}
			}
		case "search", "exprsearch":
			d := num(sm, "d")
			adm, err := decodeAdm(sm["adm"])
			if err != nil {
				return Result{Class: "harness", Detail: err.Error()}
			}
			pin = pin && pinned(adm)
			var c call
			what := fmt.Sprintf("%s %q on document %d", op, texts[t-1], d)
			if op == "search" {
				c = doSearch(texts[t-1], docsGo[d-1])
			} else {
				h := num(sm, "h")
				if h < 1 || h > len(handles) {
					return Result{Class: "harness", Detail: fmt.Sprintf("step %d: no handle %d (have %d)", stepNo, h, len(handles))}
				}
				c = doExprSearch(handles[h-1], docsGo[d-1])
			}
			if r := genericChecks(c, nil, nil, nil, true); r != nil {
				r.Detail = fmt.Sprintf("step %d (%s): %s", stepNo, what, r.Detail)
				return *r
			}
			if !admits(adm, c.out) {
				return fail("mismatch", c.out, fmt.Sprintf("step %d (%s): outcome outside the admissible set", stepNo, what))
			}
			if op == "exprsearch" {
				// same outcome as a fresh one-shot search on a fresh copy of the document
				fb := &builder{}
				fresh := doSearch(texts[t-1], fb.build(docsTV[d-1]))
				if !sameOutcome(fresh.out, c.out) && pinned(adm) {
					return fail("differs", c.out, fmt.Sprintf("step %d (%s): compiled expression gave %s, a fresh Search gives %s", stepNo, what, c.out.show(), fresh.out.show()))
				}
			}
			if c.out.T != "err" {
				results[stepNo] = histResult{c.raw, fromGo(c.raw)}
			}
			if r := checkUnchanged(stepNo, what); r != nil {
				return *r
			}
		case "feedback":
			cno := num(sm, "d")
			res, ok := results[cno]
			if !ok {
				return Result{Class: "harness", Detail: fmt.Sprintf("step %d: feedback of step %d which has no result", stepNo, cno)}
			}
			// the Go value itself, not a copy: what a caller would do
			docsGo = append(docsGo, res.goVal)
			docsTV = append(docsTV, res.snap)
		default:
			return Result{Class: "harness", Detail: "hist: unknown op " + op}
		}
	}
	return Result{OK: true, Pinned: pin, GotS: fmt.Sprintf("%d steps", len(steps))}
}
