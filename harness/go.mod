module verif/harness

go 1.24.0

require (
	github.com/woodsbury/decimal128 v1.4.0
	github.com/woodsbury/jmespath v0.0.0
)

replace github.com/woodsbury/jmespath => /repo
