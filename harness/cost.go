package main

// cost / scale: property C09 -- measured on the real code, with inputs and
// expected outcomes from spec/GenCost.tla.
//
// cost:  an expression with an integer parameter at a 64-bit magnitude and
//        its twin with 1000 in the same place.  Both must produce the
//        specified outcome; the big one must take the same number of
//        evaluator steps and time / allocation within a generous factor of
//        the twin (the magnitude alone must not drive cost).
// scale: a nesting family; the harness builds the text for depth n and 2n
//        for n = 64 .. 8192, requires the specified outcome (for families
//        whose meaning does not depend on the depth) and at most roughly
//        quadratic growth of time; one deep instance (VERIF_DEEP, default
//        100000) must simply return.
// A hang is caught by the parent's per-case budget.

import (
	"encoding/json"
	"fmt"
	"os"
	"runtime"
	"strconv"
	"strings"
	"time"
)

func init() {
	extraKinds["cost"] = runCost
	extraKinds["scale"] = runScale
	extraKinds["docscale"] = runDocScale
	extraKinds["count"] = runCount
	extraKinds["expgrowth"] = runExpGrowth
}

// runExpGrowth: a family pre^d core post^d whose value does not depend on d
// (checked by the specification for small d).  Polynomial cost means that two
// more levels cost a little more; exponential cost means they cost a multiple.
// Measured at d = 12, 14, 16, 18 (minimum of 3 runs each): a violation when
// every step multiplies the time by 3 or more and the last one is measurable.
func runExpGrowth(m map[string]any) Result {
	pre, _ := cpsToString(m["pre"])
	core, _ := cpsToString(m["core"])
	post, _ := cpsToString(m["post"])
	family := getString(m, "family")
	doc, err := fromJSON(m["doc"])
	if err != nil {
		return Result{Class: "harness", Detail: err.Error()}
	}
	adm, err := decodeAdm(m["adm"])
	if err != nil {
		return Result{Class: "harness", Detail: err.Error()}
	}
	var times []time.Duration
	for _, d := range []int{12, 14, 16, 18} {
		text := strings.Repeat(pre, d) + core + strings.Repeat(post, d)
		x := measureSearch(text, doc, 3)
		if x.c.panicked {
			r := fail("panic", x.c.out, fmt.Sprintf("family %s depth %d: %s", family, d, firstLines(x.c.stack, 12)))
			r.Site = x.c.site
			return r
		}
		if !admits(adm, x.c.out) {
			return fail("mismatch", x.c.out, fmt.Sprintf("family %s depth %d: outcome outside the admissible set", family, d))
		}
		times = append(times, x.dur)
	}
	exp := times[3] > 5*time.Millisecond
	for i := 1; i < len(times); i++ {
		if times[i] < 3*times[i-1] {
			exp = false
		}
	}
	if exp {
		r := fail("cost", nil, fmt.Sprintf("family %s: every two further levels multiply the time (%v, %v, %v, %v at depths 12, 14, 16, 18) while expression, document and result stay small", family, times[0], times[1], times[2], times[3]))
		r.GotS = "exponential"
		return r
	}
	return Result{OK: true, Pinned: true, GotS: fmt.Sprintf("%s: %v", family, times)}
}

// runCount: a family whose value is its repetition count, at the boundaries
// of 8- and 16-bit counters (expected values come from the specification).
func runCount(m map[string]any) Result {
	head, _ := cpsToString(m["head"])
	rep, _ := cpsToString(m["rep"])
	tail, _ := cpsToString(m["tail"])
	family := getString(m, "family")
	doc, err := fromJSON(m["doc"])
	if err != nil {
		return Result{Class: "harness", Detail: err.Error()}
	}
	counts, _ := m["counts"].([]any)
	for _, c := range counts {
		cm, _ := c.(map[string]any)
		n := 0
		if v, ok := cm["n"].(interface{ Int64() (int64, error) }); ok {
			x, _ := v.Int64()
			n = int(x)
		}
		adm, err := decodeAdm(cm["adm"])
		if err != nil {
			return Result{Class: "harness", Detail: err.Error()}
		}
		text := head + strings.Repeat(rep, n) + tail
		b := &builder{}
		r := doSearch(text, b.build(doc))
		if r.panicked {
			res := fail("panic", r.out, fmt.Sprintf("family %s, %d repetitions: %s", family, n, firstLines(r.stack, 12)))
			res.Site = r.site
			return res
		}
		if !admits(adm, r.out) {
			return fail("mismatch", r.out, fmt.Sprintf("family %s with %d repetitions (%s%s...%s): outcome outside the admissible set, expected %s", family, n, head, rep, tail, adm[0].show()))
		}
	}
	return Result{OK: true, Pinned: true, GotS: fmt.Sprintf("%s: %d counts", family, len(counts))}
}

// nestDoc builds [[[ ... 1 ... ]]] with d levels, iteratively.
func nestDoc(d int) any {
	var v any = json.Number("1")
	for i := 0; i < d; i++ {
		v = []any{v}
	}
	return v
}

// nestPairDoc: spec/GenCost.tla PairDoc -- the same number under d levels of arrays (a, b, c) and of objects
// (o, p), spelled and carried differently in each member
func nestPairDoc(d int) any {
	arr := func(leaf any) any {
		v := leaf
		for i := 0; i < d; i++ {
			v = []any{v}
		}
		return v
	}
	obj := func(leaf any) any {
		v := leaf
		for i := 0; i < d; i++ {
			v = map[string]any{"k": v}
		}
		return v
	}
	return map[string]any{"a": arr(json.Number("1")), "b": arr(json.Number("1.0")), "c": arr(float64(1)),
		"o": obj(json.Number("1")), "p": obj(json.Number("1e0"))}
}

// runDocScale: a scalar-valued expression on documents nested 64..8192 levels
// (at most ~quadratic growth, the specified outcome), and once at VERIF_DEEP.
func runDocScale(m map[string]any) Result {
	expr, err := cpsToString(m["expr"])
	if err != nil {
		return Result{Class: "harness", Detail: err.Error()}
	}
	adm, err := decodeAdm(m["adm"])
	if err != nil {
		return Result{Class: "harness", Detail: err.Error()}
	}
	variant := getString(m, "variant")
	run := func(d int) (call, time.Duration) {
		doc := nestDoc(d)
		if variant == "pair" {
			doc = nestPairDoc(d)
		}
		t0 := time.Now()
		c := doSearch(expr, doc)
		return c, time.Since(t0)
	}
	var prev time.Duration
	for n := 64; n <= 8192; n *= 2 {
		c, dur := run(n)
		if c.panicked {
			r := fail("panic", c.out, fmt.Sprintf("document depth %d: %s", n, firstLines(c.stack, 12)))
			r.Site = c.site
			return r
		}
		if !admits(adm, c.out) {
			return fail("mismatch", c.out, fmt.Sprintf("document depth %d: outcome outside the admissible set", n))
		}
		if dur > 2*time.Second || (prev > 2*time.Millisecond && dur > 8*prev) {
			// measure again (minimum of 5) before calling it growth
			best := dur
			for i := 0; i < 5; i++ {
				if _, d2 := run(n); d2 < best {
					best = d2
				}
			}
			lo := prev
			for i := 0; i < 5; i++ {
				if _, d2 := run(n / 2); d2 < lo {
					lo = d2
				}
			}
			if best > 2*time.Second || (lo > 2*time.Millisecond && best > 8*lo) {
				return fail("cost", c.out, fmt.Sprintf("document depth %d took %v (depth %d: %v; minima of 6 runs)", n, best, n/2, lo))
			}
			dur = best
		}
		prev = dur
	}
	deep := 100000
	if v, err := strconv.Atoi(os.Getenv("VERIF_DEEP")); err == nil && v > 0 {
		deep = v
	}
	c, dur := run(deep)
	if c.panicked {
		r := fail("panic", c.out, fmt.Sprintf("document depth %d: %s", deep, firstLines(c.stack, 12)))
		r.Site = c.site
		return r
	}
	if !admits(adm, c.out) {
		return fail("mismatch", c.out, fmt.Sprintf("document depth %d: outcome outside the admissible set", deep))
	}
	return Result{OK: true, Pinned: pinned(adm), GotS: fmt.Sprintf("depth %d in %v", deep, dur)}
}

type measure struct {
	c     call
	dur   time.Duration
	alloc uint64
	steps int64
}

func measureSearch(expr string, doc *TV, runs int) measure {
	var best measure
	for i := 0; i < runs; i++ {
		b := &builder{}
		d := b.build(doc)
		var ms0, ms1 runtime.MemStats
		runtime.ReadMemStats(&ms0)
		var c call
		t0 := time.Now()
		steps := countSteps(func() { c = doSearch(expr, d) })
		dur := time.Since(t0)
		runtime.ReadMemStats(&ms1)
		m := measure{c, dur, ms1.TotalAlloc - ms0.TotalAlloc, steps}
		if i == 0 || m.dur < best.dur {
			best.dur = m.dur
		}
		if i == 0 || m.alloc < best.alloc {
			best.alloc = m.alloc
		}
		best.c, best.steps = c, steps
	}
	return best
}

func runCost(m map[string]any) Result {
	big, err := cpsToString(m["expr"])
	if err != nil {
		return Result{Class: "harness", Detail: err.Error()}
	}
	small, _ := cpsToString(m["expr2"])
	doc, err := fromJSON(m["doc"])
	if err != nil {
		return Result{Class: "harness", Detail: err.Error()}
	}
	adm, err := decodeAdm(m["adm"])
	if err != nil {
		return Result{Class: "harness", Detail: err.Error()}
	}
	adm2, err := decodeAdm(m["adm2"])
	if err != nil {
		return Result{Class: "harness", Detail: err.Error()}
	}
	ms := measureSearch(small, doc, 3)
	mb := measureSearch(big, doc, 3)
	for _, x := range []measure{ms, mb} {
		if x.c.panicked {
			r := fail("panic", x.c.out, x.c.stack)
			r.Site = x.c.site
			return r
		}
	}
	pin := pinned(adm2)
	if !admits(adm2, ms.c.out) {
		r := fail("mismatch", ms.c.out, "twin (magnitude 1000): outcome outside the admissible set: "+small)
		r.Pinned = pin
		return r
	}
	if !admits(adm, mb.c.out) {
		r := fail("mismatch", mb.c.out, "outcome outside the admissible set")
		r.Pinned = pin
		return r
	}
	if pin && !sameOutcome(ms.c.out, mb.c.out) {
		r := fail("differs", mb.c.out, fmt.Sprintf("the magnitude changes the outcome: %s gives %s, its twin %s gives %s", big, mb.c.out.show(), small, ms.c.out.show()))
		r.Pinned = pin
		return r
	}
	if mb.steps != ms.steps {
		r := fail("cost", mb.c.out, fmt.Sprintf("evaluator steps depend on the magnitude: %d vs %d for the twin", mb.steps, ms.steps))
		r.Pinned = pin
		return r
	}
	if mb.dur > 50*ms.dur+20*time.Millisecond {
		r := fail("cost", mb.c.out, fmt.Sprintf("time depends on the magnitude: %v vs %v for the twin", mb.dur, ms.dur))
		r.Pinned = pin
		return r
	}
	if mb.alloc > 8*ms.alloc+(1<<20) {
		r := fail("cost", mb.c.out, fmt.Sprintf("allocation depends on the magnitude: %d bytes vs %d for the twin", mb.alloc, ms.alloc))
		r.Pinned = pin
		return r
	}
	return Result{OK: true, Pinned: pin, GotS: mb.c.out.show(), Steps: mb.steps}
}

func runScale(m map[string]any) Result {
	pre, _ := cpsToString(m["pre"])
	core, _ := cpsToString(m["core"])
	post, _ := cpsToString(m["post"])
	family := getString(m, "family")
	stable, _ := m["stable"].(bool)
	doc, err := fromJSON(m["doc"])
	if err != nil {
		return Result{Class: "harness", Detail: err.Error()}
	}
	adm, err := decodeAdm(m["adm"])
	if err != nil {
		return Result{Class: "harness", Detail: err.Error()}
	}
	head, _ := cpsToString(m["head"])
	tail, _ := cpsToString(m["tail"])
	if m["head"] == nil {
		head = ""
	}
	if m["tail"] == nil {
		tail = ""
	}
	text := func(n int) string { return head + strings.Repeat(pre, n) + core + strings.Repeat(post, n) + tail }
	var prev time.Duration
	for n := 64; n <= 8192; n *= 2 {
		x := measureSearch(text(n), doc, 2)
		if x.c.panicked {
			r := fail("panic", x.c.out, fmt.Sprintf("family %s depth %d: %s", family, n, x.c.stack))
			r.Site = x.c.site
			return r
		}
		if stable && !admits(adm, x.c.out) {
			return fail("mismatch", x.c.out, fmt.Sprintf("family %s depth %d: outcome outside the admissible set", family, n))
		}
		if x.dur > 2*time.Second {
			return fail("cost", x.c.out, fmt.Sprintf("family %s depth %d took %v", family, n, x.dur))
		}
		if prev > 2*time.Millisecond && x.dur > 8*prev {
			// doubling the depth cost more than 8x: measure both depths again, several
			// times, and keep the minima -- a collector pause or a busy machine must
			// not look like super-quadratic growth
			lo := measureSearch(text(n/2), doc, 5).dur
			hi := measureSearch(text(n), doc, 5).dur
			if hi < x.dur {
				x.dur = hi
			}
			if lo > 2*time.Millisecond && hi > 8*lo {
				return fail("cost", x.c.out, fmt.Sprintf("family %s: depth %d took %v, depth %d took %v (more than quadratic growth, minima of 5 runs)", family, n, hi, n/2, lo))
			}
		}
		prev = x.dur
	}
	if flat, _ := m["flat"].(bool); flat {
		// the syntactic nesting of this family does not grow with n: a text of
		// 300000 repetitions (~2 MB) must still compile
		if e, c := doCompile(text(300000)); c.panicked {
			r := fail("panic", c.out, fmt.Sprintf("family %s, 300000 repetitions: %s", family, firstLines(c.stack, 12)))
			r.Site = c.site
			return r
		} else if e == nil && stable {
			return fail("rejects", c.out, fmt.Sprintf("family %s: a text of 300000 flat repetitions was rejected: %s", family, c.errText))
		}
	}
	deep := 100000
	if v, err := strconv.Atoi(os.Getenv("VERIF_DEEP")); err == nil && v > 0 {
		deep = v
	}
	x := measureSearch(text(deep), doc, 1)
	if x.c.panicked {
		r := fail("panic", x.c.out, fmt.Sprintf("family %s depth %d: %s", family, deep, firstLines(x.c.stack, 12)))
		r.Site = x.c.site
		return r
	}
	if x.c.contract != "" {
		return fail("contract", x.c.out, x.c.contract)
	}
	return Result{OK: true, Pinned: stable && pinned(adm), GotS: fmt.Sprintf("%s: depth %d in %v", family, deep, x.dur)}
}
