package main

// acceptset: property C04.  TLC (spec/GenChars.tla) enumerates every
// concatenation of at most k lexemes of an alphabet and prints only the texts
// whose admissible static outcome is NOT the plain {syntax error}.  This
// command reads those, enumerates the same alphabet itself and compiles every
// text with the real library: texts TLC did not print must be rejected as
// syntax errors, printed ones must behave as their admissible set says.

import (
	"bufio"
	"bytes"
	"encoding/json"
	"flag"
	"fmt"
	"os"
	"strconv"
	"sync"
	"time"
)

func init() { commands["acceptset"] = acceptsetMain }

func acceptsetMain(args []string) {
	fs := flag.NewFlagSet("acceptset", flag.ExitOnError)
	outPath := fs.String("out", "", "summary file")
	logPath := fs.String("log", "", "file receiving TLC's own output")
	alphFile := fs.String("alphabets", "/verif/spec/pools/Alphabets.alph", "alphabets file")
	alphName := fs.String("alpha", "Structural", "alphabet name")
	maxLen := fs.Int("maxlen", 4, "number of lexemes")
	prop := fs.String("prop", "C04", "property id")
	fs.Parse(args)
	start := time.Now()

	data, err := os.ReadFile(*alphFile)
	if err != nil {
		fmt.Fprintln(os.Stderr, err)
		os.Exit(2)
	}
	var alphs map[string][][]int
	if err := json.Unmarshal(data, &alphs); err != nil {
		fmt.Fprintln(os.Stderr, err)
		os.Exit(2)
	}
	syms, ok := alphs[*alphName]
	if !ok {
		fmt.Fprintln(os.Stderr, "no alphabet", *alphName)
		os.Exit(2)
	}
	lex := make([]string, len(syms))
	for i, cps := range syms {
		arr := make([]any, len(cps))
		for j, c := range cps {
			arr[j] = json.Number(strconv.Itoa(c))
		}
		lex[i], _ = cpsToString(arr)
	}

	// 1. what TLC says about the non-trivial texts
	special := map[string][]any{}
	var logw *bufio.Writer
	if *logPath != "" {
		f, err := os.Create(*logPath)
		if err != nil {
			fmt.Fprintln(os.Stderr, err)
			os.Exit(2)
		}
		defer f.Close()
		logw = bufio.NewWriter(f)
		defer logw.Flush()
	}
	var harnessErr []string
	in := bufio.NewReaderSize(os.Stdin, 1<<20)
	for {
		line, rerr := in.ReadBytes('\n')
		line = bytes.TrimSpace(line)
		if bytes.HasPrefix(line, []byte("\"CASE ")) {
			u, uerr := strconv.Unquote(string(line))
			if uerr != nil {
				harnessErr = append(harnessErr, "cannot unquote TLC line")
			} else if m, derr := decodeLine([]byte(u[5:])); derr != nil {
				harnessErr = append(harnessErr, derr.Error())
			} else {
				text, _ := cpsToString(m["expr"])
				sadm, _ := m["sadm"].([]any)
				special[text] = sadm
			}
		} else if logw != nil && len(line) > 0 {
			logw.Write(line)
			logw.WriteByte('\n')
		}
		if rerr != nil {
			break
		}
	}

	// 2. enumerate the same texts and compile each
	var mu sync.Mutex
	sum := summary{Classes: map[string]int64{}}
	plain := []any{map[string]any{"ok": false, "cs": []any{"syntax"}}}
	type item struct {
		prefix  []int
		recurse bool
	}
	work := make(chan item, 1024)
	var wg sync.WaitGroup
	seenText := sync.Map{}
	for w := 0; w < 16; w++ {
		wg.Add(1)
		go func() {
			defer wg.Done()
			var local summary
			local.Classes = map[string]int64{}
			for it := range work {
				prefix := it.prefix
				// all extensions of this prefix up to maxLen
				var rec func(seq []int, text string)
				rec = func(seq []int, text string) {
					if _, dup := seenText.LoadOrStore(text, true); !dup {
						sadm, isSpecial := special[text]
						if !isSpecial {
							sadm = plain
						}
						m := map[string]any{"p": *prop, "kind": "compile", "sadm": sadm}
						cps := stringToCps(text)
						arr := make([]any, len(cps))
						for i, c := range cps {
							arr[i] = json.Number(strconv.Itoa(c))
						}
						m["expr"] = arr
						r := runCompileCase(m)
						local.Cases++
						if r.Pinned {
							local.Pinned++
						}
						if r.OK {
							local.Passed++
							if isSpecial && len(local.Samples) < 1 {
								local.Samples = append(local.Samples, map[string]any{"expr": text, "got": r.GotS, "kind": "compile"})
							}
						} else {
							local.Violations++
							local.Classes[r.Class]++
							if len(local.Kept) < 40 {
								local.Kept = append(local.Kept, violation{m, r})
							}
						}
					}
					if it.recurse && len(seq) < *maxLen {
						for i := range lex {
							rec(append(seq, i), text+lex[i])
						}
					}
				}
				text := ""
				for _, i := range prefix {
					text += lex[i]
				}
				rec(prefix, text)
			}
			mu.Lock()
			sum.Cases += local.Cases
			sum.Passed += local.Passed
			sum.Pinned += local.Pinned
			sum.Violations += local.Violations
			for k, v := range local.Classes {
				sum.Classes[k] += v
			}
			sum.Kept = append(sum.Kept, local.Kept...)
			sum.Samples = append(sum.Samples, local.Samples...)
			mu.Unlock()
		}()
	}
	// texts of 0 and 1 lexemes one by one, then one subtree per 2-lexeme prefix
	work <- item{[]int{}, *maxLen < 2 && false}
	if *maxLen >= 1 {
		for i := range lex {
			work <- item{[]int{i}, *maxLen == 1}
		}
	}
	if *maxLen >= 2 {
		for i := range lex {
			for j := range lex {
				work <- item{[]int{i, j}, true}
			}
		}
	}
	close(work)
	wg.Wait()
	if len(sum.Kept) > 400 {
		sum.Kept = sum.Kept[:400]
	}
	if len(sum.Samples) > 6 {
		sum.Samples = sum.Samples[:6]
	}
	sum.Lines = int64(len(special))
	sum.HarnessErr = harnessErr
	sum.WallS = time.Since(start).Seconds()
	b, _ := json.Marshal(sum)
	if *outPath != "" {
		os.WriteFile(*outPath, b, 0o644)
	} else {
		os.Stdout.Write(b)
	}
	if len(harnessErr) > 0 {
		os.Exit(2)
	}
}

