package main

// recordapi: direction B for the API machine (spec/TraceAPI.tla).  Random
// histories of Compile / MustCompile / Search / Expression.Search / feeding a
// result back as a document are run against the real library; one event per
// public call is logged at its return (error path and panics included).
//
//	harness recordapi -out api.ndjson -n 200 -len 12 -seed 7

import (
	"bufio"
	"encoding/json"
	"flag"
	"fmt"
	"math/rand"
	"os"

	"github.com/woodsbury/jmespath"
)

func init() { commands["recordapi"] = recordAPIMain }

func recordAPIMain(args []string) {
	fs := flag.NewFlagSet("recordapi", flag.ExitOnError)
	outPath := fs.String("out", "api.ndjson", "event log")
	n := fs.Int("n", 200, "number of histories")
	length := fs.Int("len", 12, "calls per history")
	seed := fs.Int64("seed", 1, "seed")
	fs.Parse(args)
	f, err := os.Create(*outPath)
	if err != nil {
		fmt.Fprintln(os.Stderr, err)
		os.Exit(2)
	}
	defer f.Close()
	w := bufio.NewWriter(f)
	defer w.Flush()
	g := &gen{rand.New(rand.NewSource(*seed))}
	tg := &tgen{r: g.r, root: typedSchema()}
	seq := 0
	emit := func(m map[string]any) {
		seq++
		m["seq"] = seq
		b, _ := json.Marshal(m)
		w.Write(b)
		w.WriteByte('\n')
	}
	outJSON := func(c call) (any, bool) {
		if c.panicked {
			return map[string]any{"t": "err", "cs": []string{"PANIC " + c.site}}, true
		}
		if c.out.T == "err" {
			return map[string]any{"t": "err", "cs": c.out.CS}, true
		}
		if ok, _ := c.out.plainJSON(); !ok {
			return map[string]any{"t": "err", "cs": []string{"NONJSON " + c.out.T}}, true
		}
		if !smallEnough(c.out) {
			return nil, false
		}
		return c.out.toJSON(), true
	}
	texts := []string{"a", "a[*]", "sort(a)", "reverse(a)", "a[1:]", "`[3,1,2]`", "sort(`[3,1,2]`)", "a[?@]", "a | [0]", "keys(@)",
		"length(@)", "abs(a, b)", "a.", "nosuch(@)", "sort_by(a, &@)", "[a, b]", "{k: a}", "a[]", "@", "to_array(@)", "a || b", "let $v = a in [$v, $v]",
		"max(a)", "merge(@, `{\"z\":1}`)", "x[::0]", "sort_by(a, b)"}
	histories := 0
	for i := 0; i < *n; i++ {
		// documents: two random ones with an array under "a"
		var docsGo []any
		var docsJ []any
		// one history in three is typed (typed.go): documents along the schema, and a pool of six expressions
		// grown for that schema, so that one compiled expression meets several documents and other expressions'
		// results (C06, C18)
		typedHist := g.r.Intn(3) == 0
		var pool []string
		if typedHist {
			for k := 0; k < 6; k++ {
				tg.vars = tg.vars[:0]
				e, _ := tg.expr(tg.root, 1+g.r.Intn(3))
				pool = append(pool, e)
			}
		}
		for d := 0; d < 2; d++ {
			if typedHist {
				m := tg.doc()
				tv := fromGo(m)
				if !smallEnough(tv) {
					d--
					continue
				}
				docsGo = append(docsGo, m)
				docsJ = append(docsJ, tv.toJSON())
				continue
			}
			m := map[string]any{"a": g.value(2), "b": g.value(1)}
			if g.r.Intn(2) == 0 {
				arr := make([]any, 1+g.r.Intn(4))
				for k := range arr {
					arr[k] = json.Number(fmt.Sprint(g.r.Intn(9)))
				}
				m["a"] = arr
			}
			tv := fromGo(m)
			if !smallEnough(tv) {
				d--
				continue
			}
			docsGo = append(docsGo, m)
			docsJ = append(docsJ, tv.toJSON())
		}
		emit(map[string]any{"op": "reset", "docs": docsJ})
		histories++
		var handles []*jmespath.Expression
		var results []any // per emitted search event (index = position in outs)
		outsLen := 0
		for s := 0; s < *length; s++ {
			text := texts[g.r.Intn(len(texts))]
			if g.r.Intn(4) == 0 {
				text = g.expr(1 + g.r.Intn(3))
			}
			if typedHist && g.r.Intn(5) > 0 {
				text = pool[g.r.Intn(len(pool))]
			}
			switch k := g.r.Intn(10); {
			case k < 2:
				e, c := doCompile(text)
				ok := e != nil && !c.panicked
				ev := map[string]any{"op": "compile", "expr": stringToCps(text), "ok": ok, "out": map[string]any{"t": "err", "cs": c.out.CS}}
				if ok {
					ev["out"] = map[string]any{"t": "err", "cs": []string{}}
					handles = append(handles, e)
				}
				emit(ev)
				results = append(results, nil)
				outsLen++
			case k < 3:
				p := mustCompilePanics(text)
				emit(map[string]any{"op": "mustcompile", "expr": stringToCps(text), "ok": !p, "panicked": p, "out": map[string]any{"t": "err", "cs": []string{}}})
				results = append(results, nil)
				outsLen++
			case k < 6 || len(handles) == 0:
				d := g.r.Intn(len(docsGo))
				c := doSearch(text, docsGo[d])
				o, ok := outJSON(c)
				if !ok {
					continue
				}
				emit(map[string]any{"op": "search", "expr": stringToCps(text), "d": d + 1, "out": o})
				if c.out.T != "err" && !c.panicked {
					results = append(results, c.raw)
				} else {
					results = append(results, nil)
				}
				outsLen++
			case k < 9:
				h := g.r.Intn(len(handles))
				d := g.r.Intn(len(docsGo))
				c := doExprSearch(handles[h], docsGo[d])
				o, ok := outJSON(c)
				if !ok {
					continue
				}
				emit(map[string]any{"op": "exprsearch", "h": h + 1, "d": d + 1, "out": o})
				if c.out.T != "err" && !c.panicked {
					results = append(results, c.raw)
				} else {
					results = append(results, nil)
				}
				outsLen++
			default:
				// feed an earlier successful result back as a document (the Go value itself)
				var cand []int
				for i, r := range results {
					if r != nil || false {
						cand = append(cand, i)
					}
				}
				if len(cand) == 0 {
					continue
				}
				c := cand[g.r.Intn(len(cand))]
				docsGo = append(docsGo, results[c])
				emit(map[string]any{"op": "feedback", "c": c + 1, "out": map[string]any{"t": "err", "cs": []string{}}})
				results = append(results, nil)
				outsLen++
			}
		}
	}
	fmt.Printf("{\"events\":%d,\"histories\":%d}\n", seq, histories)
}
