package main

// typed: a type-directed grower of well-formed expressions for the recorder
// (mode "typed", DESIGN.md 4.2).  The general grower composes productions
// blindly, so most of its results are null or a type fault after two steps.
// This one carries a schema of the document through the expression it grows --
// the current node's intended type, the element type of a running projection,
// the types of the variables in scope -- and mostly picks productions that mean
// something there (a field that exists, a function whose signature fits, a key
// expression over the element type), while the *documents* deviate from the
// schema at random places (null, missing member, wrong type), so that the null
// / fault paths of exactly those productions are taken as well.  Every recorded
// outcome is checked by TLC against Admissible(expr, doc); nothing here is an
// oracle.

import (
	"encoding/json"
	"fmt"
	"math/rand"
	"strings"
)

type ty struct {
	k string // obj arr str num bool null any
	f map[string]*ty
	o []string // member order (deterministic generation)
	e *ty
}

var (
	tNum  = &ty{k: "num"}
	tStr  = &ty{k: "str"}
	tBool = &ty{k: "bool"}
	tNull = &ty{k: "null"}
	tAny  = &ty{k: "any"}
)

func tArr(e *ty) *ty { return &ty{k: "arr", e: e} }
func tObj(kv ...any) *ty {
	t := &ty{k: "obj", f: map[string]*ty{}}
	for i := 0; i+1 < len(kv); i += 2 {
		t.f[kv[i].(string)] = kv[i+1].(*ty)
		t.o = append(t.o, kv[i].(string))
	}
	return t
}

type tgen struct {
	r    *rand.Rand
	root *ty
	vars []tvar
}
type tvar struct {
	n string
	t *ty
}

func (g *tgen) pick(xs ...string) string { return xs[g.r.Intn(len(xs))] }
func (g *tgen) p(n int) bool             { return g.r.Intn(100) < n }

// the schema: records under x, an object of objects under o, nested arrays under m
func typedSchema() *ty {
	inner := tObj("a", tNum, "c", tArr(tNum), "k", tStr)
	rec := tObj("a", tNum, "b", inner, "k", tStr, "c", tArr(tNum), "t", tBool, "s", tStr)
	return tObj("x", tArr(rec), "a", inner, "n", tArr(tNum), "s", tStr, "k", tStr,
		"m", tArr(tArr(tNum)), "o", tObj("p", inner, "q", inner, "r", inner), "w", tArr(tStr), "é", tNum, "t", tBool)
}

// value builds a document value of the intended type, deviating now and then
func (g *tgen) value(t *ty, dev int) any {
	if g.p(dev) {
		switch g.r.Intn(6) {
		case 0, 1:
			return nil
		case 2:
			return json.Number(fmt.Sprint(g.r.Intn(4)))
		case 3:
			return g.pick("", "a", "x")
		case 4:
			return []any{}
		default:
			return g.r.Intn(2) == 0
		}
	}
	switch t.k {
	case "num":
		if g.p(25) {
			// integers are spelled canonically: the specification's numbers carry no spelling, and to_string / join
			// of json.Number("1.0") legitimately give "1.0" (DESIGN 8.22); spellings are GenNum's subject
			return json.Number(g.pick("1.5", "-2.5", "0.25", "10", "0.5", "2.25", "100"))
		}
		return json.Number(fmt.Sprint(g.r.Intn(7) - 2))
	case "str":
		return g.pick("", "a", "b", "ab", "ba", "é€", "a b", "😀a", "B", "k", "c", "a,b", "aXbXa", " a ")
	case "bool":
		return g.r.Intn(2) == 0
	case "null":
		return nil
	case "arr":
		n := g.r.Intn(5)
		if g.p(10) {
			n = 5 + g.r.Intn(10)
		}
		a := make([]any, n)
		for i := range a {
			a[i] = g.value(t.e, dev)
		}
		return a
	case "obj":
		m := map[string]any{}
		for _, k := range t.o {
			if !g.p(dev + 5) {
				m[k] = g.value(t.f[k], dev)
			}
		}
		return m
	}
	return g.value(g.anyOf(), dev)
}

func (g *tgen) anyOf() *ty {
	return []*ty{tNum, tStr, tBool, tNull, tArr(tNum), tObj("a", tNum)}[g.r.Intn(6)]
}

func (g *tgen) doc() any {
	dev := []int{0, 5, 12, 25}[g.r.Intn(4)]
	return g.value(g.root, dev)
}

func (g *tgen) lit(t *ty) string {
	switch t.k {
	case "num":
		return g.pick("`0`", "`1`", "`2`", "`-1`", "`1.5`", "`3`", "`0.5`", "`10`")
	case "str":
		return g.pick("'a'", "''", "'b'", "'é€'", "`\"ab\"`", "'k'", "','", "'X'", "' '")
	case "bool":
		return g.pick("`true`", "`false`")
	case "null":
		return "`null`"
	case "arr":
		if t.e != nil && t.e.k == "str" {
			return g.pick("`[\"b\",\"a\"]`", "`[]`", "`[\"a\"]`")
		}
		if t.e != nil && t.e.k == "arr" {
			return g.pick("`[[1,2],[3]]`", "`[[],[null,1]]`")
		}
		return g.pick("`[1,2]`", "`[]`", "`[3,1,2,1]`", "`[1,null,2]`", "`[null]`")
	case "obj":
		return g.pick("`{\"a\":1}`", "`{}`", "`{\"a\":2,\"k\":\"b\"}`")
	}
	return g.lit(g.anyOf())
}

func (g *tgen) ident(name string) string {
	for _, c := range name {
		if !(c >= 'a' && c <= 'z') {
			return "\"" + name + "\""
		}
	}
	if g.p(8) {
		return "\"" + name + "\""
	}
	return name
}

func (g *tgen) field(t *ty) (string, *ty) {
	if t.k == "obj" && len(t.o) > 0 && !g.p(10) {
		k := t.o[g.r.Intn(len(t.o))]
		return g.ident(k), t.f[k]
	}
	return g.pick("a", "b", "zz", "k", "c"), tAny
}

// want grows an expression whose intended type is k (a literal when nothing fits)
func (g *tgen) want(cur *ty, k string, depth int) string {
	if depth > 0 {
		for try := 0; try < 6; try++ {
			e, t := g.path(cur, depth-1)
			if t.k == k {
				return e
			}
		}
	}
	// a direct member of the wanted type
	if cur.k == "obj" && !g.p(30) {
		var c []string
		for _, n := range cur.o {
			if cur.f[n].k == k {
				c = append(c, n)
			}
		}
		if len(c) > 0 {
			return g.ident(c[g.r.Intn(len(c))])
		}
	}
	if cur.k == k && g.p(50) {
		return "@"
	}
	for i := len(g.vars) - 1; i >= 0; i-- {
		if g.vars[i].t.k == k && g.p(50) {
			return "$" + g.vars[i].n
		}
	}
	switch k {
	case "arr":
		return g.lit(tArr(tNum))
	case "obj":
		return g.lit(tObj())
	}
	return g.lit(&ty{k: k})
}

func (g *tgen) wantArr(cur *ty, depth int) (string, *ty) {
	if depth > 0 {
		for try := 0; try < 8; try++ {
			e, t := g.path(cur, depth-1)
			if t.k == "arr" && t.e != nil {
				return e, t.e
			}
		}
	}
	if cur.k == "obj" {
		var c []string
		for _, n := range cur.o {
			if cur.f[n].k == "arr" {
				c = append(c, n)
			}
		}
		if len(c) > 0 {
			n := c[g.r.Intn(len(c))]
			return g.ident(n), cur.f[n].e
		}
	}
	if cur.k == "arr" && cur.e != nil {
		return "@", cur.e
	}
	return g.lit(tArr(tNum)), tNum
}

// cond: a filter / boolean expression over a node of type t
func (g *tgen) cond(t *ty, depth int) string {
	switch g.r.Intn(9) {
	case 0:
		e, _ := g.path(t, depth-1)
		return e
	case 1:
		return g.want(t, "num", depth-1) + " " + g.pick("<", "<=", ">", ">=", "==", "!=") + " " + g.lit(tNum)
	case 2:
		return g.want(t, "str", depth-1) + " " + g.pick("==", "!=") + " " + g.lit(tStr)
	case 3:
		return g.cond(t, depth-1) + " " + g.pick("&&", "||") + " " + g.cond(t, depth-1)
	case 4:
		return "!" + g.pick("", "(") + g.want(t, "bool", depth-1) + ""
	case 5:
		return g.want(t, "num", depth-1) + " " + g.pick("<", ">", "==") + " " + g.want(t, "num", depth-1)
	case 6:
		if len(g.vars) > 0 {
			v := g.vars[g.r.Intn(len(g.vars))]
			return g.want(t, v.t.k, depth-1) + " == $" + v.n
		}
		return "@ != `null`"
	case 7:
		return g.pick("contains", "starts_with", "ends_with") + "(" + g.want(t, "str", depth-1) + ", " + g.lit(tStr) + ")"
	default:
		return g.want(t, "num", depth-1) + " " + g.pick("<", ">=") + " $." + g.pick("\"é\"", "a.a", "n[0]")
	}
}

func fixParen(s string) string {
	if strings.Count(s, "(") > strings.Count(s, ")") {
		return s + ")"
	}
	return s
}

// call: a function applied in a context of type cur
func (g *tgen) call(cur *ty, depth int) (string, *ty) {
	d := depth - 1
	switch g.r.Intn(34) {
	case 0:
		return "length(" + g.want(cur, g.pick("arr", "str", "obj"), d) + ")", tNum
	case 1:
		return g.pick("keys", "values") + "(" + g.want(cur, "obj", d) + ")", tArr(tAny)
	case 2:
		a, e := g.wantArr(cur, d)
		if e.k == "num" || e.k == "str" {
			return g.pick("sort", "reverse") + "(" + a + ")", tArr(e)
		}
		return "reverse(" + a + ")", tArr(e)
	case 3, 4:
		a, e := g.wantArr(cur, d)
		return "sort_by(" + a + ", &" + g.want(e, g.pick("num", "str"), d) + ")", tArr(e)
	case 5:
		a, e := g.wantArr(cur, d)
		return g.pick("max_by", "min_by") + "(" + a + ", &" + g.want(e, g.pick("num", "str"), d) + ")", e
	case 6, 7:
		a, e := g.wantArr(cur, d)
		b, t := g.path(e, d)
		return "map(&" + b + ", " + a + ")", tArr(t)
	case 8:
		return g.pick("sum", "avg", "max", "min") + "(" + g.wantOf(cur, tArr(tNum), d) + ")", tNum
	case 9:
		return g.pick("abs", "ceil", "floor") + "(" + g.want(cur, "num", d) + ")", tNum
	case 10:
		return "join(" + g.lit(tStr) + ", " + g.wantOf(cur, tArr(tStr), d) + ")", tStr
	case 11:
		return "split(" + g.want(cur, "str", d) + ", " + g.lit(tStr) + g.pick("", "", ", `1`", ", `0`") + ")", tArr(tStr)
	case 12:
		return g.pick("find_first", "find_last") + "(" + g.want(cur, "str", d) + ", " + g.lit(tStr) + g.pick("", ", `1`", ", `0`, `2`", ", `-1`") + ")", tNum
	case 13:
		return g.pick("pad_left", "pad_right") + "(" + g.want(cur, "str", d) + ", " + g.pick("`3`", "`0`", "`5`") + g.pick("", ", 'x'", ", 'é'") + ")", tStr
	case 14:
		return "replace(" + g.want(cur, "str", d) + ", " + g.pick("'a'", "'b'", "'X'", "'ab'") + ", " + g.lit(tStr) + g.pick("", ", `1`", ", `0`") + ")", tStr
	case 15:
		return g.pick("trim", "trim_left", "trim_right") + "(" + g.want(cur, "str", d) + g.pick("", ", 'a'", ", ' a'") + ")", tStr
	case 16:
		return g.pick("upper", "lower", "reverse") + "(" + g.want(cur, "str", d) + ")", tStr
	case 17:
		a, e := g.wantArr(cur, d)
		return "contains(" + a + ", " + g.want(cur, e.k, d) + ")", tBool
	case 18:
		return "to_string(" + g.want(cur, g.pick("num", "str", "bool", "arr"), d) + ")", tStr
	case 19:
		return "to_number(" + g.want(cur, g.pick("num", "str"), d) + ")", tNum
	case 20:
		e, t := g.path(cur, d)
		if t.k == "arr" {
			return "to_array(" + e + ")", t
		}
		return "to_array(" + e + ")", tArr(t)
	case 21:
		e, _ := g.path(cur, d)
		return "type(" + e + ")", tStr
	case 22:
		a, _ := g.path(cur, d)
		b, t := g.path(cur, d)
		return "not_null(" + a + ", " + b + ")", t
	case 23:
		return "merge(" + g.want(cur, "obj", d) + ", " + g.want(cur, "obj", d) + ")", tObj()
	case 24:
		a, e := g.wantArr(cur, d)
		b, f := g.wantArr(cur, d)
		_ = f
		return "zip(" + a + ", " + b + ")", tArr(tArr(e))
	case 25:
		return "items(" + g.want(cur, "obj", d) + ")", tArr(tArr(tAny))
	case 26:
		a, e := g.wantArr(cur, d)
		return "from_items(" + a + "[*].[" + g.want(e, "str", d) + ", @])", tObj()
	case 27:
		a, e := g.wantArr(cur, d)
		return "group_by(" + a + ", &" + g.want(e, "str", d) + ")", tObj()
	case 28:
		return g.pick("starts_with", "ends_with", "contains") + "(" + g.want(cur, "str", d) + ", " + g.lit(tStr) + ")", tBool
	case 29:
		// a by-function whose key reads a variable of the caller's scope
		a, e := g.wantArr(cur, d)
		name := g.pick("v", "w", "u")
		g.vars = append(g.vars, tvar{name, tStr})
		s := "let $" + name + " = " + g.pick("'a'", "k", "'k'") + " in sort_by(" + a + ", &" + g.want(e, "num", d) + ")"
		g.vars = g.vars[:len(g.vars)-1]
		return s, tArr(e)
	case 30:
		a, e := g.wantArr(cur, d)
		return "length(" + a + "[?" + g.cond(e, d) + "])", tNum
	case 31:
		a, e := g.wantArr(cur, d)
		if e.k == "arr" {
			return "length(" + a + "[])", tNum
		}
		return "sum(" + a + "[*].length(@))", tNum
	default:
		return g.pick("abs", "length", "keys", "sort", "sum", "join", "to_number", "upper") + "(" + g.want(cur, g.pick("num", "str", "arr", "obj", "bool", "null"), d) + ")", tAny
	}
}

func (g *tgen) wantOf(cur *ty, t *ty, depth int) string {
	if depth > 0 {
		for try := 0; try < 8; try++ {
			e, u := g.path(cur, depth-1)
			if u.k == t.k && (t.e == nil || (u.e != nil && u.e.k == t.e.k)) {
				return e
			}
		}
	}
	if cur.k == "obj" {
		for _, n := range cur.o {
			u := cur.f[n]
			if u.k == t.k && (t.e == nil || (u.e != nil && u.e.k == t.e.k)) && g.p(70) {
				return g.ident(n)
			}
		}
	}
	return g.lit(t)
}

// atom: a primary expression in a context of type cur
func (g *tgen) atom(cur *ty, depth int) (string, *ty) {
	k := g.r.Intn(20)
	if depth <= 0 && k >= 8 {
		k = g.r.Intn(8)
	}
	switch k {
	case 0, 1, 2, 3:
		return g.field(cur)
	case 4:
		return "@", cur
	case 5:
		t := g.anyOf()
		if g.p(50) {
			t = tArr(g.anyOf())
		}
		return g.lit(t), t
	case 6:
		if len(g.vars) > 0 {
			v := g.vars[g.r.Intn(len(g.vars))]
			return "$" + v.n, v.t
		}
		return "$", g.root
	case 7:
		f, t := g.field(g.root)
		return "$." + f, t
	case 8, 9, 10:
		return g.call(cur, depth)
	case 11:
		a, t := g.path(cur, depth-1)
		b, u := g.path(cur, depth-1)
		_ = u
		if g.p(30) {
			c, _ := g.path(cur, depth-1)
			return "[" + a + ", " + b + ", " + c + "]", tArr(tAny)
		}
		if g.p(20) {
			return "[" + a + "]", tArr(t)
		}
		return "[" + a + ", " + b + "]", tArr(t)
	case 12:
		a, t := g.path(cur, depth-1)
		b, u := g.path(cur, depth-1)
		return "{" + g.pick("a", "\"j j\"", "k") + ": " + a + ", " + g.pick("c", "s", "\"é\"") + ": " + b + "}", tObj("a", t, "k", t, "c", u, "s", u)
	case 13:
		e, t := g.expr(cur, depth-1)
		return "(" + e + ")", t
	case 14, 15:
		// let: one or two bindings, possibly shadowing
		name := g.pick("v", "w", "v", "u")
		e1, t1 := g.path(cur, depth-1)
		bind := "$" + name + " = " + e1
		nv := []tvar{{name, t1}}
		if g.p(35) {
			n2 := g.pick("w", "u", "z")
			if n2 != name {
				e2, t2 := g.path(cur, depth-1) // a sibling binding does not see $name of this let
				bind += ", $" + n2 + " = " + e2
				nv = append(nv, tvar{n2, t2})
			}
		}
		g.vars = append(g.vars, nv...)
		body, t := g.expr(cur, depth-1)
		g.vars = g.vars[:len(g.vars)-len(nv)]
		return "let " + bind + " in " + body, t
	case 16:
		if cur.k == "arr" && cur.e != nil {
			switch g.r.Intn(4) {
			case 0:
				return "[*]", cur
			case 1:
				return "[?" + g.cond(cur.e, depth-1) + "]", cur
			case 2:
				return "[" + g.pick("0", "-1", "1") + "]", cur.e
			default:
				return "[" + g.pick(":2", "1:", "::-1", "::2") + "]", cur
			}
		}
		if cur.k == "obj" {
			return "*", tArr(tAny)
		}
		return g.field(cur)
	case 17:
		return "!" + fixParen(g.pick("", "(")+g.want(cur, g.pick("bool", "arr", "str"), depth-1)), tBool
	case 18:
		return "-" + g.want(cur, "num", depth-1), tNum
	default:
		return g.lit(g.anyOf()), tAny
	}
}

// path: an atom followed by selectors; a running projection keeps the element type
func (g *tgen) path(cur *ty, depth int) (string, *ty) {
	e, t := g.atom(cur, depth)
	if strings.HasPrefix(e, "let ") || strings.HasPrefix(e, "-") || strings.HasPrefix(e, "!") {
		return e, t
	}
	inProj := false
	n := g.r.Intn(5)
	if depth <= 0 {
		n = g.r.Intn(3)
	}
	res := func() *ty {
		if inProj {
			return tArr(t)
		}
		return t
	}
	for i := 0; i < n; i++ {
		switch t.k {
		case "obj":
			switch g.r.Intn(10) {
			case 0:
				e += ".*"
				inProj = true
				if len(t.o) > 0 {
					t = t.f[t.o[g.r.Intn(len(t.o))]]
				} else {
					t = tAny
				}
			case 1:
				if depth > 0 {
					a, u := g.path(t, depth-1)
					b, _ := g.path(t, depth-1)
					if !strings.HasPrefix(a, "let ") && !strings.HasPrefix(b, "let ") {
						e += ".[" + a + ", " + b + "]"
						t = tArr(u)
						break
					}
				}
				fallthrough
			case 2:
				if depth > 0 {
					a, u := g.path(t, depth-1)
					if !strings.HasPrefix(a, "let ") {
						e += ".{a: " + a + "}"
						t = tObj("a", u)
						break
					}
				}
				fallthrough
			case 3:
				if depth > 0 {
					c, u := g.call(t, depth)
					if !strings.HasPrefix(c, "let ") {
						e += "." + c
						t = u
						break
					}
				}
				fallthrough
			default:
				f, u := g.field(t)
				e += "." + f
				t = u
			}
		case "arr":
			el := t.e
			if el == nil {
				el = tAny
			}
			switch g.r.Intn(12) {
			case 0, 1:
				e += "[" + g.pick("0", "-1", "1", "2", "-2") + "]"
				t = el
			case 2, 3, 4:
				e += "[*]"
				if inProj {
					// nested projection: flattening is not implied; the result is an array per element
					t = tArr(el)
					// keep going on the inner arrays as values
					continue
				}
				inProj, t = true, el
			case 5:
				e += "[]"
				if el.k == "arr" && el.e != nil {
					el = el.e
				}
				if inProj {
					t = el
				} else {
					inProj, t = true, el
				}
			case 6, 7:
				c := g.cond(el, depth-1)
				e += "[?" + c + "]"
				if inProj {
					t = tArr(el)
					continue
				}
				inProj, t = true, el
			case 8:
				e += "[" + g.pick(":2", "1:", "::-1", "::2", "-2:", "1:3", ":-1", "5:", "::-2") + "]"
				if inProj {
					t = tArr(el)
					continue
				}
				inProj, t = true, el
			case 9:
				if depth > 0 {
					c, u := g.call(t, depth)
					if !strings.HasPrefix(c, "let ") {
						e += "." + c
						t = u
						break
					}
				}
				fallthrough
			default:
				// end the projection (or just pipe on)
				if g.p(50) {
					e = "(" + e + ")"
				} else {
					nt := res()
					inProj = false
					r, u := g.path(nt, depth-1)
					if strings.HasPrefix(r, "let ") {
						r = "(" + r + ")"
					}
					e += " | " + r
					t = u
					return e, t
				}
				t = res()
				inProj = false
			}
		case "str":
			switch g.r.Intn(4) {
			case 0:
				e += "[" + g.pick(":2", "1:", "::-1", "::2", "-1:", "0:1") + "]"
			case 1:
				if depth > 0 {
					e += "." + g.pick("length(@)", "reverse(@)", "upper(@)", "to_number(@)", "split(@, 'a')", "find_first(@, 'a')", "pad_left(@, `4`, '.')")
					t = tAny
					break
				}
				fallthrough
			default:
				i = n
			}
		default:
			if g.p(15) {
				f, _ := g.field(t)
				e += "." + f
				t = tAny
			} else {
				i = n
			}
		}
	}
	return e, res()
}

// expr: paths joined by operators
func (g *tgen) expr(cur *ty, depth int) (string, *ty) {
	if depth <= 0 || g.p(45) {
		return g.path(cur, depth)
	}
	switch g.r.Intn(8) {
	case 0:
		a, t := g.path(cur, depth-1)
		r, u := g.expr(t, depth-1)
		if strings.HasPrefix(a, "let ") {
			a = "(" + a + ")"
		}
		return a + " | " + r, u
	case 1, 2:
		a, _ := g.path(cur, depth-1)
		b, t := g.path(cur, depth-1)
		if strings.HasPrefix(a, "let ") {
			a = "(" + a + ")"
		}
		return a + " " + g.pick("||", "&&") + " " + b, t
	case 3:
		return g.cond(cur, depth), tBool
	case 4, 5:
		a := g.want(cur, "num", depth-1)
		b := g.want(cur, "num", depth-1)
		if strings.HasPrefix(a, "let ") {
			a = "(" + a + ")"
		}
		s := a + " " + g.pick("+", "-", "*", "/", "//", "%") + " " + b
		if g.p(40) {
			s += " " + g.pick("+", "-", "*") + " " + g.want(cur, "num", 0)
		}
		return s, tNum
	case 6:
		a, t := g.path(cur, depth-1)
		b, _ := g.path(cur, depth-1)
		if strings.HasPrefix(a, "let ") {
			a = "(" + a + ")"
		}
		return a + " " + g.pick("==", "!=") + " " + b, func() *ty { _ = t; return tBool }()
	default:
		return g.path(cur, depth)
	}
}
