package main

// sched: replay of one interleaving of spec/APIConc.tla (property C07) into
// real goroutines.  The evaluator's step hook is the gate: a goroutine blocks
// at each of its first K evaluation steps of a call until the scheduler
// releases it, so the goroutines interleave exactly as the behaviour says.
// Exactly one goroutine runs at a time in this mode, which is why the
// goroutine identity can be a global.
//
// race: the same call sets run ungated from many goroutines behind a start
// barrier; meant for the -race build of the harness (a report makes the
// process exit with status 66, which the parent attributes to the case).

import (
	"fmt"
	"sync"

	"github.com/woodsbury/jmespath"
)

func init() {
	extraKinds["sched"] = runSched
	extraKinds["race"] = runRace
}

type concCall struct {
	op   string
	t, d int
	adm  []*TV
	sadm any
}

type concSetup struct {
	texts   []string
	handles []*jmespath.Expression
	docsTV  []*TV
	docsGo  []any
	bs      []*builder
	calls   [][]concCall
}

func loadConc(m map[string]any) (*concSetup, error) {
	s := &concSetup{}
	poolName, _ := m["pool"].(string)
	pool, err := loadPool(poolDir, poolName)
	if err != nil {
		return nil, err
	}
	for _, d := range pool {
		tv, err := fromJSON(d)
		if err != nil {
			return nil, err
		}
		b := &builder{}
		s.docsTV = append(s.docsTV, tv)
		s.docsGo = append(s.docsGo, b.build(tv))
		s.bs = append(s.bs, b)
	}
	textsAny, _ := m["texts"].([]any)
	for _, t := range textsAny {
		txt, err := cpsToString(t)
		if err != nil {
			return nil, err
		}
		s.texts = append(s.texts, txt)
		e, _ := doCompile(txt)
		s.handles = append(s.handles, e) // nil for texts that do not compile
	}
	gs, _ := m["calls"].([]any)
	for _, g := range gs {
		cl, _ := g.([]any)
		var row []concCall
		for _, c := range cl {
			cm, _ := c.(map[string]any)
			cc := concCall{op: getString(cm, "op"), sadm: cm["sadm"]}
			if n, ok := cm["t"].(interface{ Int64() (int64, error) }); ok {
				v, _ := n.Int64()
				cc.t = int(v)
			}
			if n, ok := cm["d"].(interface{ Int64() (int64, error) }); ok {
				v, _ := n.Int64()
				cc.d = int(v)
			}
			if cc.op != "compile" {
				cc.adm, err = decodeAdm(cm["adm"])
				if err != nil {
					return nil, err
				}
			}
			row = append(row, cc)
		}
		s.calls = append(s.calls, row)
	}
	return s, nil
}

func (s *concSetup) run(c concCall) call {
	switch c.op {
	case "exprsearch":
		if h := s.handles[c.t-1]; h != nil {
			return doExprSearch(h, s.docsGo[c.d-1])
		}
		return doSearch(s.texts[c.t-1], s.docsGo[c.d-1])
	case "search":
		return doSearch(s.texts[c.t-1], s.docsGo[c.d-1])
	default:
		_, cc := doCompile(s.texts[c.t-1])
		return cc
	}
}

func (s *concSetup) verdict(g, i int, c concCall, r call) *Result {
	what := fmt.Sprintf("goroutine %d call %d (%s %q)", g+1, i+1, c.op, s.texts[c.t-1])
	if r.panicked {
		res := fail("panic", r.out, what+": "+r.stack)
		res.Site = r.site
		return &res
	}
	if r.contract != "" {
		res := fail("contract", r.out, what+": "+r.contract)
		return &res
	}
	if c.op == "compile" {
		ok := r.out.T != "err"
		sadm, _ := c.sadm.([]any)
		admOK, admErr := false, false
		for _, a := range sadm {
			am, _ := a.(map[string]any)
			if b, _ := am["ok"].(bool); b {
				admOK = true
			} else {
				admErr = true
			}
		}
		if (ok && !admOK) || (!ok && !admErr) {
			res := fail("mismatch", r.out, what+": compile outcome differs from the one it has when run alone")
			return &res
		}
		return nil
	}
	if !admits(c.adm, r.out) {
		res := fail("mismatch", r.out, what+": outcome differs from the one the call has when run alone")
		return &res
	}
	return nil
}

func (s *concSetup) docsUnchanged() *Result {
	for i := range s.docsGo {
		after := fromGo(s.docsGo[i])
		if !strictEq(s.docsTV[i], after) {
			r := fail("mutation", after, fmt.Sprintf("shared document %d changed: before %s after %s", i+1, s.docsTV[i].show(), after.show()))
			return &r
		}
		if !s.bs[i].spareIntact() {
			r := fail("mutation", nil, "spare capacity of a shared slice was written")
			return &r
		}
	}
	return nil
}

func runSched(m map[string]any) Result {
	s, err := loadConc(m)
	if err != nil {
		return Result{Class: "harness", Detail: err.Error()}
	}
	k := 2
	if n, ok := m["gates"].(interface{ Int64() (int64, error) }); ok {
		v, _ := n.Int64()
		k = int(v)
	}
	var sched []int
	sa, _ := m["sched"].([]any)
	for _, x := range sa {
		if n, ok := x.(interface{ Int64() (int64, error) }); ok {
			v, _ := n.Int64()
			sched = append(sched, int(v)-1)
		}
	}
	ng := len(s.calls)
	rel := make([]chan struct{}, ng)
	arr := make([]chan string, ng)
	results := make([][]call, ng)
	for g := 0; g < ng; g++ {
		rel[g] = make(chan struct{})
		arr[g] = make(chan string)
		results[g] = make([]call, len(s.calls[g]))
	}
	current := -1
	gatesLeft := make([]int, ng)
	gate = func(node string) {
		g := current
		if g < 0 || gatesLeft[g] <= 0 {
			return
		}
		gatesLeft[g]--
		arr[g] <- "gate"
		<-rel[g]
		current = g
	}
	defer func() { gate = nil }()
	var wg sync.WaitGroup
	for g := 0; g < ng; g++ {
		wg.Add(1)
		go func(g int) {
			defer wg.Done()
			for i, c := range s.calls[g] {
				<-rel[g]
				current = g
				gatesLeft[g] = k
				results[g][i] = s.run(c)
				gatesLeft[g] = 0
				arr[g] <- "end"
			}
		}(g)
	}
	segs := make([]int, ng)
	virtual := make([]int, ng)
	callIdx := make([]int, ng)
	for _, g := range sched {
		if g < 0 || g >= ng {
			return Result{Class: "harness", Detail: "bad goroutine in schedule"}
		}
		if virtual[g] > 0 {
			virtual[g]-- // the call ended with fewer evaluation steps than gates
			continue
		}
		if callIdx[g] >= len(s.calls[g]) {
			return Result{Class: "harness", Detail: "schedule longer than the calls"}
		}
		current = g
		rel[g] <- struct{}{}
		ev := <-arr[g]
		segs[g]++
		if ev == "end" {
			virtual[g] = (k + 1) - segs[g]
			segs[g] = 0
			callIdx[g]++
		}
	}
	// the schedule is complete; anything still parked would be a harness bug
	for g := 0; g < ng; g++ {
		if callIdx[g] != len(s.calls[g]) {
			return Result{Class: "harness", Detail: fmt.Sprintf("goroutine %d did not finish its calls (%d of %d)", g+1, callIdx[g], len(s.calls[g]))}
		}
	}
	wg.Wait()
	pin := true
	for g := 0; g < ng; g++ {
		for i, c := range s.calls[g] {
			if r := s.verdict(g, i, c, results[g][i]); r != nil {
				return *r
			}
			if c.op != "compile" {
				pin = pin && pinned(c.adm)
			}
		}
	}
	if r := s.docsUnchanged(); r != nil {
		return *r
	}
	return Result{OK: true, Pinned: pin, GotS: fmt.Sprintf("%d goroutines, %d segments", ng, len(sched))}
}

// runRace: every goroutine runs every call of the set, rounds times, ungated.
func runRace(m map[string]any) Result {
	s, err := loadConc(m)
	if err != nil {
		return Result{Class: "harness", Detail: err.Error()}
	}
	rounds, goroutines := 20, 8
	if n, ok := m["rounds"].(interface{ Int64() (int64, error) }); ok {
		v, _ := n.Int64()
		rounds = int(v)
	}
	if n, ok := m["goroutines"].(interface{ Int64() (int64, error) }); ok {
		v, _ := n.Int64()
		goroutines = int(v)
	}
	var flat []concCall
	for _, row := range s.calls {
		flat = append(flat, row...)
	}
	start := make(chan struct{})
	var wg sync.WaitGroup
	var mu sync.Mutex
	var bad *Result
	for w := 0; w < goroutines; w++ {
		wg.Add(1)
		go func(w int) {
			defer wg.Done()
			<-start
			for r := 0; r < rounds; r++ {
				for i := range flat {
					c := flat[(i+w)%len(flat)]
					res := s.run(c)
					if v := s.verdict(w, i, c, res); v != nil {
						mu.Lock()
						if bad == nil {
							bad = v
						}
						mu.Unlock()
						return
					}
				}
			}
		}(w)
	}
	close(start)
	wg.Wait()
	if bad != nil {
		return *bad
	}
	if r := s.docsUnchanged(); r != nil {
		return *r
	}
	return Result{OK: true, Pinned: true, GotS: fmt.Sprintf("%d goroutines x %d rounds x %d calls", goroutines, rounds, len(flat))}
}
