package main

// sweep: spec/GenSweep.tla -- texts head rep^n tail for every n in a range;
// the expected outcome is a function of n given by the specification (checked
// there against the full semantics for n = 0..4).  Search and Compile are both
// exercised at every length: Compile must fail exactly when the outcome is a
// syntax error.

import (
	"fmt"
	"strconv"
	"strings"
)

func init() { extraKinds["sweep"] = runSweep }

func intField(m map[string]any, k string) int {
	if v, ok := m[k].(interface{ Int64() (int64, error) }); ok {
		x, _ := v.Int64()
		return int(x)
	}
	return 0
}

func runSweep(m map[string]any) Result {
	head, _ := cpsToString(m["head"])
	rep, _ := cpsToString(m["rep"])
	tail, _ := cpsToString(m["tail"])
	family := getString(m, "family")
	doc, err := fromJSON(m["doc"])
	if err != nil {
		return Result{Class: "harness", Detail: err.Error()}
	}
	constAdm, err := decodeAdm(m["adm"])
	if err != nil {
		return Result{Class: "harness", Detail: err.Error()}
	}
	count := getString(m, "t") == "count"
	from, to, plus, mul := intField(m, "from"), intField(m, "to"), intField(m, "plus"), intField(m, "mul")
	b := &builder{}
	docGo := b.build(doc)
	var sb strings.Builder
	for n := from; n <= to; n++ {
		sb.Reset()
		sb.WriteString(head)
		for i := 0; i < n; i++ {
			sb.WriteString(rep)
		}
		sb.WriteString(tail)
		text := sb.String()
		adm := constAdm
		if count {
			adm = []*TV{numTV(strconv.Itoa(mul*n + plus))}
		}
		where := fmt.Sprintf("family %s, %d repetitions (%d bytes: %s%s...%s)", family, n, len(text), head, rep, tail)
		c := doSearch(text, docGo)
		if c.panicked {
			r := fail("panic", c.out, where+": "+firstLines(c.stack, 12))
			r.Site = c.site
			return r
		}
		if c.contract != "" {
			return fail("contract", c.out, where+": "+c.contract)
		}
		if !admits(adm, c.out) {
			return fail("mismatch", c.out, where+": outcome outside the admissible set, expected "+adm[0].show())
		}
		wantSyntax := adm[0].T == "err"
		e, cc := doCompile(text)
		if cc.panicked {
			r := fail("panic", cc.out, where+": Compile: "+firstLines(cc.stack, 12))
			r.Site = cc.site
			return r
		}
		if wantSyntax && e != nil {
			return fail("accepts", cc.out, where+": Compile accepted a text outside the grammar")
		}
		if !wantSyntax && e == nil {
			return fail("rejects", cc.out, where+": Compile rejected a member of the grammar: "+cc.errText)
		}
		if wantSyntax && !admits(adm, cc.out) {
			return fail("mismatch", cc.out, where+": Compile: wrong error category")
		}
	}
	if !b.spareIntact() {
		return fail("mutation", nil, "family "+family+": the spare capacity of a caller's slice was written")
	}
	return Result{OK: true, Pinned: true, GotS: fmt.Sprintf("%s: n = %d..%d", family, from, to)}
}
