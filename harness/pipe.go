package main

// pipe2: property C18.  Search e1; the result must be plain JSON data that
// survives encoding/json unchanged; feed the Go value ITSELF (not a copy, not
// re-serialised) into a search of e2; that must equal searching (e1) | (e2)
// over the original document, and the specification's outcome.

import (
	"bytes"
	"encoding/json"
)

func init() { extraKinds["pipe2"] = runPipe2 }

func jsonRoundTrip(raw any, out *TV) (bool, string) {
	b, err := json.Marshal(raw)
	if err != nil {
		return false, "result does not serialise: " + err.Error()
	}
	d := json.NewDecoder(bytes.NewReader(b))
	d.UseNumber()
	var back any
	if err := d.Decode(&back); err != nil {
		return false, "serialised result does not decode: " + err.Error() + ": " + string(b)
	}
	// encoding/json writes a float as its shortest round-trip text: compare under that reading of floats
	shortestFloats = true
	want := fromGo(raw)
	shortestFloats = false
	if !strictEq(fromGo(back), want) {
		return false, "result changes through encoding/json: " + want.show() + " became " + fromGo(back).show()
	}
	return true, ""
}

func runPipe2(m map[string]any) Result {
	e1, err := cpsToString(m["expr"])
	if err != nil {
		return Result{Class: "harness", Detail: err.Error()}
	}
	e2, _ := cpsToString(m["expr2"])
	e3, _ := cpsToString(m["expr3"])
	doc, err := fromJSON(m["doc"])
	if err != nil {
		return Result{Class: "harness", Detail: err.Error()}
	}
	adm, err := decodeAdm(m["adm"])
	if err != nil {
		return Result{Class: "harness", Detail: err.Error()}
	}
	pin := pinned(adm)
	b := &builder{}
	d := b.build(doc)
	c1 := doSearch(e1, d)
	if r := genericChecks(c1, doc, d, b, true); r != nil {
		r.Pinned = pin
		return *r
	}
	b3 := &builder{}
	d3 := b3.build(doc)
	c3 := doSearch(e3, d3)
	if r := genericChecks(c3, doc, d3, b3, true); r != nil {
		r.Pinned = pin
		return *r
	}
	if !admits(adm, c3.out) {
		r := fail("mismatch", c3.out, "the piped expression: outcome outside the admissible set")
		r.Pinned = pin
		return r
	}
	if e4, _ := cpsToString(m["expr4"]); e4 != "" {
		// the same pipe written without the redundant parentheses
		b4 := &builder{}
		d4 := b4.build(doc)
		c4 := doSearch(e4, d4)
		if r := genericChecks(c4, doc, d4, b4, true); r != nil {
			r.Pinned = pin
			return *r
		}
		if !admits(adm, c4.out) {
			r := fail("mismatch", c4.out, "the pipe without parentheses ("+e4+"): outcome outside the admissible set")
			r.Pinned = pin
			return r
		}
	}
	if c1.out.T == "err" {
		// the pipe fails with the same fault
		if c3.out.T != "err" {
			return fail("differs", c3.out, "e1 fails with "+c1.out.show()+" but (e1)|(e2) gives "+c3.out.show())
		}
		return Result{OK: true, Pinned: pin, GotS: c3.out.show()}
	}
	if ok, why := jsonRoundTrip(c1.raw, c1.out); !ok {
		return fail("nonjson", c1.out, why)
	}
	snap := fromGo(c1.raw)
	c2 := doSearch(e2, c1.raw) // the result itself is acceptable as input
	if r := genericChecks(c2, snap, c1.raw, &builder{}, true); r != nil {
		r.Detail = "searching e2 over the result of e1: " + r.Detail
		r.Pinned = pin
		return *r
	}
	if !admits(adm, c2.out) {
		r := fail("mismatch", c2.out, "search(e2, search(e1, doc)) is outside the admissible set of (e1)|(e2): result "+c1.out.show())
		r.Pinned = pin
		return r
	}
	if pin && !sameOutcome(c2.out, c3.out) {
		ok := false
		for _, a := range adm {
			if a.T != "err" && a.T != "any" && eqU(a, c2.out) && eqU(a, c3.out) {
				ok = true
			}
		}
		if !ok && c2.out.T != "err" {
			return fail("differs", c2.out, "search(e2, search(e1, doc)) = "+c2.out.show()+" but search((e1)|(e2), doc) = "+c3.out.show())
		}
	}
	if c2.out.T != "err" {
		if ok, why := jsonRoundTrip(c2.raw, c2.out); !ok {
			return fail("nonjson", c2.out, why)
		}
	}
	return Result{OK: true, Pinned: pin, GotS: c2.out.show()}
}
