package main

// record: direction B of the binding (DESIGN.md 4.2).  The real library is
// driven with inputs TLC did not generate -- the repository's own compliance
// corpus and randomly grown expressions / documents (seeded) -- and one event
// per public call is logged at its return: {id, expr, doc, out}.  The log is
// validated by TLC against spec/Corpus.tla: every logged outcome must lie in
// the admissible set the specification computes from (expr, doc).
//
//	harness record -out events.ndjson -n 3000 -seed 7 [-corpus /repo/testdata]

import (
	"bufio"
	"encoding/json"
	"flag"
	"fmt"
	"math/big"
	"math/rand"
	"os"
	"path/filepath"
	"sort"
	"strings"
)

func init() { commands["record"] = recordMain }

// smallEnough: the specification's small-decimal model (spec/JValue.tla).
func smallEnough(v *TV) bool {
	switch v.T {
	case "num":
		return new(big.Int).Abs(v.N).Cmp(big.NewInt(99999999)) <= 0 && v.E > -900 && v.E < 900
	case "arr":
		for _, x := range v.A {
			if !smallEnough(x) {
				return false
			}
		}
	case "obj":
		for _, m := range v.O {
			if !smallEnough(m.V) {
				return false
			}
		}
	case "null", "bool", "str":
	default:
		return false
	}
	return true
}

type gen struct{ r *rand.Rand }

func (g *gen) pick(xs ...string) string { return xs[g.r.Intn(len(xs))] }

func (g *gen) value(depth int) any {
	k := g.r.Intn(9)
	if depth <= 0 && k >= 6 {
		k = g.r.Intn(6)
	}
	switch k {
	case 0:
		return nil
	case 1:
		return g.r.Intn(2) == 0
	case 2:
		return json.Number(fmt.Sprint(g.r.Intn(7) - 2))
	case 3:
		return json.Number(g.pick("1.5", "-2.5", "0", "10", "0.25", "100", "3"))
	case 4:
		return g.pick("", "a", "b", "ab", "é€", "a b", "😀a", "B")
	case 5:
		return g.pick("k", "1", "true", "x y")
	case 6, 7:
		n := g.r.Intn(4)
		a := make([]any, n)
		for i := range a {
			a[i] = g.value(depth - 1)
		}
		return a
	default:
		m := map[string]any{}
		for _, k := range []string{"a", "b", "k", "x", "é"} {
			if g.r.Intn(2) == 0 {
				m[k] = g.value(depth - 1)
			}
		}
		return m
	}
}

func (g *gen) literal() string {
	return g.pick("`1`", "`0`", "`-1`", "`1.5`", "`null`", "`true`", "`false`", "'a'", "''", "`[1,2]`", "`[]`", "`{\"a\":1}`", "'é€'", "`\"b\"`", "`2`")
}

func (g *gen) atom() string {
	switch g.r.Intn(10) {
	case 0:
		return "@"
	case 1:
		return g.literal()
	case 2:
		return "$"
	default:
		return g.pick("a", "b", "k", "x", "\"é\"")
	}
}

var fns1 = []string{"length", "keys", "values", "type", "to_string", "to_number", "to_array", "sort", "reverse", "abs", "ceil", "floor", "sum", "avg", "max", "min", "items", "from_items", "lower", "upper", "trim", "not_null"}
var fns2 = []string{"contains", "starts_with", "ends_with", "join", "split", "find_first", "find_last", "pad_left", "pad_right", "merge", "zip", "not_null"}
var fnsRef = []string{"sort_by", "max_by", "min_by", "group_by"}

func (g *gen) expr(depth int) string {
	if depth <= 0 {
		return g.atom()
	}
	switch g.r.Intn(22) {
	case 0, 1, 2:
		return g.expr(depth-1) + "." + g.pick("a", "b", "k", "x", "\"é\"", "*")
	case 3:
		return g.expr(depth-1) + g.pick("[0]", "[-1]", "[1]", "[2]")
	case 4:
		return g.expr(depth-1) + g.pick("[*]", "[]", "[1:]", "[:1]", "[::-1]", "[::2]", "[-2:]")
	case 5:
		return g.expr(depth-1) + "[?" + g.expr(depth-1) + "]"
	case 6:
		return g.expr(depth-1) + " | " + g.expr(depth-1)
	case 7:
		return g.expr(depth-1) + " " + g.pick("||", "&&") + " " + g.expr(depth-1)
	case 8:
		return g.expr(depth-1) + " " + g.pick("==", "!=", "<", "<=", ">", ">=") + " " + g.expr(depth-1)
	case 9:
		return g.expr(depth-1) + " " + g.pick("+", "-", "*", "/", "//", "%", "×", "÷", "−") + " " + g.expr(depth-1)
	case 10:
		return g.pick("!", "-", "+") + g.expr(depth-1)
	case 11:
		return "(" + g.expr(depth-1) + ")"
	case 12:
		return "[" + g.expr(depth-1) + ", " + g.expr(depth-1) + "]"
	case 13:
		return "{k: " + g.expr(depth-1) + ", \"j j\": " + g.expr(depth-1) + "}"
	case 14:
		return g.expr(depth-1) + ".[" + g.expr(depth-1) + "]"
	case 15:
		return fns1[g.r.Intn(len(fns1))] + "(" + g.expr(depth-1) + ")"
	case 16:
		return fns2[g.r.Intn(len(fns2))] + "(" + g.expr(depth-1) + ", " + g.expr(depth-1) + ")"
	case 17:
		return fnsRef[g.r.Intn(len(fnsRef))] + "(" + g.expr(depth-1) + ", &" + g.expr(depth-1) + ")"
	case 18:
		return "map(&" + g.expr(depth-1) + ", " + g.expr(depth-1) + ")"
	case 19:
		return "let $v = " + g.expr(depth-1) + " in " + g.pick("$v", "[$v, @]", "b[*].[$v]", g.expr(depth-1))
	case 20:
		return g.pick("replace", "pad_left", "split", "find_first") + "(" + g.expr(depth-1) + ", " + g.expr(depth-1) + ", " + g.expr(depth-1) + ")"
	default:
		return g.expr(depth-1) + ".{k: " + g.expr(depth-1) + "}"
	}
}

// edit applies one small change to a text: a character deleted, inserted, replaced or doubled, two
// neighbours swapped, the text cut short, or a bracketed / quoted part emptied of its closer.
func (g *gen) edit(e string) string {
	rs := []rune(e)
	if len(rs) == 0 {
		return g.pick("(", "]", "&", "`", "'", ".", "abs(", "a[", "$")
	}
	ins := []rune("()[]{}.,:|&*?!<>=-+/%@$'\"`\\ 0a_#~")
	i := g.r.Intn(len(rs))
	switch g.r.Intn(8) {
	case 0: // delete
		return string(rs[:i]) + string(rs[i+1:])
	case 1: // insert
		return string(rs[:i]) + string(ins[g.r.Intn(len(ins))]) + string(rs[i:])
	case 2: // replace
		rs[i] = ins[g.r.Intn(len(ins))]
		return string(rs)
	case 3: // double
		return string(rs[:i+1]) + string(rs[i:])
	case 4: // swap neighbours
		if i+1 < len(rs) {
			rs[i], rs[i+1] = rs[i+1], rs[i]
		}
		return string(rs)
	case 5: // cut short
		return string(rs[:i])
	case 6: // append something that continues an expression
		return e + g.pick(".", " |", " ||", "[", "[?", ".*", ", a", ")", " a", "(", " &&", ".[", "{", " ==", "[:", "`")
	default: // drop the first closer after i
		for j := i; j < len(rs); j++ {
			if strings.ContainsRune(")]}'`\"", rs[j]) {
				return string(rs[:j]) + string(rs[j+1:])
			}
		}
		return string(rs[:i])
	}
}

func recordMain(args []string) {
	fs := flag.NewFlagSet("record", flag.ExitOnError)
	outPath := fs.String("out", "events.ndjson", "event log")
	n := fs.Int("n", 3000, "number of random events")
	seed := fs.Int64("seed", 1, "seed")
	corpus := fs.String("corpus", "", "testdata directory of the repository (its expressions are recorded too)")
	mode := fs.String("mode", "general", "general | sort | unicode | mutate | typed | typedmutate | reexec")
	maxLen := fs.Int("maxlen", 200, "largest array in sort mode")
	inPath := fs.String("in", "", "mode reexec: a replay file holding a recorded event")
	fs.Parse(args)
	f, err := os.Create(*outPath)
	if err != nil {
		fmt.Fprintln(os.Stderr, err)
		os.Exit(2)
	}
	defer f.Close()
	w := bufio.NewWriter(f)
	defer w.Flush()
	written, skipped, panics := 0, 0, 0
	emit := func(id, expr string, doc any) {
		docTV := fromGo(doc)
		if ok, _ := docTV.plainJSON(); !ok || !smallEnough(docTV) {
			skipped++
			return
		}
		c := doSearch(expr, doc)
		if c.panicked {
			// reported as an event outside every admissible set
			panics++
			c.out = &TV{T: "err", CS: []string{"PANIC " + c.site}}
		}
		var out any
		if c.out.T == "err" {
			out = map[string]any{"t": "err", "cs": c.out.CS}
		} else {
			if ok, _ := c.out.plainJSON(); !ok {
				out = map[string]any{"t": "err", "cs": []string{"NONJSON " + c.out.T}}
			} else if !smallEnough(c.out) {
				skipped++
				return
			} else {
				out = c.out.toJSON()
			}
		}
		rec := map[string]any{"id": id, "expr": stringToCps(expr), "doc": docTV.toJSON(), "out": out}
		b, _ := json.Marshal(rec)
		w.Write(b)
		w.WriteByte('\n')
		written++
	}
	if *corpus != "" {
		files, _ := filepath.Glob(filepath.Join(*corpus, "*", "*.json"))
		sort.Strings(files)
		for _, path := range files {
			data, err := os.ReadFile(path)
			if err != nil {
				continue
			}
			d := json.NewDecoder(strings.NewReader(string(data)))
			d.UseNumber()
			var groups []struct {
				Given any `json:"given"`
				Cases []struct {
					Expression string `json:"expression"`
				} `json:"cases"`
			}
			if err := d.Decode(&groups); err != nil {
				continue
			}
			for gi, g := range groups {
				for ci, c := range g.Cases {
					emit(fmt.Sprintf("%s#%d.%d", filepath.Base(path), gi, ci), c.Expression, g.Given)
				}
			}
		}
	}
	g := &gen{rand.New(rand.NewSource(*seed))}
	if *mode == "reexec" {
		// bin/check <ID> --replay <file> for a rejected trace event: the recorded (expr, doc) is run through the
		// real Search again and the fresh event is written for TLC
		raw, err := os.ReadFile(*inPath)
		if err != nil {
			fmt.Fprintln(os.Stderr, err)
			os.Exit(2)
		}
		d := json.NewDecoder(strings.NewReader(string(raw)))
		d.UseNumber()
		var rep struct {
			Case struct {
				Expr any    `json:"expr"`
				Doc  any    `json:"doc"`
				ID   string `json:"id"`
			} `json:"case"`
		}
		if err := d.Decode(&rep); err != nil {
			fmt.Fprintln(os.Stderr, err)
			os.Exit(2)
		}
		text, err1 := cpsToString(rep.Case.Expr)
		docTV, err2 := fromJSON(rep.Case.Doc)
		if err1 != nil || err2 != nil {
			fmt.Fprintln(os.Stderr, err1, err2)
			os.Exit(2)
		}
		emit(rep.Case.ID, text, (&builder{}).build(docTV))
		fmt.Printf("{\"written\":%d,\"skipped\":%d,\"panics\":%d}\n", written, skipped, panics)
		return
	}
	switch *mode {
	case "sort":
		// arrays far beyond what TLC enumerates (13..200 elements, many ties)
		for i := 0; i < *n; i++ {
			ln := 13 + g.r.Intn(*maxLen-12)
			arr := make([]any, ln)
			strKeys := g.r.Intn(2) == 0
			mod := 1 + g.r.Intn(7)
			for k := range arr {
				var key any = json.Number(fmt.Sprint(g.r.Intn(mod) - 2))
				if strKeys {
					key = g.pick("a", "é", "b", "aa", "😀", "", "B", "€")[0:] + fmt.Sprint(g.r.Intn(mod) % 3)
				}
				arr[k] = map[string]any{"k": key, "p": json.Number(fmt.Sprint(k))}
			}
			doc := map[string]any{"x": arr}
			e := g.pick("sort_by(x, &k)[*].p", "sort_by(x, &k)", "max_by(x, &k).k", "min_by(x, &k).k", "sort(x[*].k)", "max(x[*].k)",
				"min(x[*].k)", "reverse(sort_by(x, &k))[*].p", "sort_by(x, &p)[0]", "sort_by(sort_by(x, &p), &k)[*].p", "length(group_by(x, &to_string(k)))",
				"sort_by(x[?p > `5`], &k)[*].p", "sort_by(x, &k)[::2][*].p", "x[*].k | sort(@) | [0]")
			emit(fmt.Sprintf("sort%d.%d", *seed, i), e, doc)
		}
		fmt.Printf("{\"written\":%d,\"skipped\":%d,\"panics\":%d}\n", written, skipped, panics)
		return
	case "unicode":
		alpha := []string{"a", "b", "é", "€", "😀", "\u0301", "\ufffd", "Z", " ", "ß", "\U00010000", "0"}
		rs := func() string {
			n := g.r.Intn(8)
			s := ""
			for i := 0; i < n; i++ {
				s += alpha[g.r.Intn(len(alpha))]
			}
			return s
		}
		q := func(s string) string { return "'" + s + "'" }
		for i := 0; i < *n; i++ {
			doc := map[string]any{"s": rs(), "t": rs(), "a": []any{rs(), rs(), rs()}}
			c := alpha[g.r.Intn(len(alpha))]
			k := fmt.Sprint(g.r.Intn(9) - 2)
			e := g.pick("length(s)", "reverse(s)", "s[::-1]", "s["+k+":]", "s[:"+k+"]", "s[::"+g.pick("2", "-2", "3")+"]", "find_first(s, "+q(c)+")",
				"find_last(s, "+q(c)+")", "find_first(s, "+q(c)+", `"+k+"`)", "find_last(s, t)", "pad_left(s, `"+k+"`, "+q(c)+")", "pad_right(s, `7`)",
				"split(s, "+q(c)+")", "split(s, '')", "split(s, '', `"+k+"`)", "sort(a)", "max(a)", "min(a)", "join(s, a)", "replace(s, "+q(c)+", t)",
				"starts_with(s, "+q(c)+")", "ends_with(s, t)", "contains(s, "+q(c)+")", "trim(s, "+q(c)+")", "sort_by(a, &@)", "s == t", "[s, t] | sort(@)",
				"replace(s, "+q(c)+", "+q(c+c)+", `"+k+"`)", "a[*].length(@)", "map(&reverse(@), a)")
			emit(fmt.Sprintf("uni%d.%d", *seed, i), e, doc)
		}
		fmt.Printf("{\"written\":%d,\"skipped\":%d,\"panics\":%d}\n", written, skipped, panics)
		return
	}
	if *mode == "typed" || *mode == "typedmutate" || *mode == "typedcarrier" {
		// type-directed grower (typed.go): expressions that mean something on the document they are run on;
		// typedmutate applies one to three small edits to each (lets, by-functions, filters and calls cut,
		// doubled or unbalanced: mostly outside the grammar, C04)
		tg := &tgen{r: g.r, root: typedSchema()}
		for i := 0; i < *n; i++ {
			doc := tg.doc()
			tg.vars = tg.vars[:0]
			e, _ := tg.expr(tg.root, 1+g.r.Intn(4))
			if *mode == "typedmutate" {
				for k := 1 + g.r.Intn(3); k > 0; k-- {
					e = g.edit(e)
				}
			}
			if *mode == "typedcarrier" {
				// C14: every number of the document in a randomly chosen native Go representation that holds
				// it exactly; the specification does not know the carrier, so the admissible set is the same
				doc = recarry(g.r, doc)
			}
			emit(fmt.Sprintf("typ%d.%d", *seed, i), e, doc)
		}
		fmt.Printf("{\"written\":%d,\"skipped\":%d,\"panics\":%d}\n", written, skipped, panics)
		return
	}
	mutate := *mode == "mutate"
	for i := 0; i < *n; i++ {
		doc := g.value(3)
		if g.r.Intn(3) > 0 {
			m, ok := doc.(map[string]any)
			if !ok {
				m = map[string]any{}
			}
			for _, k := range []string{"a", "b", "x"} {
				if _, has := m[k]; !has {
					m[k] = g.value(2)
				}
			}
			doc = m
		}
		e := g.expr(1 + g.r.Intn(4))
		if mutate {
			// a well-formed text with one to three small edits: most results are outside the
			// grammar (C04: a syntax error and nothing else), some are other well-formed texts
			for k := 1 + g.r.Intn(3); k > 0; k-- {
				e = g.edit(e)
			}
		}
		emit(fmt.Sprintf("rnd%d.%d", *seed, i), e, doc)
	}
	fmt.Printf("{\"written\":%d,\"skipped\":%d,\"panics\":%d}\n", written, skipped, panics)
}

var nativeKinds = []string{"float64", "float32", "float64", "int", "int64", "int32", "int16", "int8", "uint", "uint32", "uint16", "uint8", "json"}

// recarry rebuilds a document with each json.Number replaced by another Go representation of the same value
func recarry(r *rand.Rand, v any) any {
	switch x := v.(type) {
	case json.Number:
		tv := numTV(string(x))
		if tv.N.Sign() == 0 {
			// a float zero negated is the float -0, which to_string prints as "-0" (observed in round 11, the same
			// class as the recorded to_string findings of C14); zeros stay out of the float carriers here
			return int64(0)
		}
		for try := 0; try < 4; try++ {
			if c, ok := numCarrier(tv, nativeKinds[r.Intn(len(nativeKinds))]); ok {
				return c
			}
		}
		return x
	case []any:
		out := make([]any, len(x))
		for i := range x {
			out[i] = recarry(r, x[i])
		}
		return out
	case map[string]any:
		out := make(map[string]any, len(x))
		for k, e := range x {
			out[k] = recarry(r, e)
		}
		return out
	}
	return v
}
