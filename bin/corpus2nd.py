#!/usr/bin/env python3
"""Convert the repository's compliance corpus into ndjson cases for
Corpus.tla (calibration of the specification against the standard's own
corpus, DESIGN.md 4.3).  usage: corpus2nd.py <repo> <out.ndjson>"""
import sys, os, glob, json
sys.path.insert(0, os.path.join(os.path.dirname(os.path.abspath(__file__)), '..', 'lib'))
import tagged

def main():
    repo, out = sys.argv[1], sys.argv[2]
    n = skipped = 0
    with open(out, 'w') as w:
        for d in ('compliance', 'extra'):
            for path in sorted(glob.glob(os.path.join(repo, 'testdata', d, '*.json'))):
                groups = tagged.loads_keep_numbers(open(path, encoding='utf-8').read())
                for gi, g in enumerate(groups):
                    for ci, c in enumerate(g['cases']):
                        rec = {"id": "%s#%d.%d" % (os.path.basename(path), gi, ci),
                               "expr": tagged.cps(c['expression'])}
                        try:
                            rec["doc"] = tagged.tag(g['given'])
                            if 'error' in c:
                                rec["out"] = {"t": "err", "cs": [c['error']]}
                            else:
                                rec["out"] = tagged.tag(c['result'])
                        except tagged.BigNumber:
                            skipped += 1
                            continue
                        n += 1
                        w.write(json.dumps(rec, separators=(',', ':')) + '\n')
    print("corpus cases written: %d, skipped (numbers outside the small-decimal model): %d" % (n, skipped))

if __name__ == '__main__':
    main()
