\* GENERATED from GenPipe.tla.in by bin/tlapp -- edit the .in file
----------------------------- MODULE GenPipe -----------------------------
(***************************************************************************)
(* Results are plain JSON values, closed under re-query (property C18).    *)
(* Pairs (e1, e2): the harness searches e1, checks the result consists of  *)
(* JSON data only and survives encoding/json, feeds the Go value itself    *)
(* into a search of e2, and compares with searching (e1) | (e2) over the   *)
(* original document and with the specification.  e1 ranges over           *)
(* expressions that produce every kind of result the evaluator constructs  *)
(* (integers from counting functions, decimals from arithmetic, strings,   *)
(* fresh arrays and objects, literals returned by reference).              *)
(***************************************************************************)
EXTENDS JMES, Json, Toks, DocsCore, SequencesExt
CONSTANTS Emit, Prop
Docs == PoolCore
X == Id(<<120>>)  A == Id(<<97>>)  B == Id(<<98>>)
Fn(name, args) == <<Id(name), LP>> \o args \o <<RP>>
Tied == Json(<<96,91,123,34,107,34,58,49,44,34,115,34,58,34,98,34,44,34,112,34,58,49,125,44,123,34,107,34,58,50,44,34,115,34,58,34,97,34,44,34,112,34,58,50,125,44,123,34,107,34,58,48,44,34,115,34,58,34,98,34,44,34,112,34,58,51,125,44,123,34,107,34,58,50,44,34,115,34,58,34,97,34,44,34,112,34,58,52,125,44,123,34,107,34,58,48,44,34,115,34,58,34,99,34,44,34,112,34,58,53,125,44,123,34,107,34,58,50,44,34,115,34,58,34,98,34,44,34,112,34,58,54,125,93,96>>)
Nulls == Json(<<96,91,110,117,108,108,44,123,34,107,34,58,49,125,44,110,117,108,108,44,123,34,107,34,58,50,44,34,106,34,58,55,125,44,102,97,108,115,101,44,123,34,107,34,58,51,44,34,106,34,58,56,125,44,123,34,107,34,58,49,44,34,106,34,58,110,117,108,108,125,93,96>>)
E1 == { <<X>>, <<X, LB, Star, RB, Dot, A>>, <<Star>>, Fn(<<108,101,110,103,116,104>>, <<X>>), <<Json(<<96,49,96>>), PlusT, Json(<<96,50,96>>)>>,
        Fn(<<116,111,95,110,117,109,98,101,114>>, <<Raw(<<39,53,39>>)>>), Fn(<<107,101,121,115>>, <<CurT>>), <<X, LB, IntT(<<48>>), RB>>, Fn(<<116,111,95,115,116,114,105,110,103>>, <<B>>),
        Fn(<<109,101,114,103,101>>, <<CurT, Comma, Json(<<96,123,34,122,34,58,91,49,93,125,96>>)>>), <<X, Filt, A, RB>>, <<LBr, Id(<<107>>), Colon, X, Comma, Id(<<110>>), Colon>> \o Fn(<<108,101,110,103,116,104>>, <<CurT>>) \o <<RBr>>,
        <<LB, X, Comma, A, Comma, Json(<<96,49,46,53,96>>), RB>>, Fn(<<97,118,103>>, <<Json(<<96,91,49,44,50,93,96>>)>>), Fn(<<102,105,110,100,95,102,105,114,115,116>>, <<Raw(<<39,97,98,99,39>>), Comma, Raw(<<39,99,39>>)>>),
        Fn(<<97,98,115>>, <<Json(<<96,45,49,96>>)>>), Fn(<<115,117,109>>, <<B>>), <<Json(<<96,91,51,44,91,49,44,110,117,108,108,93,44,123,34,97,34,58,50,125,93,96>>)>>, Fn(<<116,121,112,101>>, <<X>>), <<X, Flat>>,
        Fn(<<105,116,101,109,115>>, <<CurT>>), Fn(<<115,112,108,105,116>>, <<Raw(<<39,97,44,98,39>>), Comma, Raw(<<39,44,39>>)>>), <<Json(<<96,55,96>>), IDivT, Json(<<96,50,96>>)>>,
        Fn(<<99,101,105,108>>, <<Json(<<96,49,46,50,96>>)>>), Fn(<<109,97,120>>, <<B>>), Fn(<<110,111,116,95,110,117,108,108>>, <<A, Comma, B>>), <<A, EqT, B>>, Fn(<<118,97,108,117,101,115>>, <<CurT>>),
        Fn(<<116,111,95,110,117,109,98,101,114>>, <<Raw(<<39,48,48,48,48,48,48,48,48,48,48,48,48,48,48,48,48,48,48,48,48,48,48,48,48,48,48,48,48,48,48,48,48,48,48,48,48,48,48,52,50,39>>)>>), Fn(<<116,111,95,110,117,109,98,101,114>>, <<Raw(<<39,43,49,50,51,52,53,54,55,56,57,48,49,50,51,52,53,54,55,56,57,48,49,50,51,52,53,54,55,56,57,48,49,50,51,52,53,54,39>>)>>),
        Fn(<<116,111,95,110,117,109,98,101,114>>, <<Raw(<<39,49,46,48,48,48,48,48,48,48,48,48,48,48,48,48,48,48,48,48,48,48,48,48,48,48,48,48,48,48,48,48,48,48,48,48,48,48,48,48,48,48,48,39>>)>>), Fn(<<116,111,95,110,117,109,98,101,114>>, <<Raw(<<39,49,50,51,52,53,54,55,56,57,48,49,50,51,52,53,54,55,56,57,48,49,50,51,52,53,54,55,56,57,48,49,50,51,52,53,54,55,56,57,48,49,50,51,52,53,54,55,56,57,48,39>>)>>),
        Fn(<<116,111,95,110,117,109,98,101,114>>, <<Raw(<<39,46,53,39>>)>>), Fn(<<116,111,95,110,117,109,98,101,114>>, <<Raw(<<39,53,46,39>>)>>), Fn(<<116,111,95,110,117,109,98,101,114>>, <<Raw(<<39,49,101,53,48,48,48,39>>)>>), Fn(<<116,111,95,110,117,109,98,101,114>>, <<Raw(<<39,32,49,39>>)>>),
        Fn(<<116,111,95,110,117,109,98,101,114>>, <<Raw(<<39,78,97,78,39>>)>>), Fn(<<116,111,95,110,117,109,98,101,114>>, <<Raw(<<39,73,110,102,105,110,105,116,121,39>>)>>), Fn(<<116,111,95,110,117,109,98,101,114>>, <<Raw(<<39,45,105,110,102,39>>)>>),
        <<LB>> \o Fn(<<116,111,95,110,117,109,98,101,114>>, <<Raw(<<39,110,97,110,39>>)>>) \o <<Comma>> \o Fn(<<116,111,95,110,117,109,98,101,114>>, <<Raw(<<39,43,73,110,102,39>>)>>) \o <<RB>>,
        Fn(<<109,97,112>>, <<AmpT>> \o Fn(<<108,101,110,103,116,104>>, Fn(<<116,111,95,97,114,114,97,121>>, <<CurT>>)) \o <<Comma>> \o Fn(<<116,111,95,97,114,114,97,121>>, <<X>>)),
        \* every function that builds or reorders an array, on an array with TIED keys and distinguishable elements
        \* (what "the first" and "the last" of the result are is pinned by the stable order), so that a form
        \* fused with the index or slice that follows a pipe is compared with the two-step evaluation
        Fn(<<115,111,114,116,95,98,121>>, <<Tied, Comma, AmpT, Id(<<107>>)>>), Fn(<<115,111,114,116,95,98,121>>, <<Tied, Comma, AmpT, Id(<<115>>)>>),
        Fn(<<114,101,118,101,114,115,101>>, <<Tied>>), Fn(<<115,111,114,116>>, <<Tied, LB, Star, RB, Dot, Id(<<107>>)>>), Fn(<<109,97,112>>, <<AmpT, Id(<<112>>), Comma, Tied>>),
        Fn(<<109,97,120,95,98,121>>, <<Tied, Comma, AmpT, Id(<<107>>)>>), Fn(<<109,105,110,95,98,121>>, <<Tied, Comma, AmpT, Id(<<107>>)>>),
        Fn(<<118,97,108,117,101,115>>, Fn(<<103,114,111,117,112,95,98,121>>, <<Tied, Comma, AmpT, Id(<<115>>)>>)), <<Tied>> \o <<Filt, Id(<<107>>), GtT, Json(<<96,48,96>>), RB>>,
        <<Tied>> \o <<LB, Colon, Colon, IntT(<<45,49>>), RB>>, Fn(<<122,105,112>>, <<Tied, Comma, Tied>>), Fn(<<116,111,95,97,114,114,97,121>>, <<Tied>>), <<Tied>> \o <<LB, Star, RB>>,
        \* projections over an array with NULL elements in front of and between the others, under predicates that
        \* hold for null and right-hand sides that are null for some elements: what a projection drops must be
        \* dropped before an index that follows a pipe counts
        <<Nulls, Filt, Id(<<107>>), NeT, Json(<<96,50,96>>), RB>>, <<Nulls, Filt, NotT, CurT, RB>>, <<Nulls, Filt, CurT, EqT, Json(<<96,110,117,108,108,96>>), RB>>,
        <<Nulls, Filt, NotT, Id(<<106>>), RB>>, <<Nulls, Filt, Id(<<107>>), NeT, Json(<<96,50,96>>), RB, Dot, Id(<<106>>)>>, <<Nulls, Filt, CurT, RB, Dot, Id(<<106>>)>>,
        <<Nulls, LB, Star, RB>>, <<Nulls, LB, Star, RB, Dot, Id(<<106>>)>>, <<Nulls, Flat>>, <<Nulls, Flat, Dot, Id(<<106>>)>>, <<Nulls, LB, Colon, RB>>,
        <<Nulls, LB, IntT(<<49>>), Colon, RB, Dot, Id(<<106>>)>>, Fn(<<109,97,112>>, <<AmpT, Id(<<106>>), Comma, Nulls>>), Fn(<<110,111,116,95,110,117,108,108>>, <<Nulls>>) }
E2 == { <<CurT>>, <<LB, IntT(<<48>>), RB>>, <<LB, Star, RB>>, <<A>>, Fn(<<108,101,110,103,116,104>>, <<CurT>>), Fn(<<116,121,112,101>>, <<CurT>>),
        <<CurT, EqT, CurT>>, Fn(<<116,111,95,115,116,114,105,110,103>>, <<CurT>>), Fn(<<115,111,114,116>>, <<CurT>>), <<Flat>>, Fn(<<107,101,121,115>>, <<CurT>>),
        <<CurT, PlusT, Json(<<96,49,96>>)>>, <<LB, Star, RB, Dot, A>>, Fn(<<116,111,95,97,114,114,97,121>>, <<CurT>>), Fn(<<114,101,118,101,114,115,101>>, <<CurT>>),
        Fn(<<110,111,116,95,110,117,108,108>>, <<CurT, Comma, Json(<<96,49,96>>)>>), <<LB, IntT(<<45,49>>), RB, Dot, A>>, Fn(<<115,117,109>>, <<CurT>>), <<CurT, LtT, Json(<<96,51,96>>)>>,
        <<Star>>, Fn(<<97,98,115>>, <<CurT>>), Fn(<<116,111,95,110,117,109,98,101,114>>, <<CurT>>), <<LB, Colon, Colon, IntT(<<45,49>>), RB>>, <<CurT, Filt, CurT, RB>>,
        <<LB, IntT(<<45,49>>), RB>>, <<LB, IntT(<<49>>), RB>>, <<LB, IntT(<<45,50>>), RB>>, <<LB, IntT(<<48>>), RB, Dot, Id(<<112>>)>>, <<LB, IntT(<<45,49>>), RB, Dot, Id(<<112>>)>>,
        <<LB, IntT(<<49>>), Colon, RB>>, <<LB, Colon, IntT(<<49>>), RB>>, <<LB, IntT(<<45,49>>), Colon, RB>>, <<LB, Star, RB, Dot, Id(<<112>>)>>,
        Fn(<<108,101,110,103,116,104>>, <<CurT>>) \o <<EqT, Json(<<96,54,96>>)>>, <<LB, Filt, Id(<<107>>), EqT, Json(<<96,50,96>>), RB, RB>>, <<Filt, Id(<<107>>), EqT, Json(<<96,50,96>>), RB, PipeT, LB, IntT(<<48>>), RB>> }
Pairs == SetToSeq(E1 \X E2)
VARIABLES bucket, idx
NB == 64
Init == bucket \in 0..(NB - 1) /\ idx = 0
Next == idx = 0 /\ \E i \in 1..Len(Pairs) : i % NB = bucket /\ idx' = i /\ UNCHANGED bucket
Spec == Init /\ [][Next]_<<bucket, idx>>

Check == idx > 0 =>
  LET e1 == Pairs[idx][1]  e2 == Pairs[idx][2]
      piped == <<LP>> \o e1 \o <<RP, PipeT, LP>> \o e2 \o <<RP>>
      adms == [d \in 1..Len(Docs) |-> Admissible(piped, Docs[d])]
      \* (neither text contains a pipe or anything that binds looser, so the parentheses are redundant)
      bare == e1 \o <<PipeT>> \o e2
      case == [p |-> Prop, kind |-> "pipe2", expr |-> Render(e1), expr2 |-> Render(e2), expr3 |-> Render(piped), expr4 |-> Render(bare),
               pool |-> "Core", adms |-> adms]
  IN /\ Emit => PrintT("CASE " \o ToJson(case))
     \* the pipe law holds in the specification: evaluating e2 on the value of e1
     /\ Named(\A d \in 1..Len(Docs) :
                LET c1 == Compile(e1, DefaultMode)  c2 == Compile(e2, DefaultMode)  cp == Compile(piped, DefaultMode)
                    v1 == OutcomeOf(c1, Docs[d]) IN
                  (c1.ok /\ c2.ok /\ cp.ok /\ IsVal(v1)) =>
                      Eval(c2.n, v1, v1, EmptyEnv) = OutcomeOf(cp, Docs[d]), "PipeLaw")
     /\ Named(\A d \in 1..Len(Docs) : \A o \in adms[d] : IsVal(o) => IsJValue(o), "Closed")
     /\ Named(\A d \in 1..Len(Docs) : Admissible(bare, Docs[d]) = adms[d], "ParenthesesRedundant")
=============================================================================
