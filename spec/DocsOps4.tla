\* GENERATED from Ops4.json by lib/tlagen.py
---- MODULE DocsOps4 ----
EXTENDS JValue
PoolOps4 == <<
  \* {"x": "0", "y": "0", "z": "0", "w": "0"}
  Obj(<<Mem(<<119>>, JInt(0)), Mem(<<120>>, JInt(0)), Mem(<<121>>, JInt(0)), Mem(<<122>>, JInt(0))>>),
  \* {"x": "0", "y": "0", "z": "0", "w": "1"}
  Obj(<<Mem(<<119>>, JInt(1)), Mem(<<120>>, JInt(0)), Mem(<<121>>, JInt(0)), Mem(<<122>>, JInt(0))>>),
  \* {"x": "0", "y": "0", "z": "0", "w": null}
  Obj(<<Mem(<<119>>, Null), Mem(<<120>>, JInt(0)), Mem(<<121>>, JInt(0)), Mem(<<122>>, JInt(0))>>),
  \* {"x": "0", "y": "0", "z": "0", "w": "a"}
  Obj(<<Mem(<<119>>, Str(<<97>>)), Mem(<<120>>, JInt(0)), Mem(<<121>>, JInt(0)), Mem(<<122>>, JInt(0))>>),
  \* {"x": "0", "y": "0", "z": "1", "w": "0"}
  Obj(<<Mem(<<119>>, JInt(0)), Mem(<<120>>, JInt(0)), Mem(<<121>>, JInt(0)), Mem(<<122>>, JInt(1))>>),
  \* {"x": "0", "y": "0", "z": "1", "w": "1"}
  Obj(<<Mem(<<119>>, JInt(1)), Mem(<<120>>, JInt(0)), Mem(<<121>>, JInt(0)), Mem(<<122>>, JInt(1))>>),
  \* {"x": "0", "y": "0", "z": "1", "w": null}
  Obj(<<Mem(<<119>>, Null), Mem(<<120>>, JInt(0)), Mem(<<121>>, JInt(0)), Mem(<<122>>, JInt(1))>>),
  \* {"x": "0", "y": "0", "z": "1", "w": "a"}
  Obj(<<Mem(<<119>>, Str(<<97>>)), Mem(<<120>>, JInt(0)), Mem(<<121>>, JInt(0)), Mem(<<122>>, JInt(1))>>),
  \* {"x": "0", "y": "0", "z": null, "w": "0"}
  Obj(<<Mem(<<119>>, JInt(0)), Mem(<<120>>, JInt(0)), Mem(<<121>>, JInt(0)), Mem(<<122>>, Null)>>),
  \* {"x": "0", "y": "0", "z": null, "w": "1"}
  Obj(<<Mem(<<119>>, JInt(1)), Mem(<<120>>, JInt(0)), Mem(<<121>>, JInt(0)), Mem(<<122>>, Null)>>),
  \* {"x": "0", "y": "0", "z": null, "w": null}
  Obj(<<Mem(<<119>>, Null), Mem(<<120>>, JInt(0)), Mem(<<121>>, JInt(0)), Mem(<<122>>, Null)>>),
  \* {"x": "0", "y": "0", "z": null, "w": "a"}
  Obj(<<Mem(<<119>>, Str(<<97>>)), Mem(<<120>>, JInt(0)), Mem(<<121>>, JInt(0)), Mem(<<122>>, Null)>>),
  \* {"x": "0", "y": "0", "z": "a", "w": "0"}
  Obj(<<Mem(<<119>>, JInt(0)), Mem(<<120>>, JInt(0)), Mem(<<121>>, JInt(0)), Mem(<<122>>, Str(<<97>>))>>),
  \* {"x": "0", "y": "0", "z": "a", "w": "1"}
  Obj(<<Mem(<<119>>, JInt(1)), Mem(<<120>>, JInt(0)), Mem(<<121>>, JInt(0)), Mem(<<122>>, Str(<<97>>))>>),
  \* {"x": "0", "y": "0", "z": "a", "w": null}
  Obj(<<Mem(<<119>>, Null), Mem(<<120>>, JInt(0)), Mem(<<121>>, JInt(0)), Mem(<<122>>, Str(<<97>>))>>),
  \* {"x": "0", "y": "0", "z": "a", "w": "a"}
  Obj(<<Mem(<<119>>, Str(<<97>>)), Mem(<<120>>, JInt(0)), Mem(<<121>>, JInt(0)), Mem(<<122>>, Str(<<97>>))>>),
  \* {"x": "0", "y": "1", "z": "0", "w": "0"}
  Obj(<<Mem(<<119>>, JInt(0)), Mem(<<120>>, JInt(0)), Mem(<<121>>, JInt(1)), Mem(<<122>>, JInt(0))>>),
  \* {"x": "0", "y": "1", "z": "0", "w": "1"}
  Obj(<<Mem(<<119>>, JInt(1)), Mem(<<120>>, JInt(0)), Mem(<<121>>, JInt(1)), Mem(<<122>>, JInt(0))>>),
  \* {"x": "0", "y": "1", "z": "0", "w": null}
  Obj(<<Mem(<<119>>, Null), Mem(<<120>>, JInt(0)), Mem(<<121>>, JInt(1)), Mem(<<122>>, JInt(0))>>),
  \* {"x": "0", "y": "1", "z": "0", "w": "a"}
  Obj(<<Mem(<<119>>, Str(<<97>>)), Mem(<<120>>, JInt(0)), Mem(<<121>>, JInt(1)), Mem(<<122>>, JInt(0))>>),
  \* {"x": "0", "y": "1", "z": "1", "w": "0"}
  Obj(<<Mem(<<119>>, JInt(0)), Mem(<<120>>, JInt(0)), Mem(<<121>>, JInt(1)), Mem(<<122>>, JInt(1))>>),
  \* {"x": "0", "y": "1", "z": "1", "w": "1"}
  Obj(<<Mem(<<119>>, JInt(1)), Mem(<<120>>, JInt(0)), Mem(<<121>>, JInt(1)), Mem(<<122>>, JInt(1))>>),
  \* {"x": "0", "y": "1", "z": "1", "w": null}
  Obj(<<Mem(<<119>>, Null), Mem(<<120>>, JInt(0)), Mem(<<121>>, JInt(1)), Mem(<<122>>, JInt(1))>>),
  \* {"x": "0", "y": "1", "z": "1", "w": "a"}
  Obj(<<Mem(<<119>>, Str(<<97>>)), Mem(<<120>>, JInt(0)), Mem(<<121>>, JInt(1)), Mem(<<122>>, JInt(1))>>),
  \* {"x": "0", "y": "1", "z": null, "w": "0"}
  Obj(<<Mem(<<119>>, JInt(0)), Mem(<<120>>, JInt(0)), Mem(<<121>>, JInt(1)), Mem(<<122>>, Null)>>),
  \* {"x": "0", "y": "1", "z": null, "w": "1"}
  Obj(<<Mem(<<119>>, JInt(1)), Mem(<<120>>, JInt(0)), Mem(<<121>>, JInt(1)), Mem(<<122>>, Null)>>),
  \* {"x": "0", "y": "1", "z": null, "w": null}
  Obj(<<Mem(<<119>>, Null), Mem(<<120>>, JInt(0)), Mem(<<121>>, JInt(1)), Mem(<<122>>, Null)>>),
  \* {"x": "0", "y": "1", "z": null, "w": "a"}
  Obj(<<Mem(<<119>>, Str(<<97>>)), Mem(<<120>>, JInt(0)), Mem(<<121>>, JInt(1)), Mem(<<122>>, Null)>>),
  \* {"x": "0", "y": "1", "z": "a", "w": "0"}
  Obj(<<Mem(<<119>>, JInt(0)), Mem(<<120>>, JInt(0)), Mem(<<121>>, JInt(1)), Mem(<<122>>, Str(<<97>>))>>),
  \* {"x": "0", "y": "1", "z": "a", "w": "1"}
  Obj(<<Mem(<<119>>, JInt(1)), Mem(<<120>>, JInt(0)), Mem(<<121>>, JInt(1)), Mem(<<122>>, Str(<<97>>))>>),
  \* {"x": "0", "y": "1", "z": "a", "w": null}
  Obj(<<Mem(<<119>>, Null), Mem(<<120>>, JInt(0)), Mem(<<121>>, JInt(1)), Mem(<<122>>, Str(<<97>>))>>),
  \* {"x": "0", "y": "1", "z": "a", "w": "a"}
  Obj(<<Mem(<<119>>, Str(<<97>>)), Mem(<<120>>, JInt(0)), Mem(<<121>>, JInt(1)), Mem(<<122>>, Str(<<97>>))>>),
  \* {"x": "0", "y": null, "z": "0", "w": "0"}
  Obj(<<Mem(<<119>>, JInt(0)), Mem(<<120>>, JInt(0)), Mem(<<121>>, Null), Mem(<<122>>, JInt(0))>>),
  \* {"x": "0", "y": null, "z": "0", "w": "1"}
  Obj(<<Mem(<<119>>, JInt(1)), Mem(<<120>>, JInt(0)), Mem(<<121>>, Null), Mem(<<122>>, JInt(0))>>),
  \* {"x": "0", "y": null, "z": "0", "w": null}
  Obj(<<Mem(<<119>>, Null), Mem(<<120>>, JInt(0)), Mem(<<121>>, Null), Mem(<<122>>, JInt(0))>>),
  \* {"x": "0", "y": null, "z": "0", "w": "a"}
  Obj(<<Mem(<<119>>, Str(<<97>>)), Mem(<<120>>, JInt(0)), Mem(<<121>>, Null), Mem(<<122>>, JInt(0))>>),
  \* {"x": "0", "y": null, "z": "1", "w": "0"}
  Obj(<<Mem(<<119>>, JInt(0)), Mem(<<120>>, JInt(0)), Mem(<<121>>, Null), Mem(<<122>>, JInt(1))>>),
  \* {"x": "0", "y": null, "z": "1", "w": "1"}
  Obj(<<Mem(<<119>>, JInt(1)), Mem(<<120>>, JInt(0)), Mem(<<121>>, Null), Mem(<<122>>, JInt(1))>>),
  \* {"x": "0", "y": null, "z": "1", "w": null}
  Obj(<<Mem(<<119>>, Null), Mem(<<120>>, JInt(0)), Mem(<<121>>, Null), Mem(<<122>>, JInt(1))>>),
  \* {"x": "0", "y": null, "z": "1", "w": "a"}
  Obj(<<Mem(<<119>>, Str(<<97>>)), Mem(<<120>>, JInt(0)), Mem(<<121>>, Null), Mem(<<122>>, JInt(1))>>),
  \* {"x": "0", "y": null, "z": null, "w": "0"}
  Obj(<<Mem(<<119>>, JInt(0)), Mem(<<120>>, JInt(0)), Mem(<<121>>, Null), Mem(<<122>>, Null)>>),
  \* {"x": "0", "y": null, "z": null, "w": "1"}
  Obj(<<Mem(<<119>>, JInt(1)), Mem(<<120>>, JInt(0)), Mem(<<121>>, Null), Mem(<<122>>, Null)>>),
  \* {"x": "0", "y": null, "z": null, "w": null}
  Obj(<<Mem(<<119>>, Null), Mem(<<120>>, JInt(0)), Mem(<<121>>, Null), Mem(<<122>>, Null)>>),
  \* {"x": "0", "y": null, "z": null, "w": "a"}
  Obj(<<Mem(<<119>>, Str(<<97>>)), Mem(<<120>>, JInt(0)), Mem(<<121>>, Null), Mem(<<122>>, Null)>>),
  \* {"x": "0", "y": null, "z": "a", "w": "0"}
  Obj(<<Mem(<<119>>, JInt(0)), Mem(<<120>>, JInt(0)), Mem(<<121>>, Null), Mem(<<122>>, Str(<<97>>))>>),
  \* {"x": "0", "y": null, "z": "a", "w": "1"}
  Obj(<<Mem(<<119>>, JInt(1)), Mem(<<120>>, JInt(0)), Mem(<<121>>, Null), Mem(<<122>>, Str(<<97>>))>>),
  \* {"x": "0", "y": null, "z": "a", "w": null}
  Obj(<<Mem(<<119>>, Null), Mem(<<120>>, JInt(0)), Mem(<<121>>, Null), Mem(<<122>>, Str(<<97>>))>>),
  \* {"x": "0", "y": null, "z": "a", "w": "a"}
  Obj(<<Mem(<<119>>, Str(<<97>>)), Mem(<<120>>, JInt(0)), Mem(<<121>>, Null), Mem(<<122>>, Str(<<97>>))>>),
  \* {"x": "0", "y": "a", "z": "0", "w": "0"}
  Obj(<<Mem(<<119>>, JInt(0)), Mem(<<120>>, JInt(0)), Mem(<<121>>, Str(<<97>>)), Mem(<<122>>, JInt(0))>>),
  \* {"x": "0", "y": "a", "z": "0", "w": "1"}
  Obj(<<Mem(<<119>>, JInt(1)), Mem(<<120>>, JInt(0)), Mem(<<121>>, Str(<<97>>)), Mem(<<122>>, JInt(0))>>),
  \* {"x": "0", "y": "a", "z": "0", "w": null}
  Obj(<<Mem(<<119>>, Null), Mem(<<120>>, JInt(0)), Mem(<<121>>, Str(<<97>>)), Mem(<<122>>, JInt(0))>>),
  \* {"x": "0", "y": "a", "z": "0", "w": "a"}
  Obj(<<Mem(<<119>>, Str(<<97>>)), Mem(<<120>>, JInt(0)), Mem(<<121>>, Str(<<97>>)), Mem(<<122>>, JInt(0))>>),
  \* {"x": "0", "y": "a", "z": "1", "w": "0"}
  Obj(<<Mem(<<119>>, JInt(0)), Mem(<<120>>, JInt(0)), Mem(<<121>>, Str(<<97>>)), Mem(<<122>>, JInt(1))>>),
  \* {"x": "0", "y": "a", "z": "1", "w": "1"}
  Obj(<<Mem(<<119>>, JInt(1)), Mem(<<120>>, JInt(0)), Mem(<<121>>, Str(<<97>>)), Mem(<<122>>, JInt(1))>>),
  \* {"x": "0", "y": "a", "z": "1", "w": null}
  Obj(<<Mem(<<119>>, Null), Mem(<<120>>, JInt(0)), Mem(<<121>>, Str(<<97>>)), Mem(<<122>>, JInt(1))>>),
  \* {"x": "0", "y": "a", "z": "1", "w": "a"}
  Obj(<<Mem(<<119>>, Str(<<97>>)), Mem(<<120>>, JInt(0)), Mem(<<121>>, Str(<<97>>)), Mem(<<122>>, JInt(1))>>),
  \* {"x": "0", "y": "a", "z": null, "w": "0"}
  Obj(<<Mem(<<119>>, JInt(0)), Mem(<<120>>, JInt(0)), Mem(<<121>>, Str(<<97>>)), Mem(<<122>>, Null)>>),
  \* {"x": "0", "y": "a", "z": null, "w": "1"}
  Obj(<<Mem(<<119>>, JInt(1)), Mem(<<120>>, JInt(0)), Mem(<<121>>, Str(<<97>>)), Mem(<<122>>, Null)>>),
  \* {"x": "0", "y": "a", "z": null, "w": null}
  Obj(<<Mem(<<119>>, Null), Mem(<<120>>, JInt(0)), Mem(<<121>>, Str(<<97>>)), Mem(<<122>>, Null)>>),
  \* {"x": "0", "y": "a", "z": null, "w": "a"}
  Obj(<<Mem(<<119>>, Str(<<97>>)), Mem(<<120>>, JInt(0)), Mem(<<121>>, Str(<<97>>)), Mem(<<122>>, Null)>>),
  \* {"x": "0", "y": "a", "z": "a", "w": "0"}
  Obj(<<Mem(<<119>>, JInt(0)), Mem(<<120>>, JInt(0)), Mem(<<121>>, Str(<<97>>)), Mem(<<122>>, Str(<<97>>))>>),
  \* {"x": "0", "y": "a", "z": "a", "w": "1"}
  Obj(<<Mem(<<119>>, JInt(1)), Mem(<<120>>, JInt(0)), Mem(<<121>>, Str(<<97>>)), Mem(<<122>>, Str(<<97>>))>>),
  \* {"x": "0", "y": "a", "z": "a", "w": null}
  Obj(<<Mem(<<119>>, Null), Mem(<<120>>, JInt(0)), Mem(<<121>>, Str(<<97>>)), Mem(<<122>>, Str(<<97>>))>>),
  \* {"x": "0", "y": "a", "z": "a", "w": "a"}
  Obj(<<Mem(<<119>>, Str(<<97>>)), Mem(<<120>>, JInt(0)), Mem(<<121>>, Str(<<97>>)), Mem(<<122>>, Str(<<97>>))>>),
  \* {"x": "1", "y": "0", "z": "0", "w": "0"}
  Obj(<<Mem(<<119>>, JInt(0)), Mem(<<120>>, JInt(1)), Mem(<<121>>, JInt(0)), Mem(<<122>>, JInt(0))>>),
  \* {"x": "1", "y": "0", "z": "0", "w": "1"}
  Obj(<<Mem(<<119>>, JInt(1)), Mem(<<120>>, JInt(1)), Mem(<<121>>, JInt(0)), Mem(<<122>>, JInt(0))>>),
  \* {"x": "1", "y": "0", "z": "0", "w": null}
  Obj(<<Mem(<<119>>, Null), Mem(<<120>>, JInt(1)), Mem(<<121>>, JInt(0)), Mem(<<122>>, JInt(0))>>),
  \* {"x": "1", "y": "0", "z": "0", "w": "a"}
  Obj(<<Mem(<<119>>, Str(<<97>>)), Mem(<<120>>, JInt(1)), Mem(<<121>>, JInt(0)), Mem(<<122>>, JInt(0))>>),
  \* {"x": "1", "y": "0", "z": "1", "w": "0"}
  Obj(<<Mem(<<119>>, JInt(0)), Mem(<<120>>, JInt(1)), Mem(<<121>>, JInt(0)), Mem(<<122>>, JInt(1))>>),
  \* {"x": "1", "y": "0", "z": "1", "w": "1"}
  Obj(<<Mem(<<119>>, JInt(1)), Mem(<<120>>, JInt(1)), Mem(<<121>>, JInt(0)), Mem(<<122>>, JInt(1))>>),
  \* {"x": "1", "y": "0", "z": "1", "w": null}
  Obj(<<Mem(<<119>>, Null), Mem(<<120>>, JInt(1)), Mem(<<121>>, JInt(0)), Mem(<<122>>, JInt(1))>>),
  \* {"x": "1", "y": "0", "z": "1", "w": "a"}
  Obj(<<Mem(<<119>>, Str(<<97>>)), Mem(<<120>>, JInt(1)), Mem(<<121>>, JInt(0)), Mem(<<122>>, JInt(1))>>),
  \* {"x": "1", "y": "0", "z": null, "w": "0"}
  Obj(<<Mem(<<119>>, JInt(0)), Mem(<<120>>, JInt(1)), Mem(<<121>>, JInt(0)), Mem(<<122>>, Null)>>),
  \* {"x": "1", "y": "0", "z": null, "w": "1"}
  Obj(<<Mem(<<119>>, JInt(1)), Mem(<<120>>, JInt(1)), Mem(<<121>>, JInt(0)), Mem(<<122>>, Null)>>),
  \* {"x": "1", "y": "0", "z": null, "w": null}
  Obj(<<Mem(<<119>>, Null), Mem(<<120>>, JInt(1)), Mem(<<121>>, JInt(0)), Mem(<<122>>, Null)>>),
  \* {"x": "1", "y": "0", "z": null, "w": "a"}
  Obj(<<Mem(<<119>>, Str(<<97>>)), Mem(<<120>>, JInt(1)), Mem(<<121>>, JInt(0)), Mem(<<122>>, Null)>>),
  \* {"x": "1", "y": "0", "z": "a", "w": "0"}
  Obj(<<Mem(<<119>>, JInt(0)), Mem(<<120>>, JInt(1)), Mem(<<121>>, JInt(0)), Mem(<<122>>, Str(<<97>>))>>),
  \* {"x": "1", "y": "0", "z": "a", "w": "1"}
  Obj(<<Mem(<<119>>, JInt(1)), Mem(<<120>>, JInt(1)), Mem(<<121>>, JInt(0)), Mem(<<122>>, Str(<<97>>))>>),
  \* {"x": "1", "y": "0", "z": "a", "w": null}
  Obj(<<Mem(<<119>>, Null), Mem(<<120>>, JInt(1)), Mem(<<121>>, JInt(0)), Mem(<<122>>, Str(<<97>>))>>),
  \* {"x": "1", "y": "0", "z": "a", "w": "a"}
  Obj(<<Mem(<<119>>, Str(<<97>>)), Mem(<<120>>, JInt(1)), Mem(<<121>>, JInt(0)), Mem(<<122>>, Str(<<97>>))>>),
  \* {"x": "1", "y": "1", "z": "0", "w": "0"}
  Obj(<<Mem(<<119>>, JInt(0)), Mem(<<120>>, JInt(1)), Mem(<<121>>, JInt(1)), Mem(<<122>>, JInt(0))>>),
  \* {"x": "1", "y": "1", "z": "0", "w": "1"}
  Obj(<<Mem(<<119>>, JInt(1)), Mem(<<120>>, JInt(1)), Mem(<<121>>, JInt(1)), Mem(<<122>>, JInt(0))>>),
  \* {"x": "1", "y": "1", "z": "0", "w": null}
  Obj(<<Mem(<<119>>, Null), Mem(<<120>>, JInt(1)), Mem(<<121>>, JInt(1)), Mem(<<122>>, JInt(0))>>),
  \* {"x": "1", "y": "1", "z": "0", "w": "a"}
  Obj(<<Mem(<<119>>, Str(<<97>>)), Mem(<<120>>, JInt(1)), Mem(<<121>>, JInt(1)), Mem(<<122>>, JInt(0))>>),
  \* {"x": "1", "y": "1", "z": "1", "w": "0"}
  Obj(<<Mem(<<119>>, JInt(0)), Mem(<<120>>, JInt(1)), Mem(<<121>>, JInt(1)), Mem(<<122>>, JInt(1))>>),
  \* {"x": "1", "y": "1", "z": "1", "w": "1"}
  Obj(<<Mem(<<119>>, JInt(1)), Mem(<<120>>, JInt(1)), Mem(<<121>>, JInt(1)), Mem(<<122>>, JInt(1))>>),
  \* {"x": "1", "y": "1", "z": "1", "w": null}
  Obj(<<Mem(<<119>>, Null), Mem(<<120>>, JInt(1)), Mem(<<121>>, JInt(1)), Mem(<<122>>, JInt(1))>>),
  \* {"x": "1", "y": "1", "z": "1", "w": "a"}
  Obj(<<Mem(<<119>>, Str(<<97>>)), Mem(<<120>>, JInt(1)), Mem(<<121>>, JInt(1)), Mem(<<122>>, JInt(1))>>),
  \* {"x": "1", "y": "1", "z": null, "w": "0"}
  Obj(<<Mem(<<119>>, JInt(0)), Mem(<<120>>, JInt(1)), Mem(<<121>>, JInt(1)), Mem(<<122>>, Null)>>),
  \* {"x": "1", "y": "1", "z": null, "w": "1"}
  Obj(<<Mem(<<119>>, JInt(1)), Mem(<<120>>, JInt(1)), Mem(<<121>>, JInt(1)), Mem(<<122>>, Null)>>),
  \* {"x": "1", "y": "1", "z": null, "w": null}
  Obj(<<Mem(<<119>>, Null), Mem(<<120>>, JInt(1)), Mem(<<121>>, JInt(1)), Mem(<<122>>, Null)>>),
  \* {"x": "1", "y": "1", "z": null, "w": "a"}
  Obj(<<Mem(<<119>>, Str(<<97>>)), Mem(<<120>>, JInt(1)), Mem(<<121>>, JInt(1)), Mem(<<122>>, Null)>>),
  \* {"x": "1", "y": "1", "z": "a", "w": "0"}
  Obj(<<Mem(<<119>>, JInt(0)), Mem(<<120>>, JInt(1)), Mem(<<121>>, JInt(1)), Mem(<<122>>, Str(<<97>>))>>),
  \* {"x": "1", "y": "1", "z": "a", "w": "1"}
  Obj(<<Mem(<<119>>, JInt(1)), Mem(<<120>>, JInt(1)), Mem(<<121>>, JInt(1)), Mem(<<122>>, Str(<<97>>))>>),
  \* {"x": "1", "y": "1", "z": "a", "w": null}
  Obj(<<Mem(<<119>>, Null), Mem(<<120>>, JInt(1)), Mem(<<121>>, JInt(1)), Mem(<<122>>, Str(<<97>>))>>),
  \* {"x": "1", "y": "1", "z": "a", "w": "a"}
  Obj(<<Mem(<<119>>, Str(<<97>>)), Mem(<<120>>, JInt(1)), Mem(<<121>>, JInt(1)), Mem(<<122>>, Str(<<97>>))>>),
  \* {"x": "1", "y": null, "z": "0", "w": "0"}
  Obj(<<Mem(<<119>>, JInt(0)), Mem(<<120>>, JInt(1)), Mem(<<121>>, Null), Mem(<<122>>, JInt(0))>>),
  \* {"x": "1", "y": null, "z": "0", "w": "1"}
  Obj(<<Mem(<<119>>, JInt(1)), Mem(<<120>>, JInt(1)), Mem(<<121>>, Null), Mem(<<122>>, JInt(0))>>),
  \* {"x": "1", "y": null, "z": "0", "w": null}
  Obj(<<Mem(<<119>>, Null), Mem(<<120>>, JInt(1)), Mem(<<121>>, Null), Mem(<<122>>, JInt(0))>>),
  \* {"x": "1", "y": null, "z": "0", "w": "a"}
  Obj(<<Mem(<<119>>, Str(<<97>>)), Mem(<<120>>, JInt(1)), Mem(<<121>>, Null), Mem(<<122>>, JInt(0))>>),
  \* {"x": "1", "y": null, "z": "1", "w": "0"}
  Obj(<<Mem(<<119>>, JInt(0)), Mem(<<120>>, JInt(1)), Mem(<<121>>, Null), Mem(<<122>>, JInt(1))>>),
  \* {"x": "1", "y": null, "z": "1", "w": "1"}
  Obj(<<Mem(<<119>>, JInt(1)), Mem(<<120>>, JInt(1)), Mem(<<121>>, Null), Mem(<<122>>, JInt(1))>>),
  \* {"x": "1", "y": null, "z": "1", "w": null}
  Obj(<<Mem(<<119>>, Null), Mem(<<120>>, JInt(1)), Mem(<<121>>, Null), Mem(<<122>>, JInt(1))>>),
  \* {"x": "1", "y": null, "z": "1", "w": "a"}
  Obj(<<Mem(<<119>>, Str(<<97>>)), Mem(<<120>>, JInt(1)), Mem(<<121>>, Null), Mem(<<122>>, JInt(1))>>),
  \* {"x": "1", "y": null, "z": null, "w": "0"}
  Obj(<<Mem(<<119>>, JInt(0)), Mem(<<120>>, JInt(1)), Mem(<<121>>, Null), Mem(<<122>>, Null)>>),
  \* {"x": "1", "y": null, "z": null, "w": "1"}
  Obj(<<Mem(<<119>>, JInt(1)), Mem(<<120>>, JInt(1)), Mem(<<121>>, Null), Mem(<<122>>, Null)>>),
  \* {"x": "1", "y": null, "z": null, "w": null}
  Obj(<<Mem(<<119>>, Null), Mem(<<120>>, JInt(1)), Mem(<<121>>, Null), Mem(<<122>>, Null)>>),
  \* {"x": "1", "y": null, "z": null, "w": "a"}
  Obj(<<Mem(<<119>>, Str(<<97>>)), Mem(<<120>>, JInt(1)), Mem(<<121>>, Null), Mem(<<122>>, Null)>>),
  \* {"x": "1", "y": null, "z": "a", "w": "0"}
  Obj(<<Mem(<<119>>, JInt(0)), Mem(<<120>>, JInt(1)), Mem(<<121>>, Null), Mem(<<122>>, Str(<<97>>))>>),
  \* {"x": "1", "y": null, "z": "a", "w": "1"}
  Obj(<<Mem(<<119>>, JInt(1)), Mem(<<120>>, JInt(1)), Mem(<<121>>, Null), Mem(<<122>>, Str(<<97>>))>>),
  \* {"x": "1", "y": null, "z": "a", "w": null}
  Obj(<<Mem(<<119>>, Null), Mem(<<120>>, JInt(1)), Mem(<<121>>, Null), Mem(<<122>>, Str(<<97>>))>>),
  \* {"x": "1", "y": null, "z": "a", "w": "a"}
  Obj(<<Mem(<<119>>, Str(<<97>>)), Mem(<<120>>, JInt(1)), Mem(<<121>>, Null), Mem(<<122>>, Str(<<97>>))>>),
  \* {"x": "1", "y": "a", "z": "0", "w": "0"}
  Obj(<<Mem(<<119>>, JInt(0)), Mem(<<120>>, JInt(1)), Mem(<<121>>, Str(<<97>>)), Mem(<<122>>, JInt(0))>>),
  \* {"x": "1", "y": "a", "z": "0", "w": "1"}
  Obj(<<Mem(<<119>>, JInt(1)), Mem(<<120>>, JInt(1)), Mem(<<121>>, Str(<<97>>)), Mem(<<122>>, JInt(0))>>),
  \* {"x": "1", "y": "a", "z": "0", "w": null}
  Obj(<<Mem(<<119>>, Null), Mem(<<120>>, JInt(1)), Mem(<<121>>, Str(<<97>>)), Mem(<<122>>, JInt(0))>>),
  \* {"x": "1", "y": "a", "z": "0", "w": "a"}
  Obj(<<Mem(<<119>>, Str(<<97>>)), Mem(<<120>>, JInt(1)), Mem(<<121>>, Str(<<97>>)), Mem(<<122>>, JInt(0))>>),
  \* {"x": "1", "y": "a", "z": "1", "w": "0"}
  Obj(<<Mem(<<119>>, JInt(0)), Mem(<<120>>, JInt(1)), Mem(<<121>>, Str(<<97>>)), Mem(<<122>>, JInt(1))>>),
  \* {"x": "1", "y": "a", "z": "1", "w": "1"}
  Obj(<<Mem(<<119>>, JInt(1)), Mem(<<120>>, JInt(1)), Mem(<<121>>, Str(<<97>>)), Mem(<<122>>, JInt(1))>>),
  \* {"x": "1", "y": "a", "z": "1", "w": null}
  Obj(<<Mem(<<119>>, Null), Mem(<<120>>, JInt(1)), Mem(<<121>>, Str(<<97>>)), Mem(<<122>>, JInt(1))>>),
  \* {"x": "1", "y": "a", "z": "1", "w": "a"}
  Obj(<<Mem(<<119>>, Str(<<97>>)), Mem(<<120>>, JInt(1)), Mem(<<121>>, Str(<<97>>)), Mem(<<122>>, JInt(1))>>),
  \* {"x": "1", "y": "a", "z": null, "w": "0"}
  Obj(<<Mem(<<119>>, JInt(0)), Mem(<<120>>, JInt(1)), Mem(<<121>>, Str(<<97>>)), Mem(<<122>>, Null)>>),
  \* {"x": "1", "y": "a", "z": null, "w": "1"}
  Obj(<<Mem(<<119>>, JInt(1)), Mem(<<120>>, JInt(1)), Mem(<<121>>, Str(<<97>>)), Mem(<<122>>, Null)>>),
  \* {"x": "1", "y": "a", "z": null, "w": null}
  Obj(<<Mem(<<119>>, Null), Mem(<<120>>, JInt(1)), Mem(<<121>>, Str(<<97>>)), Mem(<<122>>, Null)>>),
  \* {"x": "1", "y": "a", "z": null, "w": "a"}
  Obj(<<Mem(<<119>>, Str(<<97>>)), Mem(<<120>>, JInt(1)), Mem(<<121>>, Str(<<97>>)), Mem(<<122>>, Null)>>),
  \* {"x": "1", "y": "a", "z": "a", "w": "0"}
  Obj(<<Mem(<<119>>, JInt(0)), Mem(<<120>>, JInt(1)), Mem(<<121>>, Str(<<97>>)), Mem(<<122>>, Str(<<97>>))>>),
  \* {"x": "1", "y": "a", "z": "a", "w": "1"}
  Obj(<<Mem(<<119>>, JInt(1)), Mem(<<120>>, JInt(1)), Mem(<<121>>, Str(<<97>>)), Mem(<<122>>, Str(<<97>>))>>),
  \* {"x": "1", "y": "a", "z": "a", "w": null}
  Obj(<<Mem(<<119>>, Null), Mem(<<120>>, JInt(1)), Mem(<<121>>, Str(<<97>>)), Mem(<<122>>, Str(<<97>>))>>),
  \* {"x": "1", "y": "a", "z": "a", "w": "a"}
  Obj(<<Mem(<<119>>, Str(<<97>>)), Mem(<<120>>, JInt(1)), Mem(<<121>>, Str(<<97>>)), Mem(<<122>>, Str(<<97>>))>>),
  \* {"x": null, "y": "0", "z": "0", "w": "0"}
  Obj(<<Mem(<<119>>, JInt(0)), Mem(<<120>>, Null), Mem(<<121>>, JInt(0)), Mem(<<122>>, JInt(0))>>),
  \* {"x": null, "y": "0", "z": "0", "w": "1"}
  Obj(<<Mem(<<119>>, JInt(1)), Mem(<<120>>, Null), Mem(<<121>>, JInt(0)), Mem(<<122>>, JInt(0))>>),
  \* {"x": null, "y": "0", "z": "0", "w": null}
  Obj(<<Mem(<<119>>, Null), Mem(<<120>>, Null), Mem(<<121>>, JInt(0)), Mem(<<122>>, JInt(0))>>),
  \* {"x": null, "y": "0", "z": "0", "w": "a"}
  Obj(<<Mem(<<119>>, Str(<<97>>)), Mem(<<120>>, Null), Mem(<<121>>, JInt(0)), Mem(<<122>>, JInt(0))>>),
  \* {"x": null, "y": "0", "z": "1", "w": "0"}
  Obj(<<Mem(<<119>>, JInt(0)), Mem(<<120>>, Null), Mem(<<121>>, JInt(0)), Mem(<<122>>, JInt(1))>>),
  \* {"x": null, "y": "0", "z": "1", "w": "1"}
  Obj(<<Mem(<<119>>, JInt(1)), Mem(<<120>>, Null), Mem(<<121>>, JInt(0)), Mem(<<122>>, JInt(1))>>),
  \* {"x": null, "y": "0", "z": "1", "w": null}
  Obj(<<Mem(<<119>>, Null), Mem(<<120>>, Null), Mem(<<121>>, JInt(0)), Mem(<<122>>, JInt(1))>>),
  \* {"x": null, "y": "0", "z": "1", "w": "a"}
  Obj(<<Mem(<<119>>, Str(<<97>>)), Mem(<<120>>, Null), Mem(<<121>>, JInt(0)), Mem(<<122>>, JInt(1))>>),
  \* {"x": null, "y": "0", "z": null, "w": "0"}
  Obj(<<Mem(<<119>>, JInt(0)), Mem(<<120>>, Null), Mem(<<121>>, JInt(0)), Mem(<<122>>, Null)>>),
  \* {"x": null, "y": "0", "z": null, "w": "1"}
  Obj(<<Mem(<<119>>, JInt(1)), Mem(<<120>>, Null), Mem(<<121>>, JInt(0)), Mem(<<122>>, Null)>>),
  \* {"x": null, "y": "0", "z": null, "w": null}
  Obj(<<Mem(<<119>>, Null), Mem(<<120>>, Null), Mem(<<121>>, JInt(0)), Mem(<<122>>, Null)>>),
  \* {"x": null, "y": "0", "z": null, "w": "a"}
  Obj(<<Mem(<<119>>, Str(<<97>>)), Mem(<<120>>, Null), Mem(<<121>>, JInt(0)), Mem(<<122>>, Null)>>),
  \* {"x": null, "y": "0", "z": "a", "w": "0"}
  Obj(<<Mem(<<119>>, JInt(0)), Mem(<<120>>, Null), Mem(<<121>>, JInt(0)), Mem(<<122>>, Str(<<97>>))>>),
  \* {"x": null, "y": "0", "z": "a", "w": "1"}
  Obj(<<Mem(<<119>>, JInt(1)), Mem(<<120>>, Null), Mem(<<121>>, JInt(0)), Mem(<<122>>, Str(<<97>>))>>),
  \* {"x": null, "y": "0", "z": "a", "w": null}
  Obj(<<Mem(<<119>>, Null), Mem(<<120>>, Null), Mem(<<121>>, JInt(0)), Mem(<<122>>, Str(<<97>>))>>),
  \* {"x": null, "y": "0", "z": "a", "w": "a"}
  Obj(<<Mem(<<119>>, Str(<<97>>)), Mem(<<120>>, Null), Mem(<<121>>, JInt(0)), Mem(<<122>>, Str(<<97>>))>>),
  \* {"x": null, "y": "1", "z": "0", "w": "0"}
  Obj(<<Mem(<<119>>, JInt(0)), Mem(<<120>>, Null), Mem(<<121>>, JInt(1)), Mem(<<122>>, JInt(0))>>),
  \* {"x": null, "y": "1", "z": "0", "w": "1"}
  Obj(<<Mem(<<119>>, JInt(1)), Mem(<<120>>, Null), Mem(<<121>>, JInt(1)), Mem(<<122>>, JInt(0))>>),
  \* {"x": null, "y": "1", "z": "0", "w": null}
  Obj(<<Mem(<<119>>, Null), Mem(<<120>>, Null), Mem(<<121>>, JInt(1)), Mem(<<122>>, JInt(0))>>),
  \* {"x": null, "y": "1", "z": "0", "w": "a"}
  Obj(<<Mem(<<119>>, Str(<<97>>)), Mem(<<120>>, Null), Mem(<<121>>, JInt(1)), Mem(<<122>>, JInt(0))>>),
  \* {"x": null, "y": "1", "z": "1", "w": "0"}
  Obj(<<Mem(<<119>>, JInt(0)), Mem(<<120>>, Null), Mem(<<121>>, JInt(1)), Mem(<<122>>, JInt(1))>>),
  \* {"x": null, "y": "1", "z": "1", "w": "1"}
  Obj(<<Mem(<<119>>, JInt(1)), Mem(<<120>>, Null), Mem(<<121>>, JInt(1)), Mem(<<122>>, JInt(1))>>),
  \* {"x": null, "y": "1", "z": "1", "w": null}
  Obj(<<Mem(<<119>>, Null), Mem(<<120>>, Null), Mem(<<121>>, JInt(1)), Mem(<<122>>, JInt(1))>>),
  \* {"x": null, "y": "1", "z": "1", "w": "a"}
  Obj(<<Mem(<<119>>, Str(<<97>>)), Mem(<<120>>, Null), Mem(<<121>>, JInt(1)), Mem(<<122>>, JInt(1))>>),
  \* {"x": null, "y": "1", "z": null, "w": "0"}
  Obj(<<Mem(<<119>>, JInt(0)), Mem(<<120>>, Null), Mem(<<121>>, JInt(1)), Mem(<<122>>, Null)>>),
  \* {"x": null, "y": "1", "z": null, "w": "1"}
  Obj(<<Mem(<<119>>, JInt(1)), Mem(<<120>>, Null), Mem(<<121>>, JInt(1)), Mem(<<122>>, Null)>>),
  \* {"x": null, "y": "1", "z": null, "w": null}
  Obj(<<Mem(<<119>>, Null), Mem(<<120>>, Null), Mem(<<121>>, JInt(1)), Mem(<<122>>, Null)>>),
  \* {"x": null, "y": "1", "z": null, "w": "a"}
  Obj(<<Mem(<<119>>, Str(<<97>>)), Mem(<<120>>, Null), Mem(<<121>>, JInt(1)), Mem(<<122>>, Null)>>),
  \* {"x": null, "y": "1", "z": "a", "w": "0"}
  Obj(<<Mem(<<119>>, JInt(0)), Mem(<<120>>, Null), Mem(<<121>>, JInt(1)), Mem(<<122>>, Str(<<97>>))>>),
  \* {"x": null, "y": "1", "z": "a", "w": "1"}
  Obj(<<Mem(<<119>>, JInt(1)), Mem(<<120>>, Null), Mem(<<121>>, JInt(1)), Mem(<<122>>, Str(<<97>>))>>),
  \* {"x": null, "y": "1", "z": "a", "w": null}
  Obj(<<Mem(<<119>>, Null), Mem(<<120>>, Null), Mem(<<121>>, JInt(1)), Mem(<<122>>, Str(<<97>>))>>),
  \* {"x": null, "y": "1", "z": "a", "w": "a"}
  Obj(<<Mem(<<119>>, Str(<<97>>)), Mem(<<120>>, Null), Mem(<<121>>, JInt(1)), Mem(<<122>>, Str(<<97>>))>>),
  \* {"x": null, "y": null, "z": "0", "w": "0"}
  Obj(<<Mem(<<119>>, JInt(0)), Mem(<<120>>, Null), Mem(<<121>>, Null), Mem(<<122>>, JInt(0))>>),
  \* {"x": null, "y": null, "z": "0", "w": "1"}
  Obj(<<Mem(<<119>>, JInt(1)), Mem(<<120>>, Null), Mem(<<121>>, Null), Mem(<<122>>, JInt(0))>>),
  \* {"x": null, "y": null, "z": "0", "w": null}
  Obj(<<Mem(<<119>>, Null), Mem(<<120>>, Null), Mem(<<121>>, Null), Mem(<<122>>, JInt(0))>>),
  \* {"x": null, "y": null, "z": "0", "w": "a"}
  Obj(<<Mem(<<119>>, Str(<<97>>)), Mem(<<120>>, Null), Mem(<<121>>, Null), Mem(<<122>>, JInt(0))>>),
  \* {"x": null, "y": null, "z": "1", "w": "0"}
  Obj(<<Mem(<<119>>, JInt(0)), Mem(<<120>>, Null), Mem(<<121>>, Null), Mem(<<122>>, JInt(1))>>),
  \* {"x": null, "y": null, "z": "1", "w": "1"}
  Obj(<<Mem(<<119>>, JInt(1)), Mem(<<120>>, Null), Mem(<<121>>, Null), Mem(<<122>>, JInt(1))>>),
  \* {"x": null, "y": null, "z": "1", "w": null}
  Obj(<<Mem(<<119>>, Null), Mem(<<120>>, Null), Mem(<<121>>, Null), Mem(<<122>>, JInt(1))>>),
  \* {"x": null, "y": null, "z": "1", "w": "a"}
  Obj(<<Mem(<<119>>, Str(<<97>>)), Mem(<<120>>, Null), Mem(<<121>>, Null), Mem(<<122>>, JInt(1))>>),
  \* {"x": null, "y": null, "z": null, "w": "0"}
  Obj(<<Mem(<<119>>, JInt(0)), Mem(<<120>>, Null), Mem(<<121>>, Null), Mem(<<122>>, Null)>>),
  \* {"x": null, "y": null, "z": null, "w": "1"}
  Obj(<<Mem(<<119>>, JInt(1)), Mem(<<120>>, Null), Mem(<<121>>, Null), Mem(<<122>>, Null)>>),
  \* {"x": null, "y": null, "z": null, "w": null}
  Obj(<<Mem(<<119>>, Null), Mem(<<120>>, Null), Mem(<<121>>, Null), Mem(<<122>>, Null)>>),
  \* {"x": null, "y": null, "z": null, "w": "a"}
  Obj(<<Mem(<<119>>, Str(<<97>>)), Mem(<<120>>, Null), Mem(<<121>>, Null), Mem(<<122>>, Null)>>),
  \* {"x": null, "y": null, "z": "a", "w": "0"}
  Obj(<<Mem(<<119>>, JInt(0)), Mem(<<120>>, Null), Mem(<<121>>, Null), Mem(<<122>>, Str(<<97>>))>>),
  \* {"x": null, "y": null, "z": "a", "w": "1"}
  Obj(<<Mem(<<119>>, JInt(1)), Mem(<<120>>, Null), Mem(<<121>>, Null), Mem(<<122>>, Str(<<97>>))>>),
  \* {"x": null, "y": null, "z": "a", "w": null}
  Obj(<<Mem(<<119>>, Null), Mem(<<120>>, Null), Mem(<<121>>, Null), Mem(<<122>>, Str(<<97>>))>>),
  \* {"x": null, "y": null, "z": "a", "w": "a"}
  Obj(<<Mem(<<119>>, Str(<<97>>)), Mem(<<120>>, Null), Mem(<<121>>, Null), Mem(<<122>>, Str(<<97>>))>>),
  \* {"x": null, "y": "a", "z": "0", "w": "0"}
  Obj(<<Mem(<<119>>, JInt(0)), Mem(<<120>>, Null), Mem(<<121>>, Str(<<97>>)), Mem(<<122>>, JInt(0))>>),
  \* {"x": null, "y": "a", "z": "0", "w": "1"}
  Obj(<<Mem(<<119>>, JInt(1)), Mem(<<120>>, Null), Mem(<<121>>, Str(<<97>>)), Mem(<<122>>, JInt(0))>>),
  \* {"x": null, "y": "a", "z": "0", "w": null}
  Obj(<<Mem(<<119>>, Null), Mem(<<120>>, Null), Mem(<<121>>, Str(<<97>>)), Mem(<<122>>, JInt(0))>>),
  \* {"x": null, "y": "a", "z": "0", "w": "a"}
  Obj(<<Mem(<<119>>, Str(<<97>>)), Mem(<<120>>, Null), Mem(<<121>>, Str(<<97>>)), Mem(<<122>>, JInt(0))>>),
  \* {"x": null, "y": "a", "z": "1", "w": "0"}
  Obj(<<Mem(<<119>>, JInt(0)), Mem(<<120>>, Null), Mem(<<121>>, Str(<<97>>)), Mem(<<122>>, JInt(1))>>),
  \* {"x": null, "y": "a", "z": "1", "w": "1"}
  Obj(<<Mem(<<119>>, JInt(1)), Mem(<<120>>, Null), Mem(<<121>>, Str(<<97>>)), Mem(<<122>>, JInt(1))>>),
  \* {"x": null, "y": "a", "z": "1", "w": null}
  Obj(<<Mem(<<119>>, Null), Mem(<<120>>, Null), Mem(<<121>>, Str(<<97>>)), Mem(<<122>>, JInt(1))>>),
  \* {"x": null, "y": "a", "z": "1", "w": "a"}
  Obj(<<Mem(<<119>>, Str(<<97>>)), Mem(<<120>>, Null), Mem(<<121>>, Str(<<97>>)), Mem(<<122>>, JInt(1))>>),
  \* {"x": null, "y": "a", "z": null, "w": "0"}
  Obj(<<Mem(<<119>>, JInt(0)), Mem(<<120>>, Null), Mem(<<121>>, Str(<<97>>)), Mem(<<122>>, Null)>>),
  \* {"x": null, "y": "a", "z": null, "w": "1"}
  Obj(<<Mem(<<119>>, JInt(1)), Mem(<<120>>, Null), Mem(<<121>>, Str(<<97>>)), Mem(<<122>>, Null)>>),
  \* {"x": null, "y": "a", "z": null, "w": null}
  Obj(<<Mem(<<119>>, Null), Mem(<<120>>, Null), Mem(<<121>>, Str(<<97>>)), Mem(<<122>>, Null)>>),
  \* {"x": null, "y": "a", "z": null, "w": "a"}
  Obj(<<Mem(<<119>>, Str(<<97>>)), Mem(<<120>>, Null), Mem(<<121>>, Str(<<97>>)), Mem(<<122>>, Null)>>),
  \* {"x": null, "y": "a", "z": "a", "w": "0"}
  Obj(<<Mem(<<119>>, JInt(0)), Mem(<<120>>, Null), Mem(<<121>>, Str(<<97>>)), Mem(<<122>>, Str(<<97>>))>>),
  \* {"x": null, "y": "a", "z": "a", "w": "1"}
  Obj(<<Mem(<<119>>, JInt(1)), Mem(<<120>>, Null), Mem(<<121>>, Str(<<97>>)), Mem(<<122>>, Str(<<97>>))>>),
  \* {"x": null, "y": "a", "z": "a", "w": null}
  Obj(<<Mem(<<119>>, Null), Mem(<<120>>, Null), Mem(<<121>>, Str(<<97>>)), Mem(<<122>>, Str(<<97>>))>>),
  \* {"x": null, "y": "a", "z": "a", "w": "a"}
  Obj(<<Mem(<<119>>, Str(<<97>>)), Mem(<<120>>, Null), Mem(<<121>>, Str(<<97>>)), Mem(<<122>>, Str(<<97>>))>>),
  \* {"x": "a", "y": "0", "z": "0", "w": "0"}
  Obj(<<Mem(<<119>>, JInt(0)), Mem(<<120>>, Str(<<97>>)), Mem(<<121>>, JInt(0)), Mem(<<122>>, JInt(0))>>),
  \* {"x": "a", "y": "0", "z": "0", "w": "1"}
  Obj(<<Mem(<<119>>, JInt(1)), Mem(<<120>>, Str(<<97>>)), Mem(<<121>>, JInt(0)), Mem(<<122>>, JInt(0))>>),
  \* {"x": "a", "y": "0", "z": "0", "w": null}
  Obj(<<Mem(<<119>>, Null), Mem(<<120>>, Str(<<97>>)), Mem(<<121>>, JInt(0)), Mem(<<122>>, JInt(0))>>),
  \* {"x": "a", "y": "0", "z": "0", "w": "a"}
  Obj(<<Mem(<<119>>, Str(<<97>>)), Mem(<<120>>, Str(<<97>>)), Mem(<<121>>, JInt(0)), Mem(<<122>>, JInt(0))>>),
  \* {"x": "a", "y": "0", "z": "1", "w": "0"}
  Obj(<<Mem(<<119>>, JInt(0)), Mem(<<120>>, Str(<<97>>)), Mem(<<121>>, JInt(0)), Mem(<<122>>, JInt(1))>>),
  \* {"x": "a", "y": "0", "z": "1", "w": "1"}
  Obj(<<Mem(<<119>>, JInt(1)), Mem(<<120>>, Str(<<97>>)), Mem(<<121>>, JInt(0)), Mem(<<122>>, JInt(1))>>),
  \* {"x": "a", "y": "0", "z": "1", "w": null}
  Obj(<<Mem(<<119>>, Null), Mem(<<120>>, Str(<<97>>)), Mem(<<121>>, JInt(0)), Mem(<<122>>, JInt(1))>>),
  \* {"x": "a", "y": "0", "z": "1", "w": "a"}
  Obj(<<Mem(<<119>>, Str(<<97>>)), Mem(<<120>>, Str(<<97>>)), Mem(<<121>>, JInt(0)), Mem(<<122>>, JInt(1))>>),
  \* {"x": "a", "y": "0", "z": null, "w": "0"}
  Obj(<<Mem(<<119>>, JInt(0)), Mem(<<120>>, Str(<<97>>)), Mem(<<121>>, JInt(0)), Mem(<<122>>, Null)>>),
  \* {"x": "a", "y": "0", "z": null, "w": "1"}
  Obj(<<Mem(<<119>>, JInt(1)), Mem(<<120>>, Str(<<97>>)), Mem(<<121>>, JInt(0)), Mem(<<122>>, Null)>>),
  \* {"x": "a", "y": "0", "z": null, "w": null}
  Obj(<<Mem(<<119>>, Null), Mem(<<120>>, Str(<<97>>)), Mem(<<121>>, JInt(0)), Mem(<<122>>, Null)>>),
  \* {"x": "a", "y": "0", "z": null, "w": "a"}
  Obj(<<Mem(<<119>>, Str(<<97>>)), Mem(<<120>>, Str(<<97>>)), Mem(<<121>>, JInt(0)), Mem(<<122>>, Null)>>),
  \* {"x": "a", "y": "0", "z": "a", "w": "0"}
  Obj(<<Mem(<<119>>, JInt(0)), Mem(<<120>>, Str(<<97>>)), Mem(<<121>>, JInt(0)), Mem(<<122>>, Str(<<97>>))>>),
  \* {"x": "a", "y": "0", "z": "a", "w": "1"}
  Obj(<<Mem(<<119>>, JInt(1)), Mem(<<120>>, Str(<<97>>)), Mem(<<121>>, JInt(0)), Mem(<<122>>, Str(<<97>>))>>),
  \* {"x": "a", "y": "0", "z": "a", "w": null}
  Obj(<<Mem(<<119>>, Null), Mem(<<120>>, Str(<<97>>)), Mem(<<121>>, JInt(0)), Mem(<<122>>, Str(<<97>>))>>),
  \* {"x": "a", "y": "0", "z": "a", "w": "a"}
  Obj(<<Mem(<<119>>, Str(<<97>>)), Mem(<<120>>, Str(<<97>>)), Mem(<<121>>, JInt(0)), Mem(<<122>>, Str(<<97>>))>>),
  \* {"x": "a", "y": "1", "z": "0", "w": "0"}
  Obj(<<Mem(<<119>>, JInt(0)), Mem(<<120>>, Str(<<97>>)), Mem(<<121>>, JInt(1)), Mem(<<122>>, JInt(0))>>),
  \* {"x": "a", "y": "1", "z": "0", "w": "1"}
  Obj(<<Mem(<<119>>, JInt(1)), Mem(<<120>>, Str(<<97>>)), Mem(<<121>>, JInt(1)), Mem(<<122>>, JInt(0))>>),
  \* {"x": "a", "y": "1", "z": "0", "w": null}
  Obj(<<Mem(<<119>>, Null), Mem(<<120>>, Str(<<97>>)), Mem(<<121>>, JInt(1)), Mem(<<122>>, JInt(0))>>),
  \* {"x": "a", "y": "1", "z": "0", "w": "a"}
  Obj(<<Mem(<<119>>, Str(<<97>>)), Mem(<<120>>, Str(<<97>>)), Mem(<<121>>, JInt(1)), Mem(<<122>>, JInt(0))>>),
  \* {"x": "a", "y": "1", "z": "1", "w": "0"}
  Obj(<<Mem(<<119>>, JInt(0)), Mem(<<120>>, Str(<<97>>)), Mem(<<121>>, JInt(1)), Mem(<<122>>, JInt(1))>>),
  \* {"x": "a", "y": "1", "z": "1", "w": "1"}
  Obj(<<Mem(<<119>>, JInt(1)), Mem(<<120>>, Str(<<97>>)), Mem(<<121>>, JInt(1)), Mem(<<122>>, JInt(1))>>),
  \* {"x": "a", "y": "1", "z": "1", "w": null}
  Obj(<<Mem(<<119>>, Null), Mem(<<120>>, Str(<<97>>)), Mem(<<121>>, JInt(1)), Mem(<<122>>, JInt(1))>>),
  \* {"x": "a", "y": "1", "z": "1", "w": "a"}
  Obj(<<Mem(<<119>>, Str(<<97>>)), Mem(<<120>>, Str(<<97>>)), Mem(<<121>>, JInt(1)), Mem(<<122>>, JInt(1))>>),
  \* {"x": "a", "y": "1", "z": null, "w": "0"}
  Obj(<<Mem(<<119>>, JInt(0)), Mem(<<120>>, Str(<<97>>)), Mem(<<121>>, JInt(1)), Mem(<<122>>, Null)>>),
  \* {"x": "a", "y": "1", "z": null, "w": "1"}
  Obj(<<Mem(<<119>>, JInt(1)), Mem(<<120>>, Str(<<97>>)), Mem(<<121>>, JInt(1)), Mem(<<122>>, Null)>>),
  \* {"x": "a", "y": "1", "z": null, "w": null}
  Obj(<<Mem(<<119>>, Null), Mem(<<120>>, Str(<<97>>)), Mem(<<121>>, JInt(1)), Mem(<<122>>, Null)>>),
  \* {"x": "a", "y": "1", "z": null, "w": "a"}
  Obj(<<Mem(<<119>>, Str(<<97>>)), Mem(<<120>>, Str(<<97>>)), Mem(<<121>>, JInt(1)), Mem(<<122>>, Null)>>),
  \* {"x": "a", "y": "1", "z": "a", "w": "0"}
  Obj(<<Mem(<<119>>, JInt(0)), Mem(<<120>>, Str(<<97>>)), Mem(<<121>>, JInt(1)), Mem(<<122>>, Str(<<97>>))>>),
  \* {"x": "a", "y": "1", "z": "a", "w": "1"}
  Obj(<<Mem(<<119>>, JInt(1)), Mem(<<120>>, Str(<<97>>)), Mem(<<121>>, JInt(1)), Mem(<<122>>, Str(<<97>>))>>),
  \* {"x": "a", "y": "1", "z": "a", "w": null}
  Obj(<<Mem(<<119>>, Null), Mem(<<120>>, Str(<<97>>)), Mem(<<121>>, JInt(1)), Mem(<<122>>, Str(<<97>>))>>),
  \* {"x": "a", "y": "1", "z": "a", "w": "a"}
  Obj(<<Mem(<<119>>, Str(<<97>>)), Mem(<<120>>, Str(<<97>>)), Mem(<<121>>, JInt(1)), Mem(<<122>>, Str(<<97>>))>>),
  \* {"x": "a", "y": null, "z": "0", "w": "0"}
  Obj(<<Mem(<<119>>, JInt(0)), Mem(<<120>>, Str(<<97>>)), Mem(<<121>>, Null), Mem(<<122>>, JInt(0))>>),
  \* {"x": "a", "y": null, "z": "0", "w": "1"}
  Obj(<<Mem(<<119>>, JInt(1)), Mem(<<120>>, Str(<<97>>)), Mem(<<121>>, Null), Mem(<<122>>, JInt(0))>>),
  \* {"x": "a", "y": null, "z": "0", "w": null}
  Obj(<<Mem(<<119>>, Null), Mem(<<120>>, Str(<<97>>)), Mem(<<121>>, Null), Mem(<<122>>, JInt(0))>>),
  \* {"x": "a", "y": null, "z": "0", "w": "a"}
  Obj(<<Mem(<<119>>, Str(<<97>>)), Mem(<<120>>, Str(<<97>>)), Mem(<<121>>, Null), Mem(<<122>>, JInt(0))>>),
  \* {"x": "a", "y": null, "z": "1", "w": "0"}
  Obj(<<Mem(<<119>>, JInt(0)), Mem(<<120>>, Str(<<97>>)), Mem(<<121>>, Null), Mem(<<122>>, JInt(1))>>),
  \* {"x": "a", "y": null, "z": "1", "w": "1"}
  Obj(<<Mem(<<119>>, JInt(1)), Mem(<<120>>, Str(<<97>>)), Mem(<<121>>, Null), Mem(<<122>>, JInt(1))>>),
  \* {"x": "a", "y": null, "z": "1", "w": null}
  Obj(<<Mem(<<119>>, Null), Mem(<<120>>, Str(<<97>>)), Mem(<<121>>, Null), Mem(<<122>>, JInt(1))>>),
  \* {"x": "a", "y": null, "z": "1", "w": "a"}
  Obj(<<Mem(<<119>>, Str(<<97>>)), Mem(<<120>>, Str(<<97>>)), Mem(<<121>>, Null), Mem(<<122>>, JInt(1))>>),
  \* {"x": "a", "y": null, "z": null, "w": "0"}
  Obj(<<Mem(<<119>>, JInt(0)), Mem(<<120>>, Str(<<97>>)), Mem(<<121>>, Null), Mem(<<122>>, Null)>>),
  \* {"x": "a", "y": null, "z": null, "w": "1"}
  Obj(<<Mem(<<119>>, JInt(1)), Mem(<<120>>, Str(<<97>>)), Mem(<<121>>, Null), Mem(<<122>>, Null)>>),
  \* {"x": "a", "y": null, "z": null, "w": null}
  Obj(<<Mem(<<119>>, Null), Mem(<<120>>, Str(<<97>>)), Mem(<<121>>, Null), Mem(<<122>>, Null)>>),
  \* {"x": "a", "y": null, "z": null, "w": "a"}
  Obj(<<Mem(<<119>>, Str(<<97>>)), Mem(<<120>>, Str(<<97>>)), Mem(<<121>>, Null), Mem(<<122>>, Null)>>),
  \* {"x": "a", "y": null, "z": "a", "w": "0"}
  Obj(<<Mem(<<119>>, JInt(0)), Mem(<<120>>, Str(<<97>>)), Mem(<<121>>, Null), Mem(<<122>>, Str(<<97>>))>>),
  \* {"x": "a", "y": null, "z": "a", "w": "1"}
  Obj(<<Mem(<<119>>, JInt(1)), Mem(<<120>>, Str(<<97>>)), Mem(<<121>>, Null), Mem(<<122>>, Str(<<97>>))>>),
  \* {"x": "a", "y": null, "z": "a", "w": null}
  Obj(<<Mem(<<119>>, Null), Mem(<<120>>, Str(<<97>>)), Mem(<<121>>, Null), Mem(<<122>>, Str(<<97>>))>>),
  \* {"x": "a", "y": null, "z": "a", "w": "a"}
  Obj(<<Mem(<<119>>, Str(<<97>>)), Mem(<<120>>, Str(<<97>>)), Mem(<<121>>, Null), Mem(<<122>>, Str(<<97>>))>>),
  \* {"x": "a", "y": "a", "z": "0", "w": "0"}
  Obj(<<Mem(<<119>>, JInt(0)), Mem(<<120>>, Str(<<97>>)), Mem(<<121>>, Str(<<97>>)), Mem(<<122>>, JInt(0))>>),
  \* {"x": "a", "y": "a", "z": "0", "w": "1"}
  Obj(<<Mem(<<119>>, JInt(1)), Mem(<<120>>, Str(<<97>>)), Mem(<<121>>, Str(<<97>>)), Mem(<<122>>, JInt(0))>>),
  \* {"x": "a", "y": "a", "z": "0", "w": null}
  Obj(<<Mem(<<119>>, Null), Mem(<<120>>, Str(<<97>>)), Mem(<<121>>, Str(<<97>>)), Mem(<<122>>, JInt(0))>>),
  \* {"x": "a", "y": "a", "z": "0", "w": "a"}
  Obj(<<Mem(<<119>>, Str(<<97>>)), Mem(<<120>>, Str(<<97>>)), Mem(<<121>>, Str(<<97>>)), Mem(<<122>>, JInt(0))>>),
  \* {"x": "a", "y": "a", "z": "1", "w": "0"}
  Obj(<<Mem(<<119>>, JInt(0)), Mem(<<120>>, Str(<<97>>)), Mem(<<121>>, Str(<<97>>)), Mem(<<122>>, JInt(1))>>),
  \* {"x": "a", "y": "a", "z": "1", "w": "1"}
  Obj(<<Mem(<<119>>, JInt(1)), Mem(<<120>>, Str(<<97>>)), Mem(<<121>>, Str(<<97>>)), Mem(<<122>>, JInt(1))>>),
  \* {"x": "a", "y": "a", "z": "1", "w": null}
  Obj(<<Mem(<<119>>, Null), Mem(<<120>>, Str(<<97>>)), Mem(<<121>>, Str(<<97>>)), Mem(<<122>>, JInt(1))>>),
  \* {"x": "a", "y": "a", "z": "1", "w": "a"}
  Obj(<<Mem(<<119>>, Str(<<97>>)), Mem(<<120>>, Str(<<97>>)), Mem(<<121>>, Str(<<97>>)), Mem(<<122>>, JInt(1))>>),
  \* {"x": "a", "y": "a", "z": null, "w": "0"}
  Obj(<<Mem(<<119>>, JInt(0)), Mem(<<120>>, Str(<<97>>)), Mem(<<121>>, Str(<<97>>)), Mem(<<122>>, Null)>>),
  \* {"x": "a", "y": "a", "z": null, "w": "1"}
  Obj(<<Mem(<<119>>, JInt(1)), Mem(<<120>>, Str(<<97>>)), Mem(<<121>>, Str(<<97>>)), Mem(<<122>>, Null)>>),
  \* {"x": "a", "y": "a", "z": null, "w": null}
  Obj(<<Mem(<<119>>, Null), Mem(<<120>>, Str(<<97>>)), Mem(<<121>>, Str(<<97>>)), Mem(<<122>>, Null)>>),
  \* {"x": "a", "y": "a", "z": null, "w": "a"}
  Obj(<<Mem(<<119>>, Str(<<97>>)), Mem(<<120>>, Str(<<97>>)), Mem(<<121>>, Str(<<97>>)), Mem(<<122>>, Null)>>),
  \* {"x": "a", "y": "a", "z": "a", "w": "0"}
  Obj(<<Mem(<<119>>, JInt(0)), Mem(<<120>>, Str(<<97>>)), Mem(<<121>>, Str(<<97>>)), Mem(<<122>>, Str(<<97>>))>>),
  \* {"x": "a", "y": "a", "z": "a", "w": "1"}
  Obj(<<Mem(<<119>>, JInt(1)), Mem(<<120>>, Str(<<97>>)), Mem(<<121>>, Str(<<97>>)), Mem(<<122>>, Str(<<97>>))>>),
  \* {"x": "a", "y": "a", "z": "a", "w": null}
  Obj(<<Mem(<<119>>, Null), Mem(<<120>>, Str(<<97>>)), Mem(<<121>>, Str(<<97>>)), Mem(<<122>>, Str(<<97>>))>>),
  \* {"x": "a", "y": "a", "z": "a", "w": "a"}
  Obj(<<Mem(<<119>>, Str(<<97>>)), Mem(<<120>>, Str(<<97>>)), Mem(<<121>>, Str(<<97>>)), Mem(<<122>>, Str(<<97>>))>>)
>>
====
