\* GENERATED from GenBigSort.tla.in by bin/tlapp -- edit the .in file
---------------------------- MODULE GenBigSort ----------------------------
(***************************************************************************)
(* Stability of sort_by on LARGE arrays with many ties (property C13):     *)
(* n records {k: key(i), p: i}.  The specification's sort cannot be run by *)
(* TLC on thousands of elements, so for each key pattern the stable order  *)
(* is given in closed form -- the payloads listed group by group, input    *)
(* order inside a group -- and checked against the specification's stable  *)
(* sort for n = 7..40 (ClosedFormIsTheStableSort).                         *)
(*   desc   k = (n - 1 - i) div B     descending blocks of B equal keys    *)
(*   asc    k = i div B               already sorted, blocks of ties       *)
(*   cyc    k = i mod M               ties M apart                          *)
(*   saw    k = M - 1 - (i mod M)     descending teeth                      *)
(*   mul    k = (7 i) mod M           scattered (M coprime to 7)           *)
(*   const  k = 5                     everything ties                       *)
(*   lead   two equal maxima first, then strictly descending               *)
(*   tail   strictly descending, then two equal minima                     *)
(* Keys are numbers, or the same numbers as zero-padded strings.           *)
(***************************************************************************)
EXTENDS JMES, Json, Toks, SequencesExt
CONSTANTS Emit, Prop, Sizes

Pats == <<"desc", "asc", "cyc", "saw", "mul", "const", "lead", "tail">>
B == 10   M == 9
KeyN(pat, n, i) ==              \* i is 0-based
  CASE pat = "desc" -> (n - 1 - i) \div B
    [] pat = "asc" -> i \div B
    [] pat = "cyc" -> i % M
    [] pat = "saw" -> M - 1 - (i % M)
    [] pat = "mul" -> (7 * i) % M
    [] pat = "const" -> 5
    [] pat = "lead" -> IF i <= 1 THEN n - 2 ELSE n - 1 - i      \* two equal maxima, then strictly descending
    [] pat = "tail" -> IF i >= n - 2 THEN 1 ELSE n - i          \* strictly descending, two equal minima at the end
Pad4(k) == <<48 + ((k \div 1000) % 10), 48 + ((k \div 100) % 10), 48 + ((k \div 10) % 10), 48 + (k % 10)>>
KeyV(pat, str, n, i) == IF str THEN Str(Pad4(KeyN(pat, n, i))) ELSE JInt(KeyN(pat, n, i))
Rec(pat, str, n, i) == Obj(<<Mem(<<107>>, KeyV(pat, str, n, i)), Mem(<<112>>, JInt(i))>>)
XArr(pat, str, n) == Arr([j \in 1..n |-> Rec(pat, str, n, j - 1)])
DocOf(pat, str, n) == Obj(<<Mem(<<120>>, XArr(pat, str, n))>>)

\* the payloads in stable sorted order, in closed form
RangeSeq(a, b) == IF b < a THEN <<>> ELSE [j \in 1..(b - a + 1) |-> a + j - 1]
RECURSIVE Cat(_, _, _)
Cat(f(_), g, last) == IF g > last THEN <<>> ELSE f(g) \o Cat(f, g + 1, last)
Stride(r, m, n) == LET cnt == IF r >= n THEN 0 ELSE ((n - 1 - r) \div m) + 1 IN [j \in 1..cnt |-> r + (j - 1) * m]   \* r, r+m, .. < n
Order(pat, n) ==
  CASE pat = "desc" -> LET grp(g) == RangeSeq(IF n - (g + 1) * B < 0 THEN 0 ELSE n - (g + 1) * B, n - 1 - g * B)
                       IN Cat(grp, 0, (n - 1) \div B)
    [] pat \in {"asc", "const"} -> RangeSeq(0, n - 1)
    [] pat = "cyc" -> LET grp(r) == Stride(r, M, n) IN Cat(grp, 0, M - 1)
    [] pat = "saw" -> LET grp(r) == Stride(M - 1 - r, M, n) IN Cat(grp, 0, M - 1)
    [] pat = "mul" -> LET grp(r) == Stride((4 * r) % M, M, n) IN Cat(grp, 0, M - 1)      \* 7 * 4 = 28 = 1 (mod 9)
    [] pat = "lead" -> [j \in 1..(n - 2) |-> n - j] \o <<0, 1>>
    [] pat = "tail" -> <<n - 2, n - 1>> \o [j \in 1..(n - 2) |-> n - 2 - j]

X == Id(<<120>>)  Kf == Id(<<107>>)  Pf == Id(<<112>>)
Fn(name, args) == <<Id(name), LP>> \o args \o <<RP>>
Expect(pat, str, n) == LET ord == Order(pat, n) IN <<
  [e |-> Fn(<<115,111,114,116,95,98,121>>, <<X, Comma, AmpT, Kf>>) \o <<LB, Star, RB, Dot, Pf>>, v |-> Arr([j \in 1..n |-> JInt(ord[j])])],
  [e |-> Fn(<<115,111,114,116,95,98,121>>, <<X, Comma, AmpT, Kf>>) \o <<LB, IntT(<<48>>), RB, Dot, Pf>>, v |-> JInt(ord[1])],
  [e |-> Fn(<<115,111,114,116,95,98,121>>, <<X, Comma, AmpT, Kf>>) \o <<LB, IntT(<<45,49>>), RB, Dot, Pf>>, v |-> JInt(ord[n])],
  [e |-> Fn(<<108,101,110,103,116,104>>, Fn(<<115,111,114,116,95,98,121>>, <<X, Comma, AmpT, Kf>>)), v |-> JInt(n)],
  [e |-> Fn(<<115,111,114,116,95,98,121>>, Fn(<<115,111,114,116,95,98,121>>, <<X, Comma, AmpT, Kf>>) \o <<Comma, AmpT, Kf>>) \o <<LB, Star, RB, Dot, Pf>>, v |-> Arr([j \in 1..n |-> JInt(ord[j])])],
  [e |-> Fn(<<115,111,114,116,95,98,121>>, Fn(<<115,111,114,116,95,98,121>>, <<X, Comma, AmpT, Kf>>) \o <<Comma, AmpT, Pf>>) \o <<LB, Star, RB, Dot, Pf>>, v |-> Arr([j \in 1..n |-> JInt(j - 1)])],
  [e |-> Fn(<<115,111,114,116>>, <<X, LB, Star, RB, Dot, Kf>>) \o <<EqT>> \o Fn(<<115,111,114,116,95,98,121>>, <<X, Comma, AmpT, Kf>>) \o <<LB, Star, RB, Dot, Kf>>, v |-> JTrue] >>

Insts == { <<n, p, s>> : n \in Sizes, p \in 1..Len(Pats), s \in BOOLEAN }
InstSeq == SetToSeq(Insts)
VARIABLES bucket, idx
Init == bucket \in 1..Len(InstSeq) /\ idx = 0
Next == idx = 0 /\ idx' = 1 /\ UNCHANGED bucket
Spec == Init /\ [][Next]_<<bucket, idx>>

Check == idx > 0 =>
  LET n == InstSeq[bucket][1]  pat == Pats[InstSeq[bucket][2]]  str == InstSeq[bucket][3]
      ex == Expect(pat, str, n)  doc == DocOf(pat, str, n)
      case == [p |-> Prop, kind |-> "search", doc |-> doc,
               multi |-> { [expr |-> Render(ex[i].e), adm |-> {ex[i].v}] : i \in 1..Len(ex) }]
  IN /\ Emit => PrintT("CASE " \o ToJson(case))
     /\ Named(bucket # 1 \/ \A m \in {7, 19, 31} : \A pp \in 1..Len(Pats) : \A ss \in BOOLEAN :
                 LET e2 == Expect(Pats[pp], ss, m) IN
                 \A i \in 1..Len(e2) : Admissible(e2[i].e, DocOf(Pats[pp], ss, m)) = {e2[i].v}, "ClosedFormIsTheStableSort")
     /\ Named(Len(Order(pat, n)) = n, "OrderIsComplete")
=============================================================================
