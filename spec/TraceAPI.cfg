SPECIFICATION Spec
CONSTANT File = "api.ndjson"
INVARIANT Report
PROPERTY Immutable
POSTCONDITION Accepted
CHECK_DEADLOCK FALSE
