SPECIFICATION Spec
CONSTANTS
  Emit = FALSE
  Prop = "C04"
  Wide = FALSE
INVARIANTS
  Check
CHECK_DEADLOCK FALSE
