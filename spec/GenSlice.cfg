SPECIFICATION Spec
CONSTANTS
  Emit = FALSE
  Prop = "C12"
  MaxN = 3
INVARIANTS
  Check
CHECK_DEADLOCK FALSE
