SPECIFICATION Spec
CONSTANTS
  Emit = FALSE
  Prop = "C10"
  Triples = FALSE
  Pool <- PoolOps
  NDocs = 343
  Quads = "rep"
INVARIANTS
  Check
CHECK_DEADLOCK FALSE
