\* GENERATED from Scope.tla.in by bin/tlapp -- edit the .in file
------------------------------ MODULE Scope ------------------------------
(***************************************************************************)
(* A second, independent semantics of let-expressions (property C19):      *)
(* capture-avoiding substitution of the bound VALUES for the variable      *)
(* references in the body.  TLC checks on every generated let-expression   *)
(* that it agrees with the environment semantics of Eval.tla.              *)
(***************************************************************************)
EXTENDS Eval

RECURSIVE Subst(_, _, _)
RECURSIVE SubstSeq(_, _, _)
SubstSeq(xs, v, val) == [i \in 1..Len(xs) |-> Subst(xs[i], v, val)]
\* replace free occurrences of variable v in n by the literal val
Subst(n, v, val) ==
  CASE n.k \in {"cur", "root", "field", "lit", "anylit"} -> n
    [] n.k = "var" -> IF n.s = v THEN Lit(val) ELSE n
    [] n.k = "index" -> [n EXCEPT !.l = Subst(@, v, val)]
    [] n.k \in {"sub", "pipe", "or", "and", "cmp", "arith"} ->
         [n EXCEPT !.l = Subst(@, v, val), !.r = Subst(@, v, val)]
    [] n.k = "proj" -> [n EXCEPT !.l = Subst(@, v, val), !.r = Subst(@, v, val), !.c = Subst(@, v, val)]
    [] n.k \in {"not", "neg", "pos", "expref"} -> [n EXCEPT !.x = Subst(@, v, val)]
    [] n.k = "mslist" -> [n EXCEPT !.xs = SubstSeq(@, v, val)]
    [] n.k = "mshash" -> [n EXCEPT !.kvs = [i \in 1..Len(@) |-> [@[i] EXCEPT !.x = Subst(@, v, val)]]]
    [] n.k = "call" -> [n EXCEPT !.as = SubstSeq(@, v, val)]
    [] n.k = "let" ->
         \* the bindings are evaluated in the outer scope; the body is shadowed
         \* if this let binds v again
         LET bs == [i \in 1..Len(n.bs) |-> [n.bs[i] EXCEPT !.x = Subst(@, v, val)]]
             shadow == \E i \in 1..Len(n.bs) : n.bs[i].k = v
         IN [n EXCEPT !.bs = bs, !.x = IF shadow THEN @ ELSE Subst(@, v, val)]

RECURSIVE SubstAll(_, _, _, _)
SubstAll(n, names, vals, i) == IF i > Len(names) THEN n
                               \* later bindings of the same name win: substitute them first
                               ELSE Subst(SubstAll(n, names, vals, i + 1), names[i], vals[i])

\* evaluation in which every let is eliminated by substitution
RECURSIVE EvalS(_, _, _)
EvalS(n, cur, root) ==
  IF n.k # "let" THEN Eval(n, cur, root, EmptyEnv)
  ELSE LET os == [i \in 1..Len(n.bs) |-> EvalS(n.bs[i].x, cur, root)]
           g  == Gather(os)
       IN IF g # Null THEN g
          ELSE EvalS(SubstAll(n.x, [i \in 1..Len(n.bs) |-> n.bs[i].k], os, 1), cur, root)
=============================================================================
