\* GENERATED from Eval.tla.in by bin/tlapp -- edit the .in file
------------------------------ MODULE Eval ------------------------------
(***************************************************************************)
(* Meaning of a JMESPath Community expression: Eval(ast, cur, root, env)   *)
(* is the outcome the standard assigns -- a value, a failure carrying the  *)
(* set of error categories present, or Open where neither the standard's    *)
(* text nor its compliance corpus pins the result (DESIGN.md 3.6; every    *)
(* Open below carries a comment saying why).                                *)
(*                                                                         *)
(* env is a function from variable names to values (lexical scope).        *)
(***************************************************************************)
EXTENDS Static, Slice, Builtins

\* ---- combining the outcomes of several sub-evaluations ------------------
\* Open dominates (it may hide a failure); otherwise every category present
\* is admissible; otherwise all are values.
SeqAny(os)  == \E i \in 1..Len(os) : IsAny(os[i])
SeqErr(os)  == \E i \in 1..Len(os) : IsErr(os[i])
SeqErrs(os) == ErrS(UNION {os[i].cs : i \in {j \in 1..Len(os) : IsErr(os[j])}})
Gather(os)  == IF SeqAny(os) THEN Open ELSE IF SeqErr(os) THEN SeqErrs(os) ELSE Null

RECURSIVE DropNulls(_)
DropNulls(s) == IF Len(s) = 0 THEN <<>>
                ELSE (IF Head(s) = Null THEN <<>> ELSE <<Head(s)>>) \o DropNulls(Tail(s))

\* one level of flattening
RECURSIVE Flat1(_)
Flat1(s) == IF Len(s) = 0 THEN <<>>
            ELSE (IF Head(s).t = "arr" THEN Head(s).a ELSE <<Head(s)>>) \o Flat1(Tail(s))

EmptyEnv == <<>>          \* function with empty domain
EnvHas(env, v) == v \in DOMAIN env
Bind(env, names, vals) == [x \in (DOMAIN env \cup {names[i] : i \in 1..Len(names)}) |->
                             IF \E i \in 1..Len(names) : names[i] = x
                             THEN vals[CHOOSE i \in 1..Len(names) :
                                         names[i] = x /\ \A j \in (i + 1)..Len(names) : names[j] # x]
                             ELSE env[x]]

NumOrder(op, c) == CASE op = "<" -> c < 0 [] op = "<=" -> c <= 0 [] op = ">" -> c > 0 [] op = ">=" -> c >= 0

\* arithmetic on two numbers (small-decimal model; Decimal.tla covers the
\* full decimal128 range for property C05)
ArithNum(op, x, y) ==
  CASE op = "+" -> AddNum(x, y)
    [] op = "-" -> SubNum(x, y)
    [] op = "*" -> MulNum(x, y)
    [] op = "/" -> IF y.n = 0 THEN Err("not-a-number") ELSE DivNum(x, y)
    [] op \in {"//", "%"} ->
         IF y.n = 0 THEN Err("not-a-number")
         \* flooring and truncation differ when signs differ: left open (C05)
         ELSE IF x.n # 0 /\ SignI(x.n) # SignI(y.n) THEN Open
         ELSE LET m  == MinI(x.e, y.e)
                  a  == AbsI(x.n) * Pow10(x.e - m)
                  b  == AbsI(y.n) * Pow10(y.e - m)
              IN IF op = "//" THEN JInt(a \div b) ELSE Num(SignI(x.n) * (a % b), m)

RECURSIVE Eval(_, _, _, _)
RECURSIVE EvalSeq(_, _, _, _)
RECURSIVE EvalSeq2(_, _, _, _)
RECURSIVE EvalCall(_, _, _, _)
\* outcomes of evaluating every expression of xs on the same current node
EvalSeq2(xs, cur, root, env) == [i \in 1..Len(xs) |-> Eval(xs[i], cur, root, env)]
\* outcomes of evaluating r on every element of s
EvalSeq(r, s, root, env) == [i \in 1..Len(s) |-> Eval(r, s[i], root, env)]

\* project r over the elements s ; u = order of s was unspecified
Project(r, s, u, root, env) ==
  IF r = Cur THEN ArrU(DropNulls(s), u /\ Len(s) > 1)
  ELSE LET os == EvalSeq(r, s, root, env)  g == Gather(os) IN
       IF g # Null THEN g ELSE ArrU(DropNulls(os), u /\ Len(s) > 1)

Eval(n, cur, root, env) ==
  CASE n.k = "cur"  -> cur
    [] n.k = "root" -> root
    [] n.k = "field" -> IF cur.t = "obj" THEN ObjGet(cur, n.s) ELSE Null
    [] n.k = "lit"  -> n.v
    [] n.k = "anylit" -> Open        \* number outside the small-decimal model
    [] n.k = "var"  -> IF EnvHas(env, n.s) THEN env[n.s] ELSE Err("undefined-variable")
    [] n.k = "index" ->
         LET v == Eval(n.l, cur, root, env) IN
         IF ~IsVal(v) THEN v
         ELSE IF v.t # "arr" THEN Null
         ELSE IF v.u /\ Len(v.a) > 1 THEN Open       \* position in an unordered array
         ELSE LET i == IF n.n < 0 THEN n.n + Len(v.a) ELSE n.n IN
              IF i >= 0 /\ i < Len(v.a) THEN v.a[i + 1] ELSE Null
    [] n.k \in {"sub", "pipe"} ->
         LET v == Eval(n.l, cur, root, env) IN
         IF ~IsVal(v) THEN v
         ELSE IF n.k = "sub" /\ v = Null
              \* "if left-evaluation is null then result = null else result = search(right, left-evaluation)":
              \* a sub-expression ends with null when its left side is null, whatever the right side is
              \* (the corpus pins  null.[..] / null.{..} ; for a function on the right this was Open here
              \* until the second audit pass, after the implementation)
              THEN Null
         ELSE Eval(n.r, v, root, env)
    [] n.k = "proj" ->
         LET v == Eval(n.l, cur, root, env) IN
         IF ~IsVal(v) THEN v
         ELSE (CASE n.pk = "list" ->
                     IF v.t # "arr" THEN Null ELSE Project(n.r, v.a, v.u, root, env)
                [] n.pk = "flat" ->
                     IF v.t # "arr" THEN Null
                     ELSE Project(n.r, Flat1(v.a),
                                  v.u \/ \E i \in 1..Len(v.a) : v.a[i].t = "arr" /\ v.a[i].u /\ Len(v.a[i].a) > 1,
                                  root, env)
                [] n.pk = "obj" ->
                     IF v.t # "obj" THEN Null ELSE Project(n.r, ObjVals(v), TRUE, root, env)
                [] n.pk = "filter" ->
                     IF v.t # "arr" THEN Null
                     ELSE LET cs == EvalSeq(n.c, v.a, root, env)  g == Gather(cs) IN
                          IF g # Null THEN g
                          ELSE LET keep == SelectSeq([i \in 1..Len(v.a) |-> [v |-> v.a[i], c |-> cs[i]]],
                                                     LAMBDA p : Truthy(p.c))
                               IN Project(n.r, [i \in 1..Len(keep) |-> keep[i].v], v.u, root, env)
                [] n.pk = "slice" ->
                     IF StepOf(n.sl) = 0 THEN Err("invalid-value")
                     ELSE IF v.t = "arr"
                          THEN (IF v.u /\ Len(v.a) > 1 THEN Open      \* positions in an unordered array
                                ELSE Project(n.r, SliceSeq(v.a, n.sl), FALSE, root, env))
                     ELSE IF v.t = "str"
                          \* a slice of a string is a string, not a projection; what a
                          \* following selector applies to is not pinned
                          THEN (IF n.r = Cur THEN Str(SliceSeq(v.s, n.sl)) ELSE Open)
                     ELSE Null)
    [] n.k = "or"  -> LET v == Eval(n.l, cur, root, env) IN
                      IF ~IsVal(v) THEN v ELSE IF Truthy(v) THEN v ELSE Eval(n.r, cur, root, env)
    [] n.k = "and" -> LET v == Eval(n.l, cur, root, env) IN
                      IF ~IsVal(v) THEN v ELSE IF ~Truthy(v) THEN v ELSE Eval(n.r, cur, root, env)
    [] n.k = "not" -> LET v == Eval(n.x, cur, root, env) IN
                      IF ~IsVal(v) THEN v ELSE Bool(~Truthy(v))
    [] n.k = "cmp" ->
         LET os == <<Eval(n.l, cur, root, env), Eval(n.r, cur, root, env)>>  g == Gather(os) IN
         IF g # Null THEN g
         ELSE LET x == os[1]  y == os[2] IN
              IF n.op \in {"==", "!="}
              THEN (IF HasU(x) \/ HasU(y) THEN Open       \* compares element order
                    ELSE Bool(JEq(x, y) = (n.op = "==")))
              ELSE IF x.t = "num" /\ y.t = "num" THEN Bool(NumOrder(n.op, CmpNum(x, y)))
              ELSE IF x.t = "str" /\ y.t = "str" THEN Open   \* ordering of strings: not pinned
              ELSE Null
    [] n.k = "arith" ->
         LET os == <<Eval(n.l, cur, root, env), Eval(n.r, cur, root, env)>>  g == Gather(os) IN
         IF g # Null THEN g
         ELSE IF os[1].t # "num" \/ os[2].t # "num" THEN Err("invalid-type")
         ELSE ArithNum(n.op, os[1], os[2])
    [] n.k = "neg" -> LET v == Eval(n.x, cur, root, env) IN
                      IF ~IsVal(v) THEN v
                      ELSE IF v.t = "num" THEN NegNum(v)
                      ELSE Open          \* unary minus on a non-number: not pinned by the corpus
    [] n.k = "pos" -> LET v == Eval(n.x, cur, root, env) IN
                      IF ~IsVal(v) THEN v
                      ELSE IF v.t = "num" THEN v
                      ELSE Open
    [] n.k = "mslist" ->
         \* a multi-select is evaluated on whatever the current node is, null included: the corpus pins
         \* `null`|[@]  to [null].  That  null.[..]  is null is the sub-expression rule above, not a rule
         \* of the multi-select (it was left open here while the two were not told apart)
         LET os == EvalSeq2(n.xs, cur, root, env)  g == Gather(os) IN
              IF g # Null THEN g ELSE Arr(os)
    [] n.k = "mshash" ->
         LET os == EvalSeq2([i \in 1..Len(n.kvs) |-> n.kvs[i].x], cur, root, env)
                  g == Gather(os) IN
              IF g # Null THEN g
              ELSE Obj([i \in 1..Len(n.kvs) |-> Mem(n.kvs[i].k, os[i])])
    [] n.k = "let" ->
         LET os == EvalSeq2([i \in 1..Len(n.bs) |-> n.bs[i].x], cur, root, env)
             g == Gather(os) IN
         IF g # Null THEN g
         ELSE Eval(n.x, cur, root, Bind(env, [i \in 1..Len(n.bs) |-> n.bs[i].k], os))
    [] n.k = "call" -> EvalCall(n, cur, root, env)
    [] n.k = "expref" -> Open

EvalCall(n, cur, root, env) ==
  LET f   == n.f
      sig == Sigs[f]
      os  == [i \in 1..Len(n.as) |->
                IF n.as[i].k = "expref" THEN Null ELSE Eval(n.as[i], cur, root, env)]
      g   == Gather(os)
  IN
  \* "Functions are evaluated in applicative order ... each argument expression must be evaluated before
  \* evaluating the function": a failing argument fails the call, for not_null as for every other function
  \* (until the audit of round 8 a failure AFTER the first non-null argument was left open here, after
  \* the implementation's short-circuit)
  IF f = <<110,111,116,95,110,117,108,108>> /\ g = Null
  THEN LET nz == { i \in 1..Len(os) : os[i] # Null } IN
       IF nz = {} THEN Null ELSE os[CHOOSE i \in nz : \A j \in nz : i <= j]
  ELSE IF g # Null THEN g
  ELSE IF sig.refs = {} THEN Builtin(f, os)
  ELSE IF f = <<109,97,112>>
       THEN LET arr == os[2] IN
            IF arr.t # "arr" THEN Err("invalid-type")
            ELSE LET rs == EvalSeq(n.as[1].x, arr.a, root, env)  gg == Gather(rs) IN
                 IF gg # Null THEN gg ELSE ArrU(rs, arr.u /\ Len(rs) > 1)
  ELSE LET arr == os[1] IN
       IF arr.t # "arr" THEN Err("invalid-type")
       ELSE LET ks == EvalSeq(n.as[2].x, arr.a, root, env)  gg == Gather(ks) IN
            IF gg # Null THEN gg ELSE BuiltinBy(f, arr, ks)

=============================================================================
