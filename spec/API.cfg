SPECIFICATION Spec
CONSTANTS
  Emit = FALSE
  Prop = "C06"
  MaxCalls = 3
  MaxDocs = 6
  NTexts = 6
  TextSel <- AllSel
  NPool = 3
INVARIANTS
  Check
PROPERTIES
  Immutable
CHECK_DEADLOCK FALSE
