SPECIFICATION Spec
CONSTANTS
  Emit = FALSE
  Prop = "C13"
  Sizes = {1000, 1024, 1500}
INVARIANTS
  Check
CHECK_DEADLOCK FALSE
