\* GENERATED from GenIdent.tla.in by bin/tlapp -- edit the .in file
---------------------------- MODULE GenIdent ----------------------------
(***************************************************************************)
(* Structural identities of the language (property C17), written once as   *)
(* schemata over pools of sub-expressions.  Every instance is a pair of    *)
(* token sequences (lhs, rhs).  TLC checks on the model that the           *)
(* specification itself implies the identity for every instance and        *)
(* document (so the standard is checked to imply them), and emits the pair *)
(* so that the harness can evaluate both sides on the real code and        *)
(* compare them with each other and with the specification.                *)
(*                                                                         *)
(*  S1  P sels      =  P | [*] sels      for every kind of projection P    *)
(*  S2  x[*].e      =  map(&e, x)[*]     for an array x                    *)
(*  S4  a.b         =  a | b             when a is not a projection        *)
(*  S5  (P).s       =  P | s             parentheses / pipe end projection *)
(*  S6  [e1, e2]    =  concatenation of [e1] and [e2]   (non-null current) *)
(*  S7  {k: e}.k    =  e                                (non-null current) *)
(*  S8  b[n]        =  b | [n]  =  (b)[n]         for index literals n of  *)
(*                                                 every integer width     *)
(***************************************************************************)
EXTENDS JMES, Json, DocsCore, Toks, SequencesExt

Docs == PoolCore

CONSTANTS Emit, Prop, Big      \* Big: use the larger selector pool

\* The instances are enumerated in parallel: an initial state per bucket, one
\* successor per instance of the bucket.
VARIABLES bucket, idx
NB == 64

Bases == { <<Id(<<120>>)>>, <<CurT>>, <<Id(<<120>>), Dot, Id(<<97>>)>>, <<Id(<<120>>), LB, IntT(<<48>>), RB>> }
Projs == { <<LB, Star, RB>>, <<Flat>>, <<Filt, Id(<<97>>), RB>>, <<Filt, CurT, RB>>,
           <<LB, IntT(<<49>>), Colon, RB>>, <<LB, Colon, Colon, IntT(<<45,49>>), RB>>, <<Dot, Star>>,
           \* conditions that FAIL on some elements (after others have matched): an
           \* identity must preserve the failure, not only the values
           <<Filt, Id(<<97,98,115>>), LP, Id(<<97>>), RP, GtT, Json(<<96,48,96>>), RB>>,
           <<Filt, Id(<<97>>), PlusT, Json(<<96,49,96>>), GtT, Json(<<96,49,96>>), OrT, Id(<<108,101,110,103,116,104>>), LP, Id(<<98>>), RP, GtT, Json(<<96,48,96>>), RB>> }
Sel1 == { <<Dot, Id(<<97>>)>>, <<Dot, Id(<<98>>)>>, <<LB, IntT(<<48>>), RB>>, <<LB, IntT(<<45,49>>), RB>>,
          <<LB, IntT(<<49>>), Colon, RB>>, <<LB, Star, RB>>, <<Dot, Star>>, <<Filt, Id(<<97>>), RB>>,
          <<Dot, Id(<<97>>), LB, IntT(<<48>>), RB>>, <<Dot, QId(<<34,107,34>>)>> }
Sels == Sel1 \cup (IF Big THEN { s1 \o s2 : s1 \in Sel1, s2 \in Sel1 } ELSE
                   { s1 \o s2 : s1 \in {<<Dot, Id(<<97>>)>>, <<LB, IntT(<<48>>), RB>>, <<LB, Star, RB>>}, s2 \in Sel1 })
\* atoms that are not projections (for S4) and what may follow a dot
NonProj == { <<Id(<<120>>)>>, <<Id(<<97>>)>>, <<Id(<<120>>), Dot, Id(<<97>>)>>, <<Id(<<120>>), LB, IntT(<<48>>), RB>>,
             <<Id(<<120>>), LB, IntT(<<49>>), RB>>, <<CurT>> }
DotRhsPool == { <<Id(<<97>>)>>, <<Id(<<98>>)>>, <<Id(<<97>>), LB, IntT(<<48>>), RB>>, <<Id(<<97>>), Dot, Id(<<98>>)>>,
                <<Id(<<97>>), LB, Star, RB>>, <<Star>>, <<Id(<<97>>), Flat>> }
Es == { <<Id(<<97>>)>>, <<Id(<<98>>)>>, <<Id(<<97>>), Dot, Id(<<98>>)>>, <<Id(<<97>>), LB, IntT(<<48>>), RB>>, <<CurT>>,
        <<Id(<<97>>), LB, Star, RB>>, <<Json(<<96,49,96>>)>>, <<Id(<<97>>), OrT, Id(<<98>>)>> }

IdxLits == { <<48>>, <<49>>, <<45,49>>, <<50>>, <<45,50>>, <<49,50,55>>, <<49,50,56>>, <<45,49,50,56>>, <<45,49,50,57>>, <<50,53,53>>, <<50,53,54>>, <<45,50,53,53>>, <<45,50,53,54>>, <<51,50,55,54,55>>, <<51,50,55,54,56>>,
             <<54,53,53,51,53>>, <<54,53,53,51,54>>, <<50,49,52,55,52,56,51,54,52,55>>, <<50,49,52,55,52,56,51,54,52,56>>, <<45,50,49,52,55,52,56,51,54,52,57>>, <<52,50,57,52,57,54,55,50,57,54>>, <<48,49,48>>, <<45,48,49>> }
I(s, l, r) == [s |-> s, l |-> l, r |-> r]
Instances ==
     { I("S1", b \o p \o s, b \o p \o <<PipeT, LB, Star, RB>> \o s) : b \in Bases, p \in Projs, s \in Sels }
  \cup { I("S2", <<Id(<<120>>), LB, Star, RB, Dot>> \o e,
               <<Id(<<109,97,112>>), LP, AmpT>> \o e \o <<Comma, Id(<<120>>), RP, LB, Star, RB>>) : e \in DotRhsPool \ {<<Star>>, <<Id(<<97>>), Flat>>} }   \* a flatten would end the projection
  \cup { I("S4", a \o <<Dot>> \o b, a \o <<PipeT>> \o b) : a \in NonProj, b \in DotRhsPool }
  \cup { I("S5", <<LP>> \o b \o p \o <<RP>> \o s, b \o p \o <<PipeT>> \o (IF Head(s).k = "dot" THEN Tail(s) ELSE s)) :
           b \in Bases, p \in Projs, s \in Sel1 }
  \cup { I("S7", <<LBr, Id(<<107>>), Colon>> \o e \o <<RBr, Dot, Id(<<107>>)>>, e) : e \in Es }
  \* S8: b[n] = b | [n] = (b)[n]  -- the index literal means the same attached,
  \* bare after a pipe, and after parentheses, for every magnitude
  \* (b not a projection; a parenthesised projection is finished, so the index applies to its result)
  \cup { I("S8", b \o <<LB, IntT(n), RB>>, b \o <<PipeT, LB, IntT(n), RB>>) : b \in Bases, n \in IdxLits }
  \cup { I("S8", <<LP>> \o b \o <<RP, LB, IntT(n), RB>>, b \o <<PipeT, LB, IntT(n), RB>>) :
           b \in Bases \cup {bb \o pp : bb \in Bases, pp \in Projs}, n \in IdxLits }

InstSeq == SetToSeq(Instances)     \* [s |-> schema, l |-> lhs tokens, r |-> rhs tokens]
inst == InstSeq[idx]
Init == bucket \in 0..(NB - 1) /\ idx = 0
Next == idx = 0 /\ \E i \in 1..Len(InstSeq) : i % NB = bucket /\ idx' = i /\ UNCHANGED bucket
Spec == Init /\ [][Next]_<<bucket, idx>>

\* an array x for S2: the identity is stated for arrays only
IsArr(v) == v.t = "arr"
XOf(doc) == IF doc.t = "obj" THEN ObjGet(doc, <<120>>) ELSE Null

Check == idx > 0 =>
  LET la == [d \in 1..Len(Docs) |-> Admissible(inst.l, Docs[d])]
      ra == [d \in 1..Len(Docs) |-> Admissible(inst.r, Docs[d])]
      \* documents on which the schema's side condition holds
      dom == { d \in 1..Len(Docs) :
                 CASE inst.s = "S2" -> IsArr(XOf(Docs[d]))
                   [] inst.s = "S7" -> TRUE
                   [] OTHER -> TRUE }
      \* outside the domain nothing is claimed: the case is marked Open there
      adms == [d \in 1..Len(Docs) |-> IF d \in dom THEN la[d] \cup ra[d] ELSE {Open}]
      case == [p |-> Prop, kind |-> "pair", schema |-> inst.s, expr |-> Render(inst.l),
               expr2 |-> Render(inst.r), pool |-> "Core", adms |-> adms]
  IN /\ Emit => PrintT("CASE " \o ToJson(case))
     \* the specification implies the identity: both sides have the same
     \* admissible outcomes on every document of the domain
     \* (under the uniform reading of selector chains, which is the one the
     \* property states; where the reference binding powers give another
     \* grouping the case is emitted with both outcomes and the harness does
     \* not demand equality)
     /\ Named(\A d \in dom : LET a == OutcomeOf(Compile(inst.l, ModeU), Docs[d])
                                   b == OutcomeOf(Compile(inst.r, ModeU), Docs[d])
                               IN IsAny(a) \/ IsAny(b) \/ a = b,      \* Open = nothing claimed
              "IdentityHoldsInSpec")
     /\ Named(Lex(Render(inst.l)).ok /\ Lex(Render(inst.r)).ok, "Lexes")

\* S6 is structural in the specification: a multi-select list is the
\* sequence of its elements' values (checked here on the model; the harness
\* checks the real code against Eval for [e1,e2], [e1], [e2] through C01's
\* generator, which contains those forms)
S6 == \A e1 \in Es, e2 \in Es : \A d \in 1..Len(Docs) :
        LET both == Admissible(<<LB>> \o e1 \o <<Comma>> \o e2 \o <<RB>>, Docs[d])
            one  == Admissible(<<LB>> \o e1 \o <<RB>>, Docs[d])
            two  == Admissible(<<LB>> \o e2 \o <<RB>>, Docs[d])
        IN \A b \in both, o \in one, w \in two :
             (IsVal(b) /\ IsVal(o) /\ IsVal(w)) => b.a = o.a \o w.a
=============================================================================
