\* GENERATED from Decimal.tla.in by bin/tlapp -- edit the .in file
----------------------------- MODULE Decimal -----------------------------
(***************************************************************************)
(* Exact decimal arithmetic on digit sequences (property C05).             *)
(*                                                                         *)
(* TLC integers are 32-bit, decimal128 has 34 digits and exponents up to   *)
(* +-6144, so a number is  [neg, ds, e] :  (-1)^neg * ds * 10^e  with ds a *)
(* sequence of digits, most significant first, no leading zero (<<>> = 0). *)
(* Normal form also has no trailing zero (they move into e); zero is       *)
(* [FALSE, <<>>, 0].                                                       *)
(*                                                                         *)
(* Arith(op, a, b) returns the ADMISSIBLE outcomes: the exact result when  *)
(* it has at most 34 significant digits, otherwise the interval of values  *)
(* within one unit of the 34th significant digit of the exact value        *)
(* (see RangeV); not-a-number for division by zero and                     *)
(* overflow; Open below the normal range and where alignment would need    *)
(* more than AlignMax digits.  The library is checked against its own      *)
(* algebra by DecimalLaws before it is trusted.                            *)
(***************************************************************************)
EXTENDS Integers, Sequences, FiniteSets, TLC, Outcome

Prec == 34
EMax == 6144          \* largest adjusted exponent of decimal128
EMin == 0 - 6143
AlignMax == 80

Dec(neg, ds, e) == [neg |-> neg, ds |-> ds, e |-> e]
DZero == Dec(FALSE, <<>>, 0)
IsZero(x) == x.ds = <<>>

\* ---- naturals as digit sequences -----------------------------------------
RECURSIVE StripLead(_)
StripLead(d) == IF Len(d) > 0 /\ d[1] = 0 THEN StripLead(Tail(d)) ELSE d
RECURSIVE TrailZeros(_)
TrailZeros(d) == IF Len(d) > 0 /\ d[Len(d)] = 0 THEN 1 + TrailZeros(SubSeq(d, 1, Len(d) - 1)) ELSE 0
Zeros(k) == [i \in 1..k |-> 0]

RECURSIVE NLexLess(_, _, _)
NLexLess(a, b, i) == IF i > Len(a) THEN FALSE
                     ELSE IF a[i] # b[i] THEN a[i] < b[i] ELSE NLexLess(a, b, i + 1)
\* -1 / 0 / 1 on stripped sequences
NCmp(a, b) == IF Len(a) # Len(b) THEN (IF Len(a) < Len(b) THEN 0 - 1 ELSE 1)
              ELSE IF a = b THEN 0 ELSE IF NLexLess(a, b, 1) THEN 0 - 1 ELSE 1

\* digit i counted from the right (1 = units), 0 beyond the length
DR(a, i) == IF i <= Len(a) THEN a[Len(a) + 1 - i] ELSE 0

RECURSIVE AddFrom(_, _, _, _, _)
AddFrom(a, b, i, n, carry) ==   \* digits from position i (right-based) up, as a sequence MSD first
  IF i > n THEN (IF carry > 0 THEN <<carry>> ELSE <<>>)
  ELSE LET t == DR(a, i) + DR(b, i) + carry IN AddFrom(a, b, i + 1, n, t \div 10) \o <<t % 10>>
NAdd(a, b) == StripLead(AddFrom(a, b, 1, IF Len(a) > Len(b) THEN Len(a) ELSE Len(b), 0))

RECURSIVE SubFrom(_, _, _, _, _)
SubFrom(a, b, i, n, borrow) ==
  IF i > n THEN <<>>
  ELSE LET t == DR(a, i) - DR(b, i) - borrow IN
       IF t < 0 THEN SubFrom(a, b, i + 1, n, 1) \o <<t + 10>> ELSE SubFrom(a, b, i + 1, n, 0) \o <<t>>
NSub(a, b) == StripLead(SubFrom(a, b, 1, Len(a), 0))          \* requires a >= b

\* multiplication: convolution of the digit positions, then one carry pass
RECURSIVE ConvAt(_, _, _, _)
ConvAt(a, b, k, i) ==       \* sum over i..k of DR(a, i) * DR(b, k + 1 - i), positions right-based
  IF i > k THEN 0 ELSE DR(a, i) * DR(b, k + 1 - i) + ConvAt(a, b, k, i + 1)
RECURSIVE CarryFrom(_, _, _, _, _)
CarryFrom(a, b, k, n, carry) ==
  IF k > n THEN (IF carry = 0 THEN <<>> ELSE CarryFrom(a, b, k, n, carry \div 10) \o <<carry % 10>>)
  ELSE LET t == ConvAt(a, b, k, IF k > Len(b) THEN k + 1 - Len(b) ELSE 1) + carry IN
       CarryFrom(a, b, k + 1, n, t \div 10) \o <<t % 10>>
NMul(a, b) == IF a = <<>> \/ b = <<>> THEN <<>> ELSE StripLead(CarryFrom(a, b, 1, Len(a) + Len(b) - 1, 0))

\* how many times b fits into r (0..9), r < 10 * b
RECURSIVE Fit(_, _, _)
Fit(r, b, k) == IF NCmp(r, b) < 0 THEN [q |-> k, r |-> r] ELSE Fit(NSub(r, b), b, k + 1)
\* long division of digit sequence a by b (b # <<>>): [q, r]
RECURSIVE LongDiv(_, _, _, _, _)
LongDiv(a, b, i, q, r) ==
  IF i > Len(a) THEN [q |-> StripLead(q), r |-> r]
  ELSE LET r1 == StripLead(r \o <<a[i]>>)  f == Fit(r1, b, 0) IN LongDiv(a, b, i + 1, q \o <<f.q>>, f.r)
NDivMod(a, b) == LongDiv(a, b, 1, <<>>, <<>>)

\* ---- decimals -------------------------------------------------------------
Norm(neg, ds0, e) ==
  LET ds == StripLead(ds0) IN
  IF ds = <<>> THEN DZero
  ELSE LET z == TrailZeros(ds) IN Dec(neg, SubSeq(ds, 1, Len(ds) - z), e + z)
Adj(x) == Len(x.ds) + x.e - 1            \* adjusted exponent (of a non-zero number)
Negate(x) == IF IsZero(x) THEN x ELSE Dec(~x.neg, x.ds, x.e)
AbsD(x) == Dec(FALSE, x.ds, x.e)

\* compare magnitudes of non-zero numbers without aligning when the leading
\* positions already decide
CmpMag(x, y) ==
  IF IsZero(x) \/ IsZero(y) THEN (IF IsZero(x) /\ IsZero(y) THEN 0 ELSE IF IsZero(x) THEN 0 - 1 ELSE 1)
  ELSE IF Adj(x) # Adj(y) THEN (IF Adj(x) < Adj(y) THEN 0 - 1 ELSE 1)
  ELSE LET n == IF Len(x.ds) > Len(y.ds) THEN Len(x.ds) ELSE Len(y.ds) IN
       NCmp(x.ds \o Zeros(n - Len(x.ds)), y.ds \o Zeros(n - Len(y.ds)))
CmpD(x, y) ==
  IF IsZero(x) /\ IsZero(y) THEN 0
  ELSE IF IsZero(x) THEN (IF y.neg THEN 1 ELSE 0 - 1)
  ELSE IF IsZero(y) THEN (IF x.neg THEN 0 - 1 ELSE 1)
  ELSE IF x.neg # y.neg THEN (IF x.neg THEN 0 - 1 ELSE 1)
  ELSE IF x.neg THEN 0 - CmpMag(x, y) ELSE CmpMag(x, y)

\* aligned digit sequences at the smaller exponent (gap must be small)
Gap(x, y) == IF x.e > y.e THEN x.e - y.e ELSE y.e - x.e
AlignedX(x, y) == IF x.e > y.e THEN x.ds \o Zeros(x.e - y.e) ELSE x.ds
MinE(x, y) == IF x.e < y.e THEN x.e ELSE y.e

\* exact results (normalised Dec), assuming alignment is feasible
ExactAdd(x, y) ==
  IF IsZero(x) THEN y ELSE IF IsZero(y) THEN x
  ELSE LET a == AlignedX(x, y)  b == AlignedX(y, x)  e == MinE(x, y) IN
       IF x.neg = y.neg THEN Norm(x.neg, NAdd(a, b), e)
       ELSE LET c == NCmp(a, b) IN
            IF c = 0 THEN DZero
            ELSE IF c > 0 THEN Norm(x.neg, NSub(a, b), e) ELSE Norm(y.neg, NSub(b, a), e)
ExactMul(x, y) == IF IsZero(x) \/ IsZero(y) THEN DZero ELSE Norm(x.neg # y.neg, NMul(x.ds, y.ds), x.e + y.e)

\* ---- rounding to the admissible set ---------------------------------------
NumV(x) == [t |-> "num", neg |-> x.neg, ds |-> x.ds, e |-> x.e]

\* Beyond 34 digits the property admits every value within one unit of the
\* 34th significant digit of the exact value x.  With T = x truncated to 34
\* digits (T <= |x| < T + 1ulp) that set is contained in the closed interval
\* [T - 1ulp, T + 2ulp], which is what is emitted (an over-approximation by
\* less than one ulp: never a false alarm; the exact 35-digit value, a
\* truncation and every rounding mode are all inside).
RangeV(neg, t, e) == [t |-> "range", neg |-> neg, lo |-> NSub(t, <<1>>), hi |-> NAdd(t, <<2>>), e |-> e]

\* x exact (normalised): the set of admissible results
Round(x) ==
  IF IsZero(x) THEN {NumV(DZero)}
  ELSE IF Adj(x) < EMin THEN {Open}                            \* subnormal range: not pinned
  ELSE (IF Adj(x) > EMax THEN {Err("not-a-number")} ELSE {})   \* overflow: an error -- or, for a
       \* representation whose exponent range is wider than IEEE decimal128's, still the right value
       \cup (IF Len(x.ds) <= Prec THEN {NumV(x)}
             ELSE { RangeV(x.neg, SubSeq(x.ds, 1, Prec), x.e + Len(x.ds) - Prec) })
\* a result known only as "t plus something positive below one unit of t"
RoundInexact(neg, t, e) ==     \* t has at least Prec + 2 digits
  LET x == Dec(neg, t, e) IN
  IF Adj(x) < EMin THEN {Open}
  ELSE (IF Adj(x) > EMax THEN {Err("not-a-number")} ELSE {})
       \cup { RangeV(neg, SubSeq(t, 1, Prec), e + Len(t) - Prec) }

\* quotient x / y (y # 0): Prec + 2 significant digits, then exact or inexact
Quot(x, y) ==
  IF IsZero(x) THEN {NumV(DZero)}
  ELSE LET pad == Len(y.ds) + Prec + 2                       \* enough digits for Prec + 2 of quotient
           a   == x.ds \o Zeros(pad)
           d   == NDivMod(a, y.ds)
           e   == x.e - y.e - pad
           neg == x.neg # y.neg
       IN IF d.r = <<>> THEN Round(Norm(neg, d.q, e))
          ELSE RoundInexact(neg, d.q, e)                      \* Len(d.q) >= Prec + 2

\* integer quotient and remainder for operands of equal sign (flooring and
\* truncation agree); Open when the signs differ or alignment is infeasible
IntQuot(x, y, wantRem) ==
  IF IsZero(x) THEN {NumV(DZero)}
  ELSE IF x.neg # y.neg THEN {Open}
  ELSE IF Gap(x, y) > AlignMax THEN {Open}
  ELSE LET a == AlignedX(x, y)  b == AlignedX(y, x)  d == NDivMod(a, b) IN
       IF wantRem THEN Round(Norm(x.neg, d.r, MinE(x, y))) ELSE Round(Norm(FALSE, d.q, 0))

FloorD(x) ==      \* largest integer <= x
  IF x.e >= 0 THEN x
  ELSE IF Len(x.ds) <= 0 - x.e
       THEN (IF x.neg THEN Dec(TRUE, <<1>>, 0) ELSE DZero)      \* |x| < 1
       ELSE LET ip == SubSeq(x.ds, 1, Len(x.ds) + x.e) IN
            IF x.neg THEN Norm(TRUE, NAdd(ip, <<1>>), 0) ELSE Norm(FALSE, ip, 0)
CeilD(x) == Negate(FloorD(Negate(x)))

DArith(op, x, y) ==
  CASE op = "+" -> IF ~IsZero(x) /\ ~IsZero(y) /\ Gap(x, y) > AlignMax THEN {Open} ELSE Round(ExactAdd(x, y))
    [] op = "-" -> IF ~IsZero(x) /\ ~IsZero(y) /\ Gap(x, y) > AlignMax THEN {Open} ELSE Round(ExactAdd(x, Negate(y)))
    [] op = "*" -> Round(ExactMul(x, y))
    [] op = "/" -> IF IsZero(y) THEN {Err("not-a-number")} ELSE Quot(x, y)
    [] op = "//" -> IF IsZero(y) THEN {Err("not-a-number")} ELSE IntQuot(x, y, FALSE)
    [] op = "%" -> IF IsZero(y) THEN {Err("not-a-number")} ELSE IntQuot(x, y, TRUE)

\* ---- JSON text of a decimal (code points) --------------------------------
RECURSIVE NatCps(_)
NatCps(n) == IF n < 10 THEN <<48 + n>> ELSE NatCps(n \div 10) \o <<48 + (n % 10)>>
DecText(x) ==
  IF IsZero(x) THEN <<48>>
  ELSE (IF x.neg THEN <<45>> ELSE <<>>) \o [i \in 1..Len(x.ds) |-> 48 + x.ds[i]]
       \o (IF x.e = 0 THEN <<>> ELSE <<101>> \o (IF x.e < 0 THEN <<45>> ELSE <<>>) \o NatCps(IF x.e < 0 THEN 0 - x.e ELSE x.e))
\* plain spelling with a decimal point where that is short
DecTextPlain(x) ==
  IF ~IsZero(x) /\ x.e < 0 /\ 0 - x.e < Len(x.ds)
  THEN (IF x.neg THEN <<45>> ELSE <<>>) \o [i \in 1..(Len(x.ds) + x.e) |-> 48 + x.ds[i]] \o <<46>>
       \o [i \in 1..(0 - x.e) |-> 48 + x.ds[Len(x.ds) + x.e + i]]
  ELSE DecText(x)
=============================================================================
