\* GENERATED from GenNames.tla.in by bin/tlapp -- edit the .in file
----------------------------- MODULE GenNames -----------------------------
(***************************************************************************)
(* Member NAMES that look like syntax (properties C17, C01, C16): quoted    *)
(* identifiers whose decoded name contains a dot, a bracket, a star, a     *)
(* pipe, a blank, a quote, a digit-only or keyword-like text, the empty    *)
(* name ... used in every position a name can take, on a document that     *)
(* holds the member AND the decoy a wrong reading would find instead       *)
(* ({"x.y": ..} next to {"x": {"y": ..}}).  Each form is paired with its   *)
(* piped spelling (identity S4 of GenIdent: a.b = a | b when a is not a    *)
(* projection).  Oracle: Eval; names are code-point sequences there and    *)
(* never re-parsed.                                                        *)
(***************************************************************************)
EXTENDS JMES, Json, Toks, SequencesExt
CONSTANTS Emit, Prop

Names == << <<120,46,121>>, <<120,46,121,46,99>>, <<97,32,98>>, <<120,91,48,93>>, <<42>>, <<64>>, <<97,124,98>>, <<36>>, <<38,97>>, <<120,44,121>>, <<>>, <<48>>, <<45,49>>, <<116,114,117,101>>, <<110,117,108,108>>,
            <<97,34,98>>, <<97,92,98>>, <<233>>, <<120,46>>, <<46,121>>, <<46,46>>, <<91,93>>, <<91,63,120,93>>, <<123,120,125>>, <<108,101,116>>, <<105,110>>, <<120,32,121,46,122>>, <<39,113,39>>, <<96,49,96>>, <<97,58,98>>, <<128512,46,121>> >>
Q(nm) == QId(EncQuoted(nm, FALSE))
C == Id(<<99>>)  Bf == Id(<<98>>)
\* the document: the member under test at the top, inside b, inside the elements of arr;
\* and what a reading that splits the name at dots / brackets would find
DocOf(nm) == Obj(<<
  Mem(nm, Obj(<<Mem(<<99>>, JInt(1)), Mem(nm, JInt(11))>>)),
  Mem(<<98>>, Obj(<<Mem(nm, Obj(<<Mem(<<99>>, JInt(3))>>)), Mem(<<99>>, JInt(4))>>)),
  Mem(<<97,114,114>>, Arr(<<Obj(<<Mem(nm, JInt(5))>>), Obj(<<Mem(nm, JInt(6)), Mem(<<99>>, JInt(7))>>), Obj(<<Mem(<<99>>, JInt(8))>>)>>)),
  Mem(<<120>>, Obj(<<Mem(<<121>>, Obj(<<Mem(<<99>>, JInt(2)), Mem(<<122>>, JInt(9))>>)), Mem(<<>>, JInt(12))>>)),
  Mem(<<121>>, Obj(<<Mem(<<99>>, JInt(13))>>)),
  Mem(<<99>>, JInt(10)),
  Mem(<<97>>, Obj(<<Mem(<<99>>, JInt(14))>>)) >>)

P(l, r) == [l |-> l, r |-> r]
Forms(nm) == LET q == Q(nm) IN <<
  P(<<q>>, <<CurT, Dot, q>>),
  P(<<q, Dot, C>>, <<q, PipeT, C>>),
  P(<<Bf, Dot, q>>, <<Bf, PipeT, q>>),
  P(<<Bf, Dot, q, Dot, C>>, <<Bf, PipeT, q, PipeT, C>>),
  P(<<q, Dot, q>>, <<q, PipeT, q>>),
  P(<<CurT, Dot, q, Dot, C>>, <<LP, q, RP, Dot, C>>),
  P(<<Id(<<97,114,114>>), LB, Star, RB, Dot, q>>, <<Id(<<109,97,112>>), LP, AmpT, q, Comma, Id(<<97,114,114>>), RP, LB, Star, RB>>),
  P(<<Id(<<97,114,114>>), Filt, q, RB, Dot, C>>, <<Id(<<97,114,114>>), Filt, q, RB, PipeT, LB, Star, RB, Dot, C>>),
  P(<<Id(<<97,114,114>>), LB, IntT(<<49>>), RB, Dot, q>>, <<Id(<<97,114,114>>), LB, IntT(<<49>>), RB, PipeT, q>>),
  P(<<LBr, q, Colon, C, RBr, Dot, q>>, <<C>>),
  P(<<LBr, q, Colon, q, RBr, Dot, q, Dot, C>>, <<q, Dot, C>>),
  P(<<Id(<<115,111,114,116,95,98,121>>), LP, Id(<<97,114,114>>), LB, Colon, IntT(<<50>>), RB, Comma, AmpT, q, RP, LB, IntT(<<48>>), RB, Dot, q>>, <<Id(<<97,114,114>>), LB, IntT(<<48>>), RB, Dot, q>>),
  P(<<LetT, VarT(<<36,118>>), AssignT, q, InT, VarT(<<36,118>>), Dot, C>>, <<q, Dot, C>>),
  P(<<Star, Dot, q>>, <<Star, PipeT, LB, Star, RB, Dot, q>>),
  P(<<Id(<<107,101,121,115>>), LP, LBr, q, Colon, C, RBr, RP, LB, IntT(<<48>>), RB>>, <<Json(EncJSON(Str(nm)))>>),
  P(<<q, Dot, C, EqT, Json(<<96,49,96>>)>>, <<Json(<<96,116,114,117,101,96>>)>>),
  P(<<Bf, Dot, q, Dot, C, PlusT, q, Dot, C>>, <<Json(<<96,52,96>>)>>) >>

VARIABLES bucket, idx
Init == bucket \in 1..Len(Names) /\ idx = 0
Next == idx = 0 /\ idx' = 1 /\ UNCHANGED bucket
Spec == Init /\ [][Next]_<<bucket, idx>>

Check == idx > 0 =>
  LET nm == Names[bucket]  doc == DocOf(nm)  fs == Forms(nm)
      cases == { [p |-> Prop, kind |-> "pair", strict |-> FALSE, expr |-> Render(fs[i].l), expr2 |-> Render(fs[i].r), doc |-> doc, carriers |-> <<>>,
                  adm |-> Admissible(fs[i].l, doc) \cup Admissible(fs[i].r, doc)] : i \in 1..Len(fs) }
  IN /\ Emit => \A c \in cases : PrintT("CASE " \o ToJson(c))
     \* the two spellings mean the same in the specification, and the name is found (not null) where the document has it
     /\ Named(\A i \in 1..Len(fs) : Admissible(fs[i].l, doc) = Admissible(fs[i].r, doc)
                \/ ~PrintT(<<"NAMEFORM", nm, i, Admissible(fs[i].l, doc), Admissible(fs[i].r, doc)>>), "SpellingsAgree")
     /\ Named(Admissible(<<Q(nm), Dot, C>>, doc) = {JInt(1)} /\ Admissible(<<Bf, Dot, Q(nm), Dot, C>>, doc) = {JInt(3)}, "NameIsOneName")
=============================================================================
