\* GENERATED from GenArith.tla.in by bin/tlapp -- edit the .in file
----------------------------- MODULE GenArith -----------------------------
(***************************************************************************)
(* Exact decimal arithmetic (property C05): every ordered pair of a pool   *)
(* of operands (small values, 0.1-family, 64-bit boundary integers, 33-    *)
(* and 34-digit coefficients, exponents across the decimal128 range)       *)
(* through + - * / // %, the six comparisons, sum, avg, and every operand  *)
(* through abs, ceil, floor, unary - and +, to_number.  Operands are       *)
(* written as literals, and also supplied as document numbers (carried as  *)
(* JSON text and as decimal values).  Oracle: Decimal.tla (checked against *)
(* TLC's integers and algebraic laws by the DecimalLaws modules).                     *)
(***************************************************************************)
EXTENDS Decimal, Json, SequencesExt, FiniteSets

CONSTANTS Emit, Prop, Big      \* Big: the full pool

Nines(n) == [i \in 1..n |-> 9]
Threes(n) == [i \in 1..n |-> 3]
Count(n) == [i \in 1..n |-> (i % 10)]           \* 1234567890123...
P(ds, e) == Norm(FALSE, ds, e)
M(ds, e) == Norm(TRUE, ds, e)
Core == { DZero, P(<<1>>, 0), M(<<1>>, 0), P(<<2>>, 0), P(<<3>>, 0), M(<<7>>, 0), P(<<1>>, 1), P(<<9, 9>>, 0),
          P(<<1>>, 0 - 1), P(<<2>>, 0 - 1), P(<<3>>, 0 - 1), M(<<3>>, 0 - 1), P(<<1, 5>>, 0 - 1), M(<<2, 5>>, 0 - 1),
          P(<<9, 2, 2, 3, 3, 7, 2, 0, 3, 6, 8, 5, 4, 7, 7, 5, 8, 0, 7>>, 0),      \* 2^63 - 1
          P(<<9, 2, 2, 3, 3, 7, 2, 0, 3, 6, 8, 5, 4, 7, 7, 5, 8, 0, 8>>, 0),      \* 2^63
          P(<<9, 2, 2, 3, 3, 7, 2, 0, 3, 6, 8, 5, 4, 7, 7, 5, 8, 0, 9>>, 0),      \* 2^63 + 1
          M(<<9, 2, 2, 3, 3, 7, 2, 0, 3, 6, 8, 5, 4, 7, 7, 5, 8, 0, 8>>, 0),
          P(<<9, 0, 0, 7, 1, 9, 9, 2, 5, 4, 7, 4, 0, 9, 9, 3>>, 0),               \* 2^53 + 1
          P(<<4, 5, 0, 3, 5, 9, 9, 6, 2, 7, 3, 7, 0, 4, 9, 6>>, 0),               \* 2^52
          P(<<9, 0, 0, 7, 1, 9, 9, 2, 5, 4, 7, 4, 0, 9, 9, 2>>, 0),               \* 2^53
          M(<<9, 0, 0, 7, 1, 9, 9, 2, 5, 4, 7, 4, 0, 9, 9, 3>>, 0),               \* -(2^53 + 1)
          P(Nines(34), 0), P(Threes(34), 0), P(Count(34), 0), P(<<1>>, 33), P(<<5>>, 33),
          P(Nines(34), 0 - 34), P(Threes(34), 0 - 33), P(<<7>>, 0 - 34),
          \* binary fractions: exact as float64, long as decimals (1 + 2^-30, 2^-25 and its neighbour)
          P(<<1, 0, 0, 0, 0, 0, 0, 0, 0, 0, 9, 3, 1, 3, 2, 2, 5, 7, 4, 6, 1, 5, 4, 7, 8, 5, 1, 5, 6, 2, 5>>, 0 - 30),
          P(<<2, 9, 8, 0, 2, 3, 2, 2, 3, 8, 7, 6, 9, 5, 3, 1, 2, 5>>, 0 - 25),
          P(<<2, 9, 8, 0, 2, 3, 2, 2, 3, 8, 7, 6, 9, 5, 3, 1, 2, 4>>, 0 - 25) }
More == { P(Nines(33), 0), M(Nines(34), 0), P(<<1>>, 34), P(<<1>>, 0 - 40), P(<<2, 5>>, 0 - 2), P(Count(34), 0 - 17),
          P(<<1>>, 6000), P(Nines(34), 6111), P(<<1>>, 0 - 6000), P(<<1>>, 6111), M(<<5>>, 6144), P(<<1>>, 100),
          P(<<1>>, 0 - 6143), P(Count(20), 0 - 10), M(Count(34), 0 - 34), P(<<6>>, 0), P(<<1, 2, 5>>, 0 - 3) }
Pool == IF Big THEN Core \cup More ELSE Core \cup { P(<<1>>, 6000), P(Nines(34), 6111), P(<<1>>, 0 - 6000), M(Nines(34), 0) }
\* summands for the three-element sums: small integers (int32 range) next to 34-digit values
TriPool == { DZero, P(<<1>>, 0), M(<<7>>, 0), M(<<6>>, 8), P(<<2, 1, 4, 7, 4, 8, 3, 6, 4, 7>>, 0), P(<<1, 5>>, 0 - 1),
             P(Nines(34), 0 - 25), P(<<5>> \o [i \in 1..32 |-> 0] \o <<5>>, 0 - 25), M(<<5>> \o [i \in 1..32 |-> 0] \o <<5>>, 0 - 25),
             P(Nines(34), 0), M(Nines(34), 0), P(Threes(34), 0 - 33), P(<<9, 0, 0, 7, 1, 9, 9, 2, 5, 4, 7, 4, 0, 9, 9, 3>>, 0) }
PoolSeq == SetToSeq(Pool \cup TriPool)
N == Len(PoolSeq)

VARIABLES bucket, idx
Init == bucket \in 1..N /\ idx = 0
Next == idx = 0 /\ \E j \in 1..N : idx' = j /\ UNCHANGED bucket
Spec == Init /\ [][Next]_<<bucket, idx>>

Lit(x) == <<96>> \o DecText(x) \o <<96>>
LitPlain(x) == <<96>> \o DecTextPlain(x) \o <<96>>
OpCps(op) == CASE op = "+" -> <<32, 43, 32>> [] op = "-" -> <<32, 45, 32>> [] op = "*" -> <<32, 42, 32>>
               [] op = "/" -> <<32, 47, 32>> [] op = "//" -> <<32, 47, 47, 32>> [] op = "%" -> <<32, 37, 32>>
               [] op = "==" -> <<61, 61>> [] op = "!=" -> <<33, 61>> [] op = "<" -> <<60>> [] op = "<=" -> <<60, 61>>
               [] op = ">" -> <<62>> [] op = ">=" -> <<62, 61>>
ArithOps == {"+", "-", "*", "/", "//", "%"}
CmpOps == {"==", "!=", "<", "<=", ">", ">="}
BoolV(b) == [t |-> "bool", b |-> b]
CmpHolds(op, c) == CASE op = "==" -> c = 0 [] op = "!=" -> c # 0 [] op = "<" -> c < 0 [] op = "<=" -> c <= 0
                     [] op = ">" -> c > 0 [] op = ">=" -> c >= 0
Word(s) == s
NullV == [t |-> "null"]
DocAB(x, y) == [t |-> "obj", o |-> <<[k |-> <<97>>, v |-> NumV(x)], [k |-> <<98>>, v |-> NumV(y)]>>]

\* the division by the count in avg: (x + y) / 2, computed exactly first
Avg2(x, y) == IF ~IsZero(x) /\ ~IsZero(y) /\ Gap(x, y) > AlignMax THEN {Open}
              ELSE LET s == ExactAdd(x, y) IN
                   \* the sum itself may already need rounding: then it is open which of the two is halved
                   IF ~IsZero(s) /\ Len(s.ds) > Prec THEN {Open}
                   ELSE IF ~IsZero(s) /\ Adj(s) > EMax THEN {Open, Err("not-a-number")}
                   ELSE Quot(s, Dec(FALSE, <<2>>, 0))

Named(ok, name) == ok \/ ~PrintT("MODELFAIL " \o name)

Check == idx > 0 =>
  LET x == PoolSeq[bucket]  y == PoolSeq[idx]
      bin(op) == LET adm == IF op \in ArithOps THEN DArith(op, x, y) ELSE {BoolV(CmpHolds(op, CmpD(x, y)))} IN
                 { [expr |-> Lit(x) \o OpCps(op) \o Lit(y), doc |-> NullV, adm |-> adm, carriers |-> <<>>],
                   [expr |-> <<97>> \o OpCps(op) \o <<98>>, doc |-> DocAB(x, y), adm |-> adm, carriers |-> <<"json", "json">>],
                   [expr |-> <<97>> \o OpCps(op) \o <<98>>, doc |-> DocAB(x, y), adm |-> adm, carriers |-> <<"decimal", "decimal">>],
                   [expr |-> <<97>> \o OpCps(op) \o LitPlain(y), doc |-> DocAB(x, y), adm |-> adm, carriers |-> <<"decimal", "json">>],
                   \* mixed native carriers (skipped by the harness when a kind cannot hold the value exactly)
                   [expr |-> <<97>> \o OpCps(op) \o <<98>>, doc |-> DocAB(x, y), adm |-> adm, carriers |-> <<"int64", "float64">>],
                   [expr |-> <<97>> \o OpCps(op) \o <<98>>, doc |-> DocAB(x, y), adm |-> adm, carriers |-> <<"float64", "uint64">>],
                   [expr |-> <<97>> \o OpCps(op) \o <<98>>, doc |-> DocAB(x, y), adm |-> adm, carriers |-> <<"int64", "decimal">>],
                   [expr |-> <<97>> \o OpCps(op) \o <<98>>, doc |-> DocAB(x, y), adm |-> adm, carriers |-> <<"float32", "json">>],
                   [expr |-> <<97>> \o OpCps(op) \o <<98>>, doc |-> DocAB(x, y), adm |-> adm, carriers |-> <<"float64", "json">>],
                   [expr |-> <<97>> \o OpCps(op) \o <<98>>, doc |-> DocAB(x, y), adm |-> adm, carriers |-> <<"decimal", "float64">>],
                   [expr |-> <<97>> \o OpCps(op) \o Lit(y), doc |-> DocAB(x, y), adm |-> adm, carriers |-> <<"float64", "json">>],
                   [expr |-> <<97>> \o OpCps(op) \o <<98>>, doc |-> DocAB(x, y), adm |-> adm, carriers |-> <<"int64", "int64">>],
                   [expr |-> <<97>> \o OpCps(op) \o <<98>>, doc |-> DocAB(x, y), adm |-> adm, carriers |-> <<"uint64", "int">>],
                   [expr |-> <<99,111,110,116,97,105,110,115,40,91,97,93,44,98,41>>, doc |-> DocAB(x, y), adm |-> {BoolV(CmpD(x, y) = 0)}, carriers |-> <<"int64", "float64">>],
                   [expr |-> <<99,111,110,116,97,105,110,115,40,91,98,93,44,97,41>>, doc |-> DocAB(x, y), adm |-> {BoolV(CmpD(x, y) = 0)}, carriers |-> <<"int64", "uint64">>] }
      sumadm == IF ~IsZero(x) /\ ~IsZero(y) /\ Gap(x, y) > AlignMax THEN {Open} ELSE Round(ExactAdd(x, y))
      fns == { [expr |-> <<115,117,109,40,91>> \o Lit(x) \o <<44>> \o Lit(y) \o <<93,41>>, doc |-> DocAB(x, y), adm |-> sumadm, carriers |-> <<>>],
               [expr |-> <<115,117,109,40,91,97,44,98,93,41>>, doc |-> DocAB(x, y), adm |-> sumadm, carriers |-> <<"decimal", "json">>],
               [expr |-> <<97,118,103,40,91>> \o Lit(x) \o <<44>> \o Lit(y) \o <<93,41>>, doc |-> DocAB(x, y), adm |-> Avg2(x, y), carriers |-> <<>>] }
      \* three summands, left to right: when every partial sum is exact the total is exact
      \* (an implementation that adds in another order may round where this one does not)
      tri == IF ~(x \in TriPool /\ y \in TriPool) THEN {} ELSE
             UNION { LET s1 == ExactAdd(x, y)  s2 == ExactAdd(s1, z)
                         fine == (IsZero(x) \/ IsZero(y) \/ Gap(x, y) <= AlignMax) /\ (IsZero(s1) \/ Len(s1.ds) <= Prec)
                                 /\ (IsZero(s1) \/ IsZero(z) \/ Gap(s1, z) <= AlignMax) /\ (IsZero(s1) \/ Adj(s1) <= EMax)
                         adm == IF fine THEN Round(s2) ELSE {Open}
                     IN { [expr |-> <<115,117,109,40,91>> \o Lit(x) \o <<44>> \o Lit(y) \o <<44>> \o Lit(z) \o <<93,41>>, doc |-> DocAB(x, y), adm |-> adm, carriers |-> <<>>],
                          [expr |-> <<115,117,109,40,91,97,44,98,44>> \o Lit(z) \o <<93,41>>, doc |-> DocAB(x, y), adm |-> adm, carriers |-> <<"json", "json">>],
                          [expr |-> <<115,117,109,40,91,97,44,98,44>> \o Lit(z) \o <<93,41>>, doc |-> DocAB(x, y), adm |-> adm, carriers |-> <<"int64", "decimal">>],
                          [expr |-> <<115,117,109,40,91,97,44,98,44>> \o Lit(z) \o <<93,41>>, doc |-> DocAB(x, y), adm |-> adm, carriers |-> <<"json", "int32">>],
                          [expr |-> Lit(x) \o <<32,43,32>> \o Lit(y) \o <<32,43,32>> \o Lit(z), doc |-> DocAB(x, y), adm |-> adm, carriers |-> <<>>],
                          [expr |-> <<97,118,103,40,91>> \o Lit(x) \o <<44>> \o Lit(y) \o <<44>> \o Lit(z) \o <<93,41,32,42,32,96,51,96,32,61,61,32,115,117,109,40,91>> \o Lit(x) \o <<44>> \o Lit(y) \o <<44>> \o Lit(z) \o <<93,41>>,
                           doc |-> DocAB(x, y), adm |-> IF fine /\ ~IsZero(s2) /\ Len(s2.ds) <= 30 /\ Adj(s2) < 1000 /\ Adj(s2) > 0 - 1000 /\ Len(ExactMul(s2, P(<<3>>, 0)).ds) <= 30
                                                  /\ Cardinality(Quot(s2, P(<<3>>, 0))) = 1 /\ (\A q \in Quot(s2, P(<<3>>, 0)) : q.t = "num") THEN {BoolV(TRUE)} ELSE {Open}, carriers |-> <<>>] }
                   : z \in TriPool }
      una == IF idx # 1 THEN {} ELSE
             { [expr |-> <<97,98,115,40>> \o Lit(x) \o <<41>>, doc |-> NullV, adm |-> Round(AbsD(x)), carriers |-> <<>>],
               [expr |-> <<99,101,105,108,40>> \o Lit(x) \o <<41>>, doc |-> NullV, adm |-> Round(Norm(CeilD(x).neg, CeilD(x).ds, CeilD(x).e)), carriers |-> <<>>],
               [expr |-> <<102,108,111,111,114,40>> \o Lit(x) \o <<41>>, doc |-> NullV, adm |-> Round(Norm(FloorD(x).neg, FloorD(x).ds, FloorD(x).e)), carriers |-> <<>>],
               [expr |-> <<102,108,111,111,114,40,97,41>>, doc |-> DocAB(x, x), adm |-> Round(Norm(FloorD(x).neg, FloorD(x).ds, FloorD(x).e)), carriers |-> <<"decimal", "json">>],
               [expr |-> <<45>> \o Lit(x), doc |-> NullV, adm |-> Round(Negate(x)), carriers |-> <<>>],
               [expr |-> <<43>> \o Lit(x), doc |-> NullV, adm |-> Round(x), carriers |-> <<>>],
               [expr |-> <<116,111,95,110,117,109,98,101,114,40,39>> \o DecTextPlain(x) \o <<39,41>>, doc |-> NullV, adm |-> Round(x), carriers |-> <<>>],
               [expr |-> <<116,111,95,110,117,109,98,101,114,40,39>> \o DecText(x) \o <<39,41,61,61>> \o LitPlain(x), doc |-> NullV, adm |-> {BoolV(TRUE)}, carriers |-> <<>>],
               [expr |-> LitPlain(x), doc |-> NullV, adm |-> Round(x), carriers |-> <<>>] }
      all == UNION { bin(op) : op \in ArithOps \cup CmpOps } \cup fns \cup una \cup tri
      case == [p |-> Prop, kind |-> "search", multi |-> all]
  IN /\ Emit => PrintT("CASE " \o ToJson(case))
     \* sanity of the oracle on this pair
     /\ Named(DArith("+", x, y) = DArith("+", y, x) /\ DArith("*", x, y) = DArith("*", y, x), "Commutative")
     /\ Named(CmpD(x, y) = 0 - CmpD(y, x), "CmpAntisymmetric")
=============================================================================
