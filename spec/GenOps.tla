\* GENERATED from GenOps.tla.in by bin/tlapp -- edit the .in file
----------------------------- MODULE GenOps -----------------------------
(***************************************************************************)
(* Operator precedence and associativity (property C10).                   *)
(* Instances:  u1 x  op1  u2 y  [op2  u3 z]   over all 18 spellings of the *)
(* binary operators and optional unary prefixes, evaluated on documents    *)
(* that assign every combination of pool values to x, y, z.                *)
(*                                                                         *)
(* Model-level checks (TLC):                                               *)
(*   GroupsByTable   the AST produced by Grammar (a Pratt loop) groups     *)
(*                   exactly as the standard's precedence LEVELS dictate   *)
(*                   (an independent, stratified statement of the rule):   *)
(*                   higher level binds tighter, equal levels to the left  *)
(*   ParenNeutral    printing the AST with every implied parenthesis       *)
(*                   explicit and parsing it again gives the same AST      *)
(* Conformance: the harness evaluates the text and its fully parenthesised *)
(* form on the real code and compares both with Eval and with each other.  *)
(***************************************************************************)
EXTENDS JMES, Json, Toks, SequencesExt, DocsOps, DocsOpsBig, DocsOps4

CONSTANTS Emit, Prop, Triples, Pool, NDocs, Quads

\* the 18 spellings
BinToks == << PipeT, OrT, AndT, EqT, NeT, LtT, LeT, GtT, GeT, PlusT, MinusT, MinusUT,
              Star, MultT, DivT, DivUT, IDivT, ModT >>
\* precedence levels of the standard, loosest to tightest
Level(k) == CASE k = "pipe" -> 1 [] k = "or" -> 2 [] k = "and" -> 3
              [] k \in {"eq", "ne", "lt", "le", "gt", "ge"} -> 4
              [] k \in {"plus", "minus"} -> 5
              [] k \in {"star", "mult", "div", "idiv", "mod"} -> 6

UnaryPfx == << <<>>, <<NotT>>, <<MinusT>>, <<PlusT>> >>
X == Id(<<120>>)  Y == Id(<<121>>)  Z == Id(<<122>>)  W == Id(<<119>>)

\* one prefix position at a time (keeps the product small, still every
\* operator sees every prefix on either side)
PrefixCombos == { <<1, 1, 1>> } \cup { <<p, 1, 1>> : p \in 2..4 } \cup { <<1, p, 1>> : p \in 2..4 }
                \cup { <<1, 1, p>> : p \in 2..4 }

Inst2 == { [o1 |-> a, o2 |-> 0, pf |-> pf] : a \in 1..18, pf \in { q \in PrefixCombos : q[3] = 1 } }
Inst3 == { [o1 |-> a, o2 |-> b, pf |-> pf] : a \in 1..18, b \in 1..18, pf \in PrefixCombos }
\* three operators, four operands:  x op1 y op2 z op3 w  (one spelling per
\* operator; Quads = "rep": one operator per precedence level, "all": every operator)
OneEach == {1, 2, 3, 4, 6, 10, 11, 13, 15, 17, 18, 5, 7, 8, 9}        \* | || && == < + - * / // % != <= > >=
PerLevel == {1, 2, 3, 4, 10, 13}                                       \* | || && == + *
QOps == IF Quads = "all" THEN OneEach ELSE IF Quads = "rep" THEN PerLevel ELSE {}
Inst4 == { [o1 |-> a, o2 |-> b, o3 |-> c, pf |-> <<1, 1, 1>>] : a \in QOps, b \in QOps, c \in QOps }
InstSeq == SetToSeq({ [o1 |-> i.o1, o2 |-> i.o2, o3 |-> 0, pf |-> i.pf] :
                        i \in (IF Triples THEN Inst3 ELSE Inst2 \cup { j \in Inst3 : j.pf = <<1, 1, 1>> }
                                   \* a sign on the middle operand of an arithmetic operator (x / -y / z)
                                   \cup { j \in Inst3 : j.pf \in {<<1, 3, 1>>, <<1, 4, 1>>} /\ j.o1 >= 10 }) } \cup Inst4)

VARIABLES bucket, idx
NB == 64
Init == bucket \in 0..(NB - 1) /\ idx = 0
Next == idx = 0 /\ \E i \in 1..Len(InstSeq) : i % NB = bucket /\ idx' = i /\ UNCHANGED bucket
Spec == Init /\ [][Next]_<<bucket, idx>>

inst == InstSeq[idx]
ToksOf(i) == UnaryPfx[i.pf[1]] \o <<X, BinToks[i.o1]>> \o UnaryPfx[i.pf[2]] \o <<Y>>
             \o (IF i.o2 = 0 THEN <<>> ELSE <<BinToks[i.o2]>> \o UnaryPfx[i.pf[3]] \o <<Z>>)
             \o (IF i.o3 = 0 THEN <<>> ELSE <<BinToks[i.o3], W>>)

\* ---- fully parenthesised printing of the ASTs that occur here -----------
OpTok(op) == CASE op = "+" -> PlusT [] op = "-" -> MinusT [] op = "*" -> Star [] op = "/" -> DivT
               [] op = "//" -> IDivT [] op = "%" -> ModT [] op = "==" -> EqT [] op = "!=" -> NeT
               [] op = "<" -> LtT [] op = "<=" -> LeT [] op = ">" -> GtT [] op = ">=" -> GeT
RECURSIVE FullParen(_)
FullParen(n) ==
  CASE n.k = "field" -> <<Id(n.s)>>
    [] n.k = "pipe"  -> <<LP>> \o FullParen(n.l) \o <<PipeT>> \o FullParen(n.r) \o <<RP>>
    [] n.k = "or"    -> <<LP>> \o FullParen(n.l) \o <<OrT>> \o FullParen(n.r) \o <<RP>>
    [] n.k = "and"   -> <<LP>> \o FullParen(n.l) \o <<AndT>> \o FullParen(n.r) \o <<RP>>
    [] n.k = "cmp"   -> <<LP>> \o FullParen(n.l) \o <<OpTok(n.op)>> \o FullParen(n.r) \o <<RP>>
    [] n.k = "arith" -> <<LP>> \o FullParen(n.l) \o <<OpTok(n.op)>> \o FullParen(n.r) \o <<RP>>
    [] n.k = "not"   -> <<LP, NotT>> \o FullParen(n.x) \o <<RP>>
    [] n.k = "neg"   -> <<LP, MinusT>> \o FullParen(n.x) \o <<RP>>
    [] n.k = "pos"   -> <<LP, PlusT>> \o FullParen(n.x) \o <<RP>>

\* ---- the rule, stated independently of the parser ------------------------
IsBin(n) == n.k \in {"pipe", "or", "and", "cmp", "arith"}
\* strip unary wrappers: the grouping rule is about the binary skeleton
RECURSIVE Skel(_)
Skel(n) == IF n.k \in {"not", "neg", "pos"} THEN Skel(n.x)
           ELSE IF IsBin(n) THEN [k |-> "bin", l |-> Skel(n.l), r |-> Skel(n.r)]
           ELSE [k |-> "leaf", s |-> n.s]
Leaf(s) == [k |-> "leaf", s |-> s]
Bin(l, r) == [k |-> "bin", l |-> l, r |-> r]
\* The grouping rule, stated without a parser: the root of  e1 o1 e2 ... on ek+1
\* is the RIGHTMOST operator among those of the lowest precedence level
\* (lower level binds looser; equal levels associate to the left); its
\* operands are the groupings of what is to its left and to its right.
RECURSIVE SkelOf(_, _)
SkelOf(ops, leaves) ==          \* ops: sequence of token kinds, leaves: Len(ops) + 1 names
  IF Len(ops) = 0 THEN Leaf(leaves[1])
  ELSE LET minL == CHOOSE l \in {Level(ops[j]) : j \in 1..Len(ops)} : \A j \in 1..Len(ops) : l <= Level(ops[j])
           r == CHOOSE j \in 1..Len(ops) : Level(ops[j]) = minL /\ \A j2 \in (j + 1)..Len(ops) : Level(ops[j2]) # minL
       IN Bin(SkelOf(SubSeq(ops, 1, r - 1), SubSeq(leaves, 1, r)), SkelOf(SubSeq(ops, r + 1, Len(ops)), SubSeq(leaves, r + 1, Len(leaves))))
ExpectedSkel(i) ==
  LET ops == <<BinToks[i.o1].k>> \o (IF i.o2 = 0 THEN <<>> ELSE <<BinToks[i.o2].k>>) \o (IF i.o3 = 0 THEN <<>> ELSE <<BinToks[i.o3].k>>)
  IN SkelOf(ops, <<<<120>>, <<121>>, <<122>>, <<119>>>>)
\* a unary prefix binds tighter than every binary operator: under the
\* reading where it does, the operand of every unary node is a leaf
RECURSIVE UnaryOnLeaves(_)
UnaryOnLeaves(n) == IF n.k \in {"not", "neg", "pos"} THEN n.x.k \in {"field", "not", "neg", "pos"} /\ UnaryOnLeaves(n.x)
                    ELSE IF IsBin(n) THEN UnaryOnLeaves(n.l) /\ UnaryOnLeaves(n.r)
                    ELSE TRUE

Check == idx > 0 =>
  LET ts    == ToksOf(inst)
      quad  == inst.o3 # 0
      Docs  == IF quad THEN PoolOps4 ELSE Pool
      ND    == IF quad THEN Len(PoolOps4) ELSE NDocs
      pname == IF quad THEN "Ops4" ELSE IF NDocs > 400 THEN "OpsBig" ELSE "Ops"
      comps == Compilations(ts)
      one   == CHOOSE c \in comps : TRUE
      fp    == FullParen(one.n)
      adms  == [d \in 1..ND |-> { OutcomeOf(c, Docs[d]) : c \in comps }]
      cu    == Compile(ts, ModeU)
      same  == Cardinality(comps) = 1
      case  == IF same
               THEN [p |-> Prop, kind |-> "pair", expr |-> Render(ts), expr2 |-> Render(fp),
                     pool |-> pname, adms |-> adms]
               ELSE [p |-> Prop, kind |-> "search", expr |-> Render(ts), expr2 |-> <<>>,
                     pool |-> pname, adms |-> adms]
  IN /\ Emit => PrintT("CASE " \o ToJson(case))
     /\ Named(\A c \in comps : c.ok, "AllParse")
     \* (under the reading that gives a unary sign the power of a multiplicative
     \* operator, a sign in the middle takes the rest of the product as its operand;
     \* the table rule is about the reading where prefixes bind tightest)
     /\ Named(\A m \in Modes(ts) : (~m.sg \/ (inst.pf[2] \in {1, 2} /\ inst.pf[3] \in {1, 2})) => Skel(Compile(ts, m).n) = ExpectedSkel(inst), "GroupsByTable")
     /\ Named(UnaryOnLeaves(cu.n), "UnaryTighterThanBinary")
     /\ Named(\A c \in comps : LET q == Compile(FullParen(c.n), DefaultMode) IN q.ok /\ q.n = c.n, "ParenNeutral")
=============================================================================
