\* GENERATED from GenAlign.tla.in by bin/tlapp -- edit the .in file
----------------------------- MODULE GenAlign -----------------------------
(***************************************************************************)
(* Position-sensitive string operations at every ALIGNMENT (properties     *)
(* C12, C11).  The subject is a run of k distinct ASCII letters, one        *)
(* multi-byte code point (2, 3 or 4 bytes), and a second ASCII run; k      *)
(* ranges over 0..26 so that the wide character sits at every offset       *)
(* within a machine word and across two words.  Any implementation that    *)
(* walks strings in blocks, or mixes byte and code-point offsets only      *)
(* beyond some length, shows here.                                         *)
(***************************************************************************)
EXTENDS JMES, Json, Toks
CONSTANTS Emit, Prop, MaxK

Letters == [i \in 1..80 |-> 97 + ((i - 1) % 26)]
Wide == <<233, 8364, 128512>>
Subject(k, w, m) == SubSeq(Letters, 1, k) \o <<Wide[w]>> \o SubSeq(Letters, k + 1, k + m)

VARIABLES bucket, idx
Init == bucket \in 0..MaxK /\ idx = 0
Next == idx = 0 /\ \E w \in 1..3 : idx' = w /\ UNCHANGED bucket
Spec == Init /\ [][Next]_<<bucket, idx>>

S == Id(<<115>>)
N(n) == IntT((IF n < 0 THEN <<45>> ELSE <<>>) \o IntDigits(AbsI(n)))
J(n) == Json(<<96>> \o (IF n < 0 THEN <<45>> ELSE <<>>) \o IntDigits(AbsI(n)) \o <<96>>)
Fn(name, args) == <<Id(name), LP>> \o args \o <<RP>>
Ops(k, w) ==
  LET wc == Raw(EncRaw(<<Wide[w]>>)) IN
  { <<S, LB, N(i), Colon, RB>> : i \in {k - 1, k, k + 1, 7, 8, 9, 15, 16, 17} }
  \cup { <<S, LB, Colon, N(i), RB>> : i \in {k, k + 1, 8, 16, 0 - 1} }
  \cup { <<S, LB, N(i), Colon, Colon, N(st), RB>> : i \in {0, 1, k, 8}, st \in {2, 3, 9} }
  \cup { <<S, LB, Colon, Colon, N(0 - st), RB>> : st \in {1, 2, 9} }
  \cup { <<S, LB, N(0 - i), Colon, RB>> : i \in {1, 2, 8, 9} }
  \cup { Fn(<<102,105,110,100,95,102,105,114,115,116>>, <<S, Comma, wc>>), Fn(<<102,105,110,100,95,108,97,115,116>>, <<S, Comma, wc>>), Fn(<<108,101,110,103,116,104>>, <<S>>), Fn(<<114,101,118,101,114,115,101>>, <<S>>),
         Fn(<<102,105,110,100,95,102,105,114,115,116>>, <<S, Comma, Raw(<<39,98,39>>), Comma, J(k)>>), Fn(<<102,105,110,100,95,102,105,114,115,116>>, <<S, Comma, wc, Comma, J(8)>>),
         Fn(<<102,105,110,100,95,108,97,115,116>>, <<S, Comma, wc, Comma, J(0), Comma, J(k)>>), Fn(<<102,105,110,100,95,108,97,115,116>>, <<S, Comma, wc, Comma, J(0), Comma, J(k + 1)>>),
         Fn(<<102,105,110,100,95,102,105,114,115,116>>, <<S, Comma, Raw(EncRaw(<<Letters[k + 1]>>))>>),
         Fn(<<115,112,108,105,116>>, <<S, Comma, Raw(<<39,39>>), Comma, J(k)>>), Fn(<<115,112,108,105,116>>, <<S, Comma, Raw(<<39,39>>), Comma, J(8)>>),
         Fn(<<115,112,108,105,116>>, <<S, Comma, wc>>), Fn(<<112,97,100,95,108,101,102,116>>, <<S, Comma, J(k + 12)>>), Fn(<<112,97,100,95,114,105,103,104,116>>, <<S, Comma, J(k + 12), Comma, wc>>),
         Fn(<<114,101,112,108,97,99,101>>, <<S, Comma, wc, Comma, Raw(<<39,45,45,39>>)>>), Fn(<<101,110,100,115,95,119,105,116,104>>, <<S, Comma, wc>>), Fn(<<116,114,105,109,95,114,105,103,104,116>>, <<S, Comma, wc>>),
         Fn(<<115,116,97,114,116,115,95,119,105,116,104>>, <<S, Comma, Raw(EncRaw(SubSeq(Letters, 1, k) \o <<Wide[w]>>))>>) }

\* characters whose case mapping changes the ENCODED WIDTH (Kelvin sign -> k, dotless i -> I, long s -> S,
\* U+023A <-> U+2C65 ...): what lower / upper return for them is not pinned, but it is a string of code
\* points -- every operation applied to it counts code points, and (checked on every result by the
\* harness) it is valid UTF-8
CaseChars == <<8490, 304, 305, 383, 570, 574, 592, 11365, 11366, 7838, 453, 223, 8491, 1012, 7835>>
CaseSubjects == { <<CaseChars[i]>> : i \in 1..Len(CaseChars) } \cup { <<97, CaseChars[i], 98>> : i \in 1..Len(CaseChars) }
                \cup { <<CaseChars[i], CaseChars[j]>> : i \in 1..Len(CaseChars), j \in 1..Len(CaseChars) }
CaseOps == { Fn(<<108,111,119,101,114>>, <<S>>), Fn(<<117,112,112,101,114>>, <<S>>), Fn(<<108,101,110,103,116,104>>, Fn(<<108,111,119,101,114>>, <<S>>)), Fn(<<108,101,110,103,116,104>>, Fn(<<117,112,112,101,114>>, <<S>>)),
             Fn(<<114,101,118,101,114,115,101>>, Fn(<<117,112,112,101,114>>, <<S>>)), Fn(<<108,111,119,101,114>>, <<S>>) \o <<LB, N(1), Colon, RB>>, Fn(<<117,112,112,101,114>>, <<S>>) \o <<LB, Colon, Colon, N(0 - 1), RB>>,
             Fn(<<108,111,119,101,114>>, Fn(<<117,112,112,101,114>>, <<S>>)), Fn(<<117,112,112,101,114>>, Fn(<<114,101,118,101,114,115,101>>, <<S>>)), Fn(<<108,101,110,103,116,104>>, <<S>>), Fn(<<114,101,118,101,114,115,101>>, <<S>>),
             Fn(<<112,97,100,95,108,101,102,116>>, Fn(<<117,112,112,101,114>>, <<S>>) \o <<Comma, J(5)>>), Fn(<<115,112,108,105,116>>, Fn(<<108,111,119,101,114>>, <<S>>) \o <<Comma, Raw(<<39,39>>)>>) }
CaseCase == [p |-> Prop, kind |-> "search",
             multi |-> UNION { LET doc == Obj(<<Mem(<<115>>, Str(cs))>>) IN { [expr |-> Render(e), doc |-> doc, adm |-> Admissible(e, doc)] : e \in CaseOps }
                               : cs \in CaseSubjects }]

Check == idx > 0 =>
  LET k == bucket  w == idx
      cases == UNION { LET doc == Obj(<<Mem(<<115>>, Str(Subject(k, w, m)))>>) IN
                       { [expr |-> Render(e), doc |-> doc, adm |-> Admissible(e, doc)] : e \in Ops(k, w) } : m \in {0, 3, 9} }
      case == [p |-> Prop, kind |-> "search", multi |-> cases]
  IN /\ Emit => PrintT("CASE " \o ToJson(case))
     /\ (Emit /\ bucket = 0 /\ idx = 1) => PrintT("CASE " \o ToJson(CaseCase))
     /\ Named(\A c \in cases : \A o \in c.adm : IsVal(o), "NoErrors")
=============================================================================
