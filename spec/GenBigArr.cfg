SPECIFICATION Spec
CONSTANTS
  Emit = FALSE
  Prop = "C05"
  Sizes = {127, 128, 129, 1000, 10000}
INVARIANTS
  Check
CHECK_DEADLOCK FALSE
