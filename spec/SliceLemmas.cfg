SPECIFICATION Spec
CONSTANTS
  MaxLen = 4
  Range = 7
INVARIANTS
  Lemmas
CHECK_DEADLOCK FALSE
