\* GENERATED from GenFault.tla.in by bin/tlapp -- edit the .in file
----------------------------- MODULE GenFault -----------------------------
(***************************************************************************)
(* The error contract (property C08): a catalogue of expressions with      *)
(* exactly one fault each -- one template per static fault class and one   *)
(* per run-time fault site -- evaluated on every document of the pool.     *)
(* Static faults (syntax, arity, unknown function, reference position,     *)
(* slice step 0) must be reported identically for every document; the      *)
(* texts go through the code-point Lexer.  Model checks: each template has *)
(* a single admissible category; static templates have the same outcome on *)
(* every document.                                                         *)
(***************************************************************************)
EXTENDS JMES, Json, DocsCore, SequencesExt
CONSTANTS Emit, Prop
Docs == PoolCore

Tp(class, static, text) == [c |-> class, st |-> static, s |-> text]
Templates == {
  \* ---- static faults
  Tp("syntax", TRUE, <<97,46>>), Tp("syntax", TRUE, <<91,97>>), Tp("syntax", TRUE, <<97,32,98>>), Tp("syntax", TRUE, <<39,111,112,101,110>>),
  Tp("syntax", TRUE, <<96,123,98,97,100,32,106,115,111,110,125,96>>), Tp("syntax", TRUE, <<97,91,49,58,50,58,51,58,52,93>>), Tp("syntax", TRUE, <<97,46,39,120,39>>),
  Tp("syntax", TRUE, <<120,46,36,121>>), Tp("syntax", TRUE, <<97,32,63,32,98>>), Tp("syntax", TRUE, <<123,97,125>>), Tp("syntax", TRUE, <<34,97,34,40,98,41>>),
  Tp("syntax", TRUE, <<97,91,63,98>>), Tp("syntax", TRUE, <<38,97>>), Tp("syntax", TRUE, <<97,32,124,32,124,32,98>>), Tp("syntax", TRUE, <<120,91,58,58>>),
  Tp("syntax", TRUE, <<>>), Tp("syntax", TRUE, <<97,65535,98,35>>), Tp("syntax", TRUE, <<108,101,116,32,36,118,32,61,32,97>>), Tp("syntax", TRUE, <<96,34,97,96,32>>),
  Tp("invalid-value", TRUE, <<120,91,58,58,48,93>>), Tp("invalid-value", TRUE, <<120,91,49,58,50,58,48,93,46,97>>), Tp("invalid-value", TRUE, <<91,58,58,48,93>>),
  Tp("invalid-arity", TRUE, <<97,98,115,40,41>>), Tp("invalid-arity", TRUE, <<97,98,115,40,97,44,32,98,41>>), Tp("invalid-arity", TRUE, <<115,111,114,116,95,98,121,40,120,41>>),
  Tp("invalid-arity", TRUE, <<112,97,100,95,108,101,102,116,40,97,41>>), Tp("invalid-arity", TRUE, <<102,105,110,100,95,102,105,114,115,116,40,97,44,32,98,44,32,97,44,32,98,44,32,97,41>>), Tp("invalid-arity", TRUE, <<110,111,116,95,110,117,108,108,40,41>>),
  Tp("invalid-arity", TRUE, <<120,91,42,93,46,97,98,115,40,41>>), Tp("invalid-arity", TRUE, <<91,63,108,101,110,103,116,104,40,64,44,32,64,41,93>>),
  Tp("unknown-function", TRUE, <<110,111,115,117,99,104,40,97,41>>), Tp("unknown-function", TRUE, <<120,91,42,93,46,110,111,115,117,99,104,40,64,41>>), Tp("unknown-function", TRUE, <<76,101,110,103,116,104,40,97,41>>),
  Tp("unknown-function", TRUE, <<97,32,124,124,32,110,111,115,117,99,104,40,41>>),
  Tp("invalid-type", TRUE, <<115,111,114,116,95,98,121,40,120,44,32,97,41>>), Tp("invalid-type", TRUE, <<109,97,112,40,97,44,32,120,41>>), Tp("invalid-type", TRUE, <<97,98,115,40,38,97,41>>),
  Tp("invalid-type", TRUE, <<109,97,120,95,98,121,40,120,44,32,96,49,96,41>>), Tp("invalid-type", TRUE, <<120,91,42,93,46,103,114,111,117,112,95,98,121,40,64,44,32,39,107,39,41>>),
  \* ---- run-time faults: one per site
  Tp("invalid-type", FALSE, <<97,98,115,40,39,120,39,41>>), Tp("invalid-type", FALSE, <<108,101,110,103,116,104,40,96,49,96,41>>), Tp("invalid-type", FALSE, <<39,97,39,32,43,32,96,49,96>>),
  Tp("invalid-type", FALSE, <<96,49,96,32,45,32,39,97,39>>), Tp("invalid-type", FALSE, <<96,91,93,96,32,42,32,96,50,96>>), Tp("invalid-type", FALSE, <<96,49,96,32,47,32,96,116,114,117,101,96>>),
  Tp("invalid-type", FALSE, <<96,110,117,108,108,96,32,47,47,32,96,49,96>>), Tp("invalid-type", FALSE, <<96,123,125,96,32,37,32,96,49,96>>), Tp("invalid-type", FALSE, <<115,117,109,40,96,91,49,44,32,34,97,34,93,96,41>>),
  Tp("invalid-type", FALSE, <<115,111,114,116,40,96,91,49,44,32,34,97,34,93,96,41>>), Tp("invalid-type", FALSE, <<115,111,114,116,95,98,121,40,96,91,49,44,50,93,96,44,32,38,96,116,114,117,101,96,41>>), Tp("invalid-type", FALSE, <<106,111,105,110,40,96,49,96,44,32,96,91,93,96,41>>),
  Tp("invalid-type", FALSE, <<107,101,121,115,40,39,97,39,41>>), Tp("invalid-type", FALSE, <<109,101,114,103,101,40,96,123,125,96,44,32,96,49,96,41>>), Tp("invalid-type", FALSE, <<122,105,112,40,39,97,39,41>>),
  Tp("invalid-type", FALSE, <<115,116,97,114,116,115,95,119,105,116,104,40,96,49,96,44,32,39,97,39,41>>), Tp("invalid-type", FALSE, <<109,97,120,40,96,91,49,44,32,34,97,34,93,96,41>>), Tp("invalid-type", FALSE, <<97,118,103,40,39,97,39,41>>),
  Tp("invalid-type", FALSE, <<102,114,111,109,95,105,116,101,109,115,40,96,49,96,41>>), Tp("invalid-type", FALSE, <<109,97,112,40,38,64,44,32,39,97,39,41>>), Tp("invalid-type", FALSE, <<103,114,111,117,112,95,98,121,40,96,91,49,93,96,44,32,38,64,41>>),
  Tp("invalid-type", FALSE, <<112,97,100,95,108,101,102,116,40,96,49,96,44,32,96,49,96,41>>), Tp("invalid-type", FALSE, <<102,105,110,100,95,102,105,114,115,116,40,39,97,39,44,32,39,97,39,44,32,39,120,39,41>>), Tp("invalid-type", FALSE, <<114,101,112,108,97,99,101,40,39,97,39,44,32,39,97,39,44,32,39,98,39,44,32,39,99,39,41>>),
  Tp("invalid-type", FALSE, <<115,112,108,105,116,40,39,97,39,44,32,96,49,96,41>>), Tp("invalid-type", FALSE, <<116,114,105,109,40,96,49,96,41>>), Tp("invalid-type", FALSE, <<114,101,118,101,114,115,101,40,96,49,96,41>>),
  Tp("invalid-type", FALSE, <<99,101,105,108,40,39,49,39,41>>), Tp("invalid-type", FALSE, <<109,97,120,95,98,121,40,96,91,49,93,96,44,32,38,96,116,114,117,101,96,41>>), Tp("invalid-type", FALSE, <<91,96,49,96,44,32,97,98,115,40,39,120,39,41,93>>),
  Tp("invalid-type", FALSE, <<123,107,58,32,97,98,115,40,39,120,39,41,125>>), Tp("invalid-type", FALSE, <<96,91,49,93,96,91,42,93,46,97,98,115,40,39,120,39,41>>), Tp("invalid-type", FALSE, <<96,91,49,93,96,91,63,97,98,115,40,39,120,39,41,93>>),
  Tp("invalid-value", FALSE, <<112,97,100,95,108,101,102,116,40,39,97,39,44,32,96,45,49,96,41>>), Tp("invalid-value", FALSE, <<112,97,100,95,114,105,103,104,116,40,39,97,39,44,32,96,49,46,53,96,41>>), Tp("invalid-value", FALSE, <<112,97,100,95,108,101,102,116,40,39,97,39,44,32,96,50,96,44,32,39,120,121,39,41>>),
  Tp("invalid-value", FALSE, <<112,97,100,95,108,101,102,116,40,39,97,39,44,32,96,50,96,44,32,39,39,41>>), Tp("invalid-value", FALSE, <<115,112,108,105,116,40,39,97,39,44,32,39,98,39,44,32,96,45,49,96,41>>), Tp("invalid-value", FALSE, <<115,112,108,105,116,40,39,97,39,44,32,39,98,39,44,32,96,48,46,53,96,41>>),
  Tp("invalid-value", FALSE, <<114,101,112,108,97,99,101,40,39,97,39,44,32,39,98,39,44,32,39,99,39,44,32,96,45,49,96,41>>), Tp("invalid-value", FALSE, <<114,101,112,108,97,99,101,40,39,97,39,44,32,39,98,39,44,32,39,99,39,44,32,96,49,46,53,96,41>>),
  Tp("invalid-value", FALSE, <<102,105,110,100,95,102,105,114,115,116,40,39,97,39,44,32,39,98,39,44,32,96,48,46,53,96,41>>), Tp("invalid-value", FALSE, <<102,105,110,100,95,108,97,115,116,40,39,97,39,44,32,39,98,39,44,32,96,48,96,44,32,96,49,46,53,96,41>>),
  Tp("invalid-value", FALSE, <<102,114,111,109,95,105,116,101,109,115,40,96,91,91,49,44,32,50,93,93,96,41>>), Tp("invalid-value", FALSE, <<102,114,111,109,95,105,116,101,109,115,40,96,91,91,34,97,34,93,93,96,41>>), Tp("invalid-value", FALSE, <<102,114,111,109,95,105,116,101,109,115,40,96,91,91,34,97,34,44,32,49,44,32,50,93,93,96,41>>),
  Tp("undefined-variable", FALSE, <<36,118>>), Tp("undefined-variable", FALSE, <<96,91,49,93,96,91,42,93,46,91,36,118,93>>), Tp("undefined-variable", FALSE, <<109,97,112,40,38,36,118,44,32,96,91,49,93,96,41>>),
  Tp("undefined-variable", FALSE, <<108,101,116,32,36,97,32,61,32,36,118,32,105,110,32,96,49,96>>), Tp("undefined-variable", FALSE, <<108,101,116,32,36,97,32,61,32,96,49,96,32,105,110,32,36,98>>), Tp("undefined-variable", FALSE, <<91,108,101,116,32,36,97,32,61,32,96,49,96,32,105,110,32,36,97,44,32,36,97,93>>),
  Tp("undefined-variable", FALSE, <<96,91,49,93,96,91,63,36,118,93>>), Tp("undefined-variable", FALSE, <<115,111,114,116,95,98,121,40,96,91,49,93,96,44,32,38,36,118,41>>), Tp("undefined-variable", FALSE, <<123,107,58,32,36,118,125>>),
  Tp("undefined-variable", FALSE, <<96,49,96,32,124,32,36,118>>), Tp("undefined-variable", FALSE, <<36,118,46,97>>), Tp("undefined-variable", FALSE, <<108,101,116,32,36,97,32,61,32,96,49,96,44,32,36,98,32,61,32,36,97,32,105,110,32,36,98>>),
  Tp("not-a-number", FALSE, <<96,49,96,32,47,32,96,48,96>>), Tp("not-a-number", FALSE, <<96,49,96,32,47,47,32,96,48,96>>), Tp("not-a-number", FALSE, <<96,49,96,32,37,32,96,48,96>>),
  Tp("not-a-number", FALSE, <<96,48,96,32,47,32,96,48,96>>), Tp("not-a-number", FALSE, <<96,91,49,93,96,91,42,93,46,91,64,32,47,32,96,48,96,93>>), Tp("not-a-number", FALSE, <<45,96,49,96,32,47,32,96,48,46,48,96>>)
}
\* every static fault inside every syntactic context (a static fault is decided
\* by the text alone wherever it occurs)
StaticFaults == { Tp("invalid-arity", TRUE, <<97,98,115,40,41>>), Tp("unknown-function", TRUE, <<110,111,115,117,99,104,40,97,41>>),
                  Tp("invalid-type", TRUE, <<115,111,114,116,95,98,121,40,97,44,32,98,41>>), Tp("invalid-value", TRUE, <<120,91,58,58,48,93>>),
                  Tp("invalid-type", TRUE, <<97,98,115,40,38,97,41>>), Tp("invalid-arity", TRUE, <<108,101,110,103,116,104,40,97,44,32,98,41>>) }
Contexts == { <<<<108,101,116,32,36,118,32,61,32>>, <<32,105,110,32,36,118>>>>, <<<<108,101,116,32,36,118,32,61,32,97,32,105,110,32>>, <<>>>>, <<<<108,101,116,32,36,118,32,61,32,97,44,32,36,119,32,61,32>>, <<32,105,110,32,36,119>>>>,
              <<<<91>>, <<93>>>>, <<<<91,97,44,32>>, <<93>>>>, <<<<123,107,58,32>>, <<125>>>>, <<<<97,91,63>>, <<93>>>>, <<<<97,98,115,40>>, <<41>>>>,
              <<<<97,32,124,32>>, <<>>>>, <<<<97,32,124,124,32>>, <<>>>>, <<<<97,32,38,38,32>>, <<>>>>, <<<<33>>, <<>>>>, <<<<40>>, <<41>>>>,
              <<<<115,111,114,116,95,98,121,40,97,44,32,38>>, <<41>>>>, <<<<109,97,112,40,38>>, <<44,32,97,41>>>>, <<<<>>, <<32,61,61,32,97>>>>, <<<<97,46,91>>, <<93>>>>,
              <<<<97,91,42,93,46,123,107,58,32>>, <<125>>>>, <<<<110,111,116,95,110,117,108,108,40,97,44,32>>, <<41>>>>, <<<<>>, <<32,124,32,97>>>>, <<<<96,49,96,32,43,32>>, <<>>>>, <<<<45>>, <<>>>> }
InContext == { Tp(f.c, TRUE, c[1] \o f.s \o c[2]) : f \in StaticFaults, c \in Contexts }
TSeq == SetToSeq(Templates \cup InContext)
VARIABLES bucket, idx
NB == 32
Init == bucket \in 0..(NB - 1) /\ idx = 0
Next == idx = 0 /\ \E i \in 1..Len(TSeq) : i % NB = bucket /\ idx' = i /\ UNCHANGED bucket
Spec == Init /\ [][Next]_<<bucket, idx>>
Named(ok, name) == ok \/ ~PrintT("MODELFAIL " \o name)

Check == idx > 0 =>
  LET tp   == TSeq[idx]
      adms == [d \in 1..Len(Docs) |-> AdmissibleText(tp.s, Docs[d])]
      case == [p |-> Prop, kind |-> "search", expr |-> tp.s, pool |-> "Core", adms |-> adms]
  IN /\ Emit => PrintT("CASE " \o ToJson(case))
     \* single-fault templates determine the category uniquely
     /\ Named(\A d \in 1..Len(Docs) : adms[d] = {Err(tp.c)} \/ ~PrintT(<<"TEMPLATE", tp.s, adms[d]>>), "SingleCategory")
     /\ Named(tp.st => \A d \in 1..Len(Docs) : adms[d] = adms[1], "StaticIgnoresDoc")
=============================================================================
