SPECIFICATION Spec
CONSTANTS
  Emit = FALSE
  Prop = "C12"
  To = 1100
INVARIANTS
  Check
CHECK_DEADLOCK FALSE
