\* GENERATED from HostileKinds.tla.in by bin/tlapp -- edit the .in file
--------------------------- MODULE HostileKinds ---------------------------
(* Names of the Go values a caller may put into the data that are not plain
   JSON (built by the harness: harness/tv.go hostileKinds). *)
Hostile == <<"nan", "+inf", "-inf", "f32nan", "f32inf", "decnan", "decinf", "decneginf", "jsonempty", "jsonabc", "jsonhuge",
             "jsontiny", "jsonminus", "jsonhex", "typedslice", "typedmap", "anymapkey", "struct", "chan", "nilptr", "func",
             "complex", "uintptr", "int64min", "uint64max", "f64big", "f64max", "bytes", "rune", "nilslice", "nilmap",
             "badutf8", "selfref",
             "contbytes", "badutf8long", "longstr", "nulstr", "lonesurr">>
=============================================================================
