SPECIFICATION Spec
CONSTANTS
  R = 60
INVARIANTS
  SmallLaws
CHECK_DEADLOCK FALSE
