SPECIFICATION Spec
CONSTANTS
  Emit = TRUE
  Prop = "C04"
  MaxLen = 4
  Alpha <- AlphaStructural
  AlphaName = "Structural"
INVARIANTS
  Check
CHECK_DEADLOCK FALSE
