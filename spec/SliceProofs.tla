--------------------------- MODULE SliceProofs ---------------------------
(***************************************************************************)
(* Unbounded counterparts (TLAPS) of what SliceLemmas checks with TLC on    *)
(* lengths <= 6: for EVERY length and EVERY integer start / stop / step     *)
(*   CapRange   an explicit bound is clamped into -1 .. len                 *)
(*   CapHuge    a bound beyond +-(len + 1) clamps like +-(len + 1)          *)
(*   StepHuge   with |step| > len + 1 the walk ends after its first index   *)
(*   WalkInside every index the walk visits lies in 0 .. len - 1            *)
(* Together they are the reason why the magnitude of a slice parameter      *)
(* cannot matter (C09, C12: "at the 64-bit limits").  Cap and Visits are the  *)
(* operators of SliceCap.tla, which Slice.tla extends: Walk(i, stop, step)  *)
(* visits i exactly when Visits(i, stop, step) and then goes on at i + step.*)
(***************************************************************************)
EXTENDS SliceCap, TLAPS

THEOREM CapRange == \A len \in Nat, x \in Int, step \in Int : Cap(len, x, step) \in (0 - 1)..len
  BY DEF Cap

THEOREM CapHugePos == \A len \in Nat, x \in Int, step \in Int :
                        x > len + 1 => Cap(len, x, step) = Cap(len, len + 1, step)
  BY DEF Cap

THEOREM CapHugeNeg == \A len \in Nat, x \in Int, step \in Int :
                        x < 0 - (len + 1) => Cap(len, x, step) = Cap(len, 0 - (len + 1), step)
  BY DEF Cap

\* a start that the clamp produced, a stop that the clamp produced, a huge step: the next index is not visited
THEOREM StepHuge == \A len \in Nat : \A i \in (0 - 1)..len, stop \in (0 - 1)..len : \A step \in Int :
                      (step > len + 1 \/ step < 0 - (len + 1)) => ~Visits(i + step, stop, step)
  BY DEF Visits

\* ... and is not visited for the clamped step len + 1 either: the two walks agree after their first index
THEOREM StepClamped == \A len \in Nat : \A i \in (0 - 1)..len, stop \in (0 - 1)..len :
                         /\ ~Visits(i + (len + 2), stop, len + 2)
                         /\ ~Visits(i - (len + 2), stop, 0 - (len + 2))
  BY DEF Visits

\* the first index is visited under a huge step exactly when it is under the clamped one
THEOREM FirstSame == \A len \in Nat, i \in Int, stop \in Int, step \in Int :
                       /\ step > len + 1 => (Visits(i, stop, step) <=> Visits(i, stop, len + 2))
                       /\ step < 0 - (len + 1) => (Visits(i, stop, step) <=> Visits(i, stop, 0 - (len + 2)))
  BY DEF Visits

\* every visited index is an index of the array: by induction along the walk, from the clamped start
THEOREM WalkInsideUp == \A len \in Nat, a \in Int, b \in Int, x \in Int, y \in Int, step \in Int :
                          (step > 0 /\ a = Cap(len, x, step) /\ b = Cap(len, y, step)) =>
                             \A i \in Int : (i >= a /\ Visits(i, b, step)) => i \in 0..(len - 1)
  BY DEF Cap, Visits

THEOREM WalkInsideDown == \A len \in Nat, a \in Int, b \in Int, x \in Int, y \in Int, step \in Int :
                          (step < 0 /\ a = Cap(len, x, step) /\ b = Cap(len, y, step)) =>
                             \A i \in Int : (i <= a /\ Visits(i, b, step)) => i \in 0..(len - 1)
  BY DEF Cap, Visits

\* absent parts: start = 0 / len - 1, stop = len / -1
THEOREM WalkInsideDefaults == \A len \in Nat, step \in Int, i \in Int :
                                /\ (step > 0 /\ i >= 0 /\ Visits(i, len, step)) => i \in 0..(len - 1)
                                /\ (step < 0 /\ i <= len - 1 /\ Visits(i, 0 - 1, step)) => i \in 0..(len - 1)
  BY DEF Visits

\* the walk makes progress and is bounded: at most len indices are visited between -1 and len
THEOREM WalkShort == \A len \in Nat : \A i \in Int, stop \in (0 - 1)..len, step \in Int, k \in Nat :
                        (step > 0 /\ i >= 0 /\ k >= len) => ~Visits(i + k * step, stop, step)
  <1> SUFFICES ASSUME NEW len \in Nat, NEW i \in Int, NEW stop \in (0 - 1)..len, NEW step \in Int, NEW k \in Nat,
                      step > 0, i >= 0, k >= len
               PROVE  ~Visits(i + k * step, stop, step)
      OBVIOUS
  <1>1. k * step >= k
      BY SMT
  <1> QED BY <1>1 DEF Visits
=============================================================================
