SPECIFICATION Spec
CONSTANTS
  Emit = FALSE
  Prop = "C10"
  OpSet = {1, 2, 3, 4, 10, 13}
INVARIANTS
  Check
CHECK_DEADLOCK FALSE
