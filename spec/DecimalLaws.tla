--------------------------- MODULE DecimalLaws ---------------------------
(* The bignum library of Decimal.tla is an oracle written by hand, so it is  *)
(* checked before it is trusted: against TLC's own integer arithmetic on all *)
(* pairs of small integers (scaled by powers of ten), and against algebraic  *)
(* laws on a pool of 34-digit operands.                                      *)
EXTENDS Decimal
CONSTANTS R
VARIABLES a, b, k
RECURSIVE NatDs(_)
NatDs(n) == IF n = 0 THEN <<>> ELSE NatDs(n \div 10) \o <<n % 10>>
FromInt(i, e) == Norm(i < 0, NatDs(IF i < 0 THEN 0 - i ELSE i), e)
RECURSIVE DsVal(_)
DsVal(d) == IF d = <<>> THEN 0 ELSE DsVal(SubSeq(d, 1, Len(d) - 1)) * 10 + d[Len(d)]
RECURSIVE P10(_)
P10(n) == IF n = 0 THEN 1 ELSE 10 * P10(n - 1)
ToInt(x) == (IF x.neg THEN 0 - 1 ELSE 1) * DsVal(x.ds) * P10(x.e)        \* x.e >= 0, small

Init == a \in (0 - R)..R /\ b \in (0 - R)..R /\ k \in 0..2
Next == UNCHANGED <<a, b, k>>
Spec == Init /\ [][Next]_<<a, b, k>>

One(S) == CHOOSE x \in S : TRUE
Val(v) == Dec(v.neg, v.ds, v.e)
SmallLaws ==
  LET x == FromInt(a, k)  y == FromInt(b, 0)
      xa == a * P10(k)
  IN /\ ToInt(ExactAdd(x, y)) = xa + b
     /\ ToInt(ExactAdd(x, Negate(y))) = xa - b
     /\ ToInt(ExactMul(x, y)) = xa * b
     /\ CmpD(x, y) = (IF xa < b THEN 0 - 1 ELSE IF xa = b THEN 0 ELSE 1)
     /\ (b # 0 /\ xa # 0 /\ (xa > 0) = (b > 0)) =>
           /\ ToInt(Val(One(DArith("//", x, y)))) = (IF xa >= 0 THEN xa \div b ELSE (0 - xa) \div (0 - b))
           /\ ToInt(Val(One(DArith("%", x, y)))) = (IF xa >= 0 THEN xa % b ELSE 0 - ((0 - xa) % (0 - b)))
     /\ (b # 0 /\ (IF xa < 0 THEN 0 - xa ELSE xa) % (IF b < 0 THEN 0 - b ELSE b) = 0) => ToInt(Val(One(DArith("/", x, y)))) = (IF (xa >= 0) = (b > 0) THEN 1 ELSE 0 - 1) * ((IF xa < 0 THEN 0 - xa ELSE xa) \div (IF b < 0 THEN 0 - b ELSE b))
     /\ ToInt(FloorD(FromInt(a, 0 - 1))) = a \div 10
     /\ ToInt(CeilD(FromInt(a, 0 - 1))) = 0 - ((0 - a) \div 10)

=============================================================================
