------------------------- MODULE DecimalLawsOps -------------------------
EXTENDS Decimal
BigLawsFor(x, y) ==
     /\ ExactAdd(x, y) = ExactAdd(y, x)
     /\ ExactMul(x, y) = ExactMul(y, x)
     /\ ExactAdd(ExactAdd(x, y), Negate(y)) = x
     /\ CmpD(x, y) = 0 - CmpD(y, x)
     /\ (CmpD(x, y) = 0) = IsZero(ExactAdd(x, Negate(y)))
     /\ (CmpD(x, y) < 0) = (~IsZero(ExactAdd(x, Negate(y))) /\ ExactAdd(x, Negate(y)).neg)
     \* (x * y) / y = x whenever x has at most 34 digits
     /\ (~IsZero(y) /\ Len(x.ds) <= Prec) => Quot(ExactMul(x, y), y) = Round(x)
     \* q * y + r = x and |r| < |y| for operands of equal sign
     /\ (~IsZero(y) /\ ~IsZero(x) /\ x.neg = y.neg /\ Gap(x, y) <= 40) =>
          LET al == AlignedX(x, y)  bl == AlignedX(y, x)  d == NDivMod(al, bl) IN
            NAdd(NMul(d.q, bl), d.r) = al /\ NCmp(d.r, bl) < 0
=============================================================================
