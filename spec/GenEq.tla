\* GENERATED from GenEq.tla.in by bin/tlapp -- edit the .in file
------------------------------ MODULE GenEq ------------------------------
(***************************************************************************)
(* Equality and truthiness (property C20).                                 *)
(* Instances: ordered pairs (i, j) of a pool of JSON values; the document  *)
(* is {a: Vi, b: Vj, c: [Vj, "zz"]} and a fixed family of expressions      *)
(* exercises ==, !=, contains, !, &&, ||, filters on it.  A second family  *)
(* compares number LITERALS in different spellings of the same value.      *)
(* Model checks: == is reflexive, symmetric, transitive, type-strict;      *)
(* != is its negation; contains is "exists ==" ; exactly five false-like   *)
(* shapes; && and || return one of their operands.                         *)
(***************************************************************************)
EXTENDS JMES, Json, Toks, DocsEq, SequencesExt

CONSTANTS Emit, Prop
V == PoolEq
N == Len(V)

VARIABLES bucket, idx
Init == bucket \in 1..N /\ idx = 0
Next == idx = 0 /\ \E j \in 1..(N + 1) : idx' = j /\ UNCHANGED bucket    \* N + 1: the literal family
Spec == Init /\ [][Next]_<<bucket, idx>>

A == Id(<<97>>)  B == Id(<<98>>)  C == Id(<<99>>)
Exprs == <<
  <<A, EqT, B>>, <<A, NeT, B>>, <<B, EqT, A>>,
  <<Id(<<99,111,110,116,97,105,110,115>>), LP, C, Comma, A, RP>>,
  <<NotT, A>>, <<A, AndT, B>>, <<A, OrT, B>>, <<NotT, NotT, A>>,
  <<LB, A, Comma, B, RB, Filt, CurT, RB>>,
  <<C, Filt, CurT, EqT, RootT, Dot, A, RB>>,
  <<LB, A, RB, Filt, CurT, EqT, RootT, Dot, B, RB>>,
  <<A, EqT, A>>, <<LP, A, EqT, B, RP, EqT, LP, B, EqT, A, RP>>,
  <<NotT, LP, A, EqT, B, RP, EqT, LP, A, NeT, B, RP>>,
  <<A, AndT, B, OrT, A>>, <<LP, A, OrT, B, RP, AndT, B>> >>

DocOf(i, j) == Obj(<<Mem(<<97>>, V[i]), Mem(<<98>>, V[j]), Mem(<<99>>, Arr(<<V[j], Str(<<122,122>>)>>))>>)

\* spellings of numbers as literals: equal values must compare equal
Spell == << <<96,49,96>>, <<96,49,46,48,96>>, <<96,49,101,48,96>>, <<96,49,48,101,45,49,96>>, <<96,48,46,49,101,49,96>>, <<96,48,96>>, <<96,45,48,96>>, <<96,48,46,48,96>>, <<96,48,101,53,96>>,
            <<96,49,48,48,96>>, <<96,49,101,50,96>>, <<96,49,46,53,96>>, <<96,49,53,101,45,49,96>>, <<96,45,49,96>>, <<96,45,49,46,48,96>> >>
LitExprs(i) == UNION { { <<Json(Spell[i]), EqT, Json(Spell[j])>>, <<Json(Spell[i]), NeT, Json(Spell[j])>>,
                         <<Id(<<99,111,110,116,97,105,110,115>>), LP, LB, Json(Spell[j]), RB, Comma, Json(Spell[i]), RP>>,
                         <<Json(Spell[i]), LeT, Json(Spell[j])>> } : j \in 1..Len(Spell) }

FalseLike == { Null, JFalse, Str(<<>>), Arr(<<>>), Obj(<<>>) }

Check == idx > 0 =>
  IF idx <= N
  THEN LET i == bucket  j == idx
           doc == DocOf(i, j)
           cases == { [expr |-> Render(Exprs[e]), adm |-> Admissible(Exprs[e], doc)] : e \in 1..Len(Exprs) }
           case == [p |-> Prop, kind |-> "search", doc |-> doc, multi |-> cases]
           eq(x, y) == Eval(Cmp("==", Lit(x), Lit(y)), Null, Null, EmptyEnv)
       IN /\ Emit => PrintT("CASE " \o ToJson(case))
          /\ Named(eq(V[i], V[i]) = JTrue, "Reflexive")
          /\ Named(eq(V[i], V[j]) = eq(V[j], V[i]), "Symmetric")
          /\ Named(\A k \in 1..N : (eq(V[i], V[j]) = JTrue /\ eq(V[j], V[k]) = JTrue) => eq(V[i], V[k]) = JTrue, "Transitive")
          /\ Named(V[i].t # V[j].t => eq(V[i], V[j]) = JFalse, "TypeStrict")
          /\ Named(Eval(Cmp("!=", Lit(V[i]), Lit(V[j])), Null, Null, EmptyEnv) = Bool(eq(V[i], V[j]) = JFalse), "NeIsNegation")
          /\ Named(Builtin(<<99,111,110,116,97,105,110,115>>, <<Arr(<<V[j], Str(<<122,122>>)>>), V[i]>>)
                     = Bool(eq(V[j], V[i]) = JTrue \/ eq(Str(<<122,122>>), V[i]) = JTrue), "ContainsIsExistsEq")
          /\ Named(Truthy(V[i]) = (Strip(V[i]) \notin FalseLike), "FiveFalseLike")
          /\ Named(Eval(And(Lit(V[i]), Lit(V[j])), Null, Null, EmptyEnv) \in {V[i], V[j]}
                   /\ Eval(Or(Lit(V[i]), Lit(V[j])), Null, Null, EmptyEnv) \in {V[i], V[j]}, "AndOrReturnOperand")
  ELSE LET i == bucket IN
       (i <= Len(Spell)) =>
          LET cases == { [expr |-> Render(e), adm |-> Admissible(e, Null)] : e \in LitExprs(i) }
              case == [p |-> Prop, kind |-> "search", doc |-> Null, multi |-> cases]
          IN Emit => PrintT("CASE " \o ToJson(case))
=============================================================================
