\* GENERATED from GenEq.tla.in by bin/tlapp -- edit the .in file
------------------------------ MODULE GenEq ------------------------------
(***************************************************************************)
(* Equality and truthiness (property C20).                                 *)
(* Instances: ordered pairs (i, j) of a pool of JSON values; the document  *)
(* is {a: Vi, b: Vj, c: [Vj, "zz"]} and a fixed family of expressions      *)
(* exercises ==, !=, contains, !, &&, ||, filters on it.  A second family  *)
(* compares number LITERALS in different spellings of the same value.      *)
(* Model checks: == is reflexive, symmetric, transitive, type-strict;      *)
(* != is its negation; contains is "exists ==" ; exactly five false-like   *)
(* shapes; && and || return one of their operands.                         *)
(***************************************************************************)
EXTENDS JMES, Json, Toks, DocsEq, SequencesExt, Decimal

CONSTANTS Emit, Prop
V == PoolEq
N == Len(V)

VARIABLES bucket, idx
Init == bucket \in 1..N /\ idx = 0
Next == idx = 0 /\ \E j \in 1..(N + 1) : idx' = j /\ UNCHANGED bucket    \* N + 1: the literal family
Spec == Init /\ [][Next]_<<bucket, idx>>

A == Id(<<97>>)  B == Id(<<98>>)  C == Id(<<99>>)
Exprs == <<
  <<A, EqT, B>>, <<A, NeT, B>>, <<B, EqT, A>>,
  <<Id(<<99,111,110,116,97,105,110,115>>), LP, C, Comma, A, RP>>,
  <<NotT, A>>, <<A, AndT, B>>, <<A, OrT, B>>, <<NotT, NotT, A>>,
  <<LB, A, Comma, B, RB, Filt, CurT, RB>>,
  <<C, Filt, CurT, EqT, RootT, Dot, A, RB>>,
  <<LB, A, RB, Filt, CurT, EqT, RootT, Dot, B, RB>>,
  <<A, EqT, A>>, <<LP, A, EqT, B, RP, EqT, LP, B, EqT, A, RP>>,
  <<NotT, LP, A, EqT, B, RP, EqT, LP, A, NeT, B, RP>>,
  <<A, AndT, B, OrT, A>>, <<LP, A, OrT, B, RP, AndT, B>> >>

DocOf(i, j) == Obj(<<Mem(<<97>>, V[i]), Mem(<<98>>, V[j]), Mem(<<99>>, Arr(<<V[j], Str(<<122,122>>)>>))>>)

\* spellings of numbers as literals: equal values must compare equal
Spell == << <<96,49,96>>, <<96,49,46,48,96>>, <<96,49,101,48,96>>, <<96,49,48,101,45,49,96>>, <<96,48,46,49,101,49,96>>, <<96,48,96>>, <<96,45,48,96>>, <<96,48,46,48,96>>, <<96,48,101,53,96>>,
            <<96,49,48,48,96>>, <<96,49,101,50,96>>, <<96,49,46,53,96>>, <<96,49,53,101,45,49,96>>, <<96,45,49,96>>, <<96,45,49,46,48,96>> >>
LitExprs(i) == UNION { { <<Json(Spell[i]), EqT, Json(Spell[j])>>, <<Json(Spell[i]), NeT, Json(Spell[j])>>,
                         <<Id(<<99,111,110,116,97,105,110,115>>), LP, LB, Json(Spell[j]), RB, Comma, Json(Spell[i]), RP>>,
                         <<Json(Spell[i]), LeT, Json(Spell[j])>> } : j \in 1..Len(Spell) }

FalseLike == { Null, JFalse, Str(<<>>), Arr(<<>>), Obj(<<>>) }

\* Beyond the number model (numerals of more than 34 digits, which the
\* implementation must round somehow; 64-bit limits; binary floats): the VALUE
\* of these expressions is not pinned here, but the laws checked above on the
\* model -- Reflexive, Symmetric, Transitive, NeIsNegation, ContainsIsExistsEq --
\* hold for every value whatsoever.  The harness evaluates  Ei == Ej,  Ei != Ej
\* and  contains([Ej], Ei)  for all pairs on the real code and checks the
\* relation it finds against those laws ("eqlaws" case).
LawExprs == << <<96,49,48,48,48,48,48,48,48,48,48,48,48,48,48,48,48,48,48,48,48,48,48,48,48,48,48,48,48,48,48,48,48,48,48,48,48,49,96>>, <<96,49,48,48,48,48,48,48,48,48,48,48,48,48,48,48,48,48,48,48,48,48,48,48,48,48,48,48,48,48,48,48,48,48,48,48,48,48,96>>, <<96,49,101,51,54,96>>,
               <<96,49,48,48,48,48,48,48,48,48,48,48,48,48,48,48,48,48,48,48,48,48,48,48,48,48,48,48,48,48,48,48,48,48,48,48,48,49,96,32,43,32,96,48,96>>, <<116,111,95,110,117,109,98,101,114,40,39,49,48,48,48,48,48,48,48,48,48,48,48,48,48,48,48,48,48,48,48,48,48,48,48,48,48,48,48,48,48,48,48,48,48,48,48,49,39,41>>,
               <<97,98,115,40,96,45,49,48,48,48,48,48,48,48,48,48,48,48,48,48,48,48,48,48,48,48,48,48,48,48,48,48,48,48,48,48,48,48,48,48,48,48,49,96,41>>, <<96,49,48,48,48,48,48,48,48,48,48,48,48,48,48,48,48,48,48,48,48,48,48,48,48,48,48,48,48,48,48,48,48,48,48,48,52,57,96>>, <<96,49,48,48,48,48,48,48,48,48,48,48,48,48,48,48,48,48,48,48,48,48,48,48,48,48,48,48,48,48,48,48,48,48,48,48,53,49,96>>,
               <<96,49,46,48,48,48,48,48,48,48,48,48,48,48,48,48,48,48,48,48,48,48,48,48,48,48,48,48,48,48,48,48,48,48,48,48,48,52,57,101,51,54,96>>, <<97>>, <<98>>, <<99>>, <<97,32,42,32,96,49,96>>, <<45,40,45,97,41>>,
               <<96,49,56,52,52,54,55,52,52,48,55,51,55,48,57,53,53,49,54,49,53,96>>, <<96,49,56,52,52,54,55,52,52,48,55,51,55,48,57,53,53,49,54,49,54,96>>, <<96,49,46,56,52,52,54,55,52,52,48,55,51,55,48,57,53,53,49,54,49,53,101,49,57,96>>, <<117>>, <<117,32,43,32,96,49,96>>, <<117,32,43,32,96,49,96,32,45,32,96,49,96>>,
               <<96,48,46,49,96,32,43,32,96,48,46,50,96>>, <<96,48,46,51,96>>, <<101,32,43,32,102>>, <<103>>, <<101,32,43,32,96,48,46,50,96>>, <<96,48,46,51,48,48,48,48,48,48,48,48,48,48,48,48,48,48,48,52,96>>, <<115,117,109,40,91,101,44,32,102,93,41>>,
               <<96,48,46,49,48,48,48,48,48,48,48,48,48,48,48,48,48,48,48,48,53,53,53,49,49,49,53,49,50,51,49,50,53,55,56,50,55,96>>, <<101>>, <<101,32,42,32,96,49,96>>, <<96,48,46,49,96>>, <<116,111,95,110,117,109,98,101,114,40,39,48,46,49,39,41>>,
               <<91,97,93>>, <<91,96,49,48,48,48,48,48,48,48,48,48,48,48,48,48,48,48,48,48,48,48,48,48,48,48,48,48,48,48,48,48,48,48,48,48,48,48,48,96,93>>, <<91,98,93>>, <<123,107,58,32,97,125>>, <<123,107,58,32,98,125>>, <<123,107,58,32,96,49,101,51,54,96,125>>,
               <<104>>, <<96,57,48,48,55,49,57,57,50,53,52,55,52,48,57,57,51,96>>, <<104,32,43,32,96,48,96>>, <<96,57,48,48,55,49,57,57,50,53,52,55,52,48,57,57,50,96>>, <<105>>, <<105,32,43,32,96,49,96>> >>
\* numerals outside the decimal128 range (a separate case: the first law broken ends a case)
LawExprsOver == << <<96,49,101,55,48,48,48,96>>, <<96,49,48,101,54,57,57,57,96>>, <<96,49,101,55,48,48,48,96,32,43,32,96,48,96>>, <<96,45,49,101,55,48,48,48,96>>, <<96,91,49,101,55,48,48,48,93,96>>, <<96,49,101,54,49,52,53,96>>, <<96,48,96>> >>
LawExprsRange == << <<96,49,101,45,55,48,48,48,96>>, <<96,50,101,45,55,48,48,48,96>>, <<96,48,96>>, <<96,49,101,54,49,52,52,96>>, <<96,57,46,57,57,57,57,57,57,57,57,57,57,57,57,57,57,57,57,57,57,57,57,57,57,57,57,57,57,57,57,57,57,57,57,57,101,54,49,52,52,96>>, <<96,49,48,101,54,49,52,51,96>>,
                    <<96,49,101,45,54,49,55,54,96>>, <<96,49,101,45,54,49,55,55,96>>, <<96,48,46,49,101,45,54,49,55,53,96>>, <<96,45,48,96>>, <<96,48,101,55,48,48,48,96>>, <<96,48,46,48,96>> >>
LawDoc == [t |-> "obj", o |-> <<
  [k |-> <<97>>, v |-> [t |-> "num", big |-> "1000000000000000000000000000000000001"]],
  [k |-> <<98>>, v |-> [t |-> "num", big |-> "1e36"]],
  [k |-> <<99>>, v |-> [t |-> "num", big |-> "1e36"]],
  [k |-> <<101>>, v |-> [t |-> "num", big |-> "0.1"]],
  [k |-> <<102>>, v |-> [t |-> "num", big |-> "0.2"]],
  [k |-> <<103>>, v |-> [t |-> "num", big |-> "0.3"]],
  [k |-> <<104>>, v |-> [t |-> "num", big |-> "9007199254740993"]],
  [k |-> <<105>>, v |-> [t |-> "num", big |-> "9007199254740992"]],
  [k |-> <<117>>, v |-> [t |-> "num", big |-> "18446744073709551615"]] >>]
\* carriers in member order a b c e f g h i u (floats here are deliberately inexact: the laws hold for any values)
LawCarriers == << <<"json", "json", "json", "json", "json", "json", "json", "json", "json">>,
                  <<"json", "decimal", "floatany", "floatany", "floatany", "floatany", "int64", "floatany", "uint64">>,
                  <<"decimal", "json", "decimal", "floatany", "json", "decimal", "json", "int64", "json">> >>

\* Integers that differ by a multiple of 2^32, 2^63 or 2^64 (what a fast path on machine words conflates):
\* the values u + k * 2^w are computed with the digit-sequence arithmetic of Decimal.tla, all have at most 34
\* digits and are pairwise different (WrapValuesDistinct), so here the relation IS pinned: expressions of one
\* class are equal, expressions of different classes are not.  Three spellings per value.
P32 == <<4,2,9,4,9,6,7,2,9,6>>
P63 == <<9,2,2,3,3,7,2,0,3,6,8,5,4,7,7,5,8,0,8>>
P64 == <<1,8,4,4,6,7,4,4,0,7,3,7,0,9,5,5,1,6,1,6>>
WrapBases == << <<5>>, <<9,9,9>>, <<4,2,9,4,9,6,7,2,9,5>>, <<3>> \o Zeros(18), <<9>> \o Zeros(18), <<1>> \o Zeros(19),
                <<1,2,3,4,5,6,7,8,9,0,1,2,3,4,5,6,7,8,9>>, <<1,7>> \o Zeros(18) >>
WrapOf(u) == << u, NAdd(u, P64), NAdd(u, NMul(P64, <<2>>)), NAdd(u, NMul(P64, <<1,0>>)), NAdd(u, P32), NAdd(u, P63), NAdd(u, NMul(P64, P32)) >>
WrapVals(b) == WrapOf(WrapBases[b])
DigCps(d) == [i \in 1..Len(d) |-> 48 + d[i]]
WrapExprs(b) == LET vs == WrapVals(b) IN
  [i \in 1..(3 * Len(vs)) |->
     LET d == DigCps(vs[((i - 1) \div 3) + 1]) IN
     CASE i % 3 = 1 -> <<96>> \o d \o <<96>>
       [] i % 3 = 2 -> <<96>> \o d \o <<46,48,96>>
       [] OTHER     -> <<96>> \o d \o <<96,32,43,32,96,48,96>>]
WrapClasses(b) == [i \in 1..(3 * Len(WrapVals(b))) |-> ((i - 1) \div 3) + 1]

Check == idx > 0 =>
  IF idx <= N
  THEN LET i == bucket  j == idx
           doc == DocOf(i, j)
           cases == { [expr |-> Render(Exprs[e]), adm |-> Admissible(Exprs[e], doc)] : e \in 1..Len(Exprs) }
           case == [p |-> Prop, kind |-> "search", doc |-> doc, multi |-> cases]
           eq(x, y) == Eval(Cmp("==", Lit(x), Lit(y)), Null, Null, EmptyEnv)
       IN /\ Emit => PrintT("CASE " \o ToJson(case))
          /\ Named(eq(V[i], V[i]) = JTrue, "Reflexive")
          /\ Named(eq(V[i], V[j]) = eq(V[j], V[i]), "Symmetric")
          /\ Named(\A k \in 1..N : (eq(V[i], V[j]) = JTrue /\ eq(V[j], V[k]) = JTrue) => eq(V[i], V[k]) = JTrue, "Transitive")
          /\ Named(V[i].t # V[j].t => eq(V[i], V[j]) = JFalse, "TypeStrict")
          /\ Named(Eval(Cmp("!=", Lit(V[i]), Lit(V[j])), Null, Null, EmptyEnv) = Bool(eq(V[i], V[j]) = JFalse), "NeIsNegation")
          /\ Named(Builtin(<<99,111,110,116,97,105,110,115>>, <<Arr(<<V[j], Str(<<122,122>>)>>), V[i]>>)
                     = Bool(eq(V[j], V[i]) = JTrue \/ eq(Str(<<122,122>>), V[i]) = JTrue), "ContainsIsExistsEq")
          /\ Named(Truthy(V[i]) = (Strip(V[i]) \notin FalseLike), "FiveFalseLike")
          /\ Named(Eval(And(Lit(V[i]), Lit(V[j])), Null, Null, EmptyEnv) \in {V[i], V[j]}
                   /\ Eval(Or(Lit(V[i]), Lit(V[j])), Null, Null, EmptyEnv) \in {V[i], V[j]}, "AndOrReturnOperand")
  ELSE LET i == bucket IN
       (i <= Len(Spell)) =>
          LET cases == { [expr |-> Render(e), adm |-> Admissible(e, Null)] : e \in LitExprs(i) }
              case == [p |-> Prop, kind |-> "search", doc |-> Null, multi |-> cases]
          IN /\ Emit => PrintT("CASE " \o ToJson(case))
             /\ (Emit /\ i <= Len(LawCarriers)) =>
                   PrintT("CASE " \o ToJson([p |-> Prop, kind |-> "eqlaws", exprs |-> LawExprs, doc |-> LawDoc, carriers |-> LawCarriers[i]]))
             /\ (Emit /\ i = 1) =>
                   PrintT("CASE " \o ToJson([p |-> Prop, kind |-> "eqlaws", exprs |-> LawExprsRange, doc |-> LawDoc, carriers |-> LawCarriers[1]]))
             /\ (Emit /\ i = 1) =>
                   PrintT("CASE " \o ToJson([p |-> Prop, kind |-> "eqlaws", exprs |-> LawExprsOver, doc |-> LawDoc, carriers |-> LawCarriers[1]]))
             /\ (Emit /\ i <= Len(WrapBases)) =>
                   PrintT("CASE " \o ToJson([p |-> Prop, kind |-> "eqlaws", exprs |-> WrapExprs(i), classes |-> WrapClasses(i), doc |-> LawDoc, carriers |-> LawCarriers[1]]))
             /\ Named(i > Len(WrapBases) \/ LET vs == WrapVals(i) IN
                        \A x, y \in 1..Len(vs) : (x # y => NCmp(vs[x], vs[y]) # 0) /\ Len(vs[x]) <= 34, "WrapValuesDistinct")
=============================================================================
