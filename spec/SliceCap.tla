------------------------------ MODULE SliceCap ------------------------------
(***************************************************************************)
(* The clamp of an explicit slice bound (the standard's algorithm), in a   *)
(* module of its own so that both Slice.tla (TLC) and SliceProofs.tla      *)
(* (TLAPS, which does not read RECURSIVE definitions) use the same text.   *)
(***************************************************************************)
EXTENDS Integers

\* clamp an explicit bound
Cap(len, x, step) ==
  LET y == IF x < 0 THEN x + len ELSE x IN
  IF y < 0 THEN (IF step < 0 THEN 0 - 1 ELSE 0)
  ELSE IF y >= len THEN (IF step < 0 THEN len - 1 ELSE len)
  ELSE y

\* the guard of Walk(i, stop, step) in Slice.tla: index i is visited
Visits(i, stop, step) == (step > 0 /\ i < stop) \/ (step < 0 /\ i > stop)
=============================================================================
