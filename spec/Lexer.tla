\* GENERATED from Lexer.tla.in by bin/tlapp -- edit the .in file
----------------------------- MODULE Lexer -----------------------------
(***************************************************************************)
(* Tokenisation of JMESPath Community expressions.                         *)
(*                                                                         *)
(* Input: a sequence of code points; -1 stands for "a byte sequence that   *)
(* is not valid UTF-8" (such input can never be part of a token).          *)
(* Output: [ok |-> TRUE, ts |-> tokens] or [ok |-> FALSE].                 *)
(*                                                                         *)
(* A token is [k |-> kind, cp |-> lexeme (code points), sp |-> blank       *)
(* before it].  Literal tokens keep their raw lexeme; decoding is done by  *)
(* Literals.tla when the grammar builds the AST.  Only "[?" and "[]" are   *)
(* composite bracket terminals (they are terminals of the ABNF); "[*]" and *)
(* ".*" are left to the grammar, which knows whether blanks inside them    *)
(* matter (they are not pinned by the standard).                           *)
(*                                                                         *)
(* Written twice: as the function Lex(s) used by the other modules and as  *)
(* a state machine (LexInit/LexNext, one action per token class) on which  *)
(* TLC checks termination in Lex(s) and strict progress of the position.   *)
(***************************************************************************)
EXTENDS Integers, Sequences, FiniteSets, TLC

IsWs(c)     == c \in {32, 9, 10, 13}
IsDigit(c)  == c >= 48 /\ c <= 57
IsAlpha(c)  == (c >= 65 /\ c <= 90) \/ (c >= 97 /\ c <= 122) \/ c = 95
IsAlnum(c)  == IsAlpha(c) \/ IsDigit(c)

Tok(k, cp, sp) == [k |-> k, cp |-> cp, sp |-> sp]

At(s, i) == IF i <= Len(s) THEN s[i] ELSE 0 - 2      \* -2 = end of input

\* end (exclusive index) of the run of characters satisfying a class
RECURSIVE RunAlnum(_, _)
RunAlnum(s, i) == IF i <= Len(s) /\ IsAlnum(s[i]) THEN RunAlnum(s, i + 1) ELSE i
RECURSIVE RunDigit(_, _)
RunDigit(s, i) == IF i <= Len(s) /\ IsDigit(s[i]) THEN RunDigit(s, i + 1) ELSE i
RECURSIVE RunWs(_, _)
RunWs(s, i) == IF i <= Len(s) /\ IsWs(s[i]) THEN RunWs(s, i + 1) ELSE i

\* Index just after the closing delimiter q of a delimited token that opened
\* before position i, or 0 if the input ends or contains an invalid byte
\* first.  A backslash makes the following character part of the token.
RECURSIVE ScanDelim(_, _, _)
ScanDelim(s, i, q) ==
  IF i > Len(s) THEN 0
  ELSE IF s[i] = 0 - 1 THEN 0
  ELSE IF s[i] = q THEN i + 1
  ELSE IF s[i] = 92 THEN (IF i + 1 > Len(s) \/ s[i + 1] = 0 - 1 THEN 0 ELSE ScanDelim(s, i + 2, q))
  ELSE ScanDelim(s, i + 1, q)

\* One token starting at position i (not blank, i <= Len(s)).
\* Result: [ok, k, j] with j the index after the token.
Two(s, i, c2, k2, k1) == IF At(s, i + 1) = c2 THEN [ok |-> TRUE, k |-> k2, j |-> i + 2]
                         ELSE [ok |-> TRUE, k |-> k1, j |-> i + 1]
One(i, k) == [ok |-> TRUE, k |-> k, j |-> i + 1]
Bad == [ok |-> FALSE, k |-> "", j |-> 0]

ScanToken(s, i) ==
  LET c == s[i] IN
  CASE c = 34 -> LET j == ScanDelim(s, i + 1, 34) IN IF j = 0 THEN Bad ELSE [ok |-> TRUE, k |-> "qid", j |-> j]
    [] c = 39 -> LET j == ScanDelim(s, i + 1, 39) IN IF j = 0 THEN Bad ELSE [ok |-> TRUE, k |-> "raw", j |-> j]
    [] c = 96 -> LET j == ScanDelim(s, i + 1, 96) IN IF j = 0 THEN Bad ELSE [ok |-> TRUE, k |-> "json", j |-> j]
    [] c = 36 -> IF IsAlpha(At(s, i + 1)) THEN [ok |-> TRUE, k |-> "var", j |-> RunAlnum(s, i + 1)]
                 ELSE One(i, "root")
    [] c = 37 -> One(i, "mod")
    [] c = 38 -> Two(s, i, 38, "and", "amp")
    [] c = 40 -> One(i, "lparen")
    [] c = 41 -> One(i, "rparen")
    [] c = 42 -> One(i, "star")
    [] c = 43 -> One(i, "plus")
    [] c = 44 -> One(i, "comma")
    [] c = 45 -> IF IsDigit(At(s, i + 1)) THEN [ok |-> TRUE, k |-> "int", j |-> RunDigit(s, i + 1)]
                 ELSE One(i, "minus")
    [] c = 46 -> One(i, "dot")
    [] c = 47 -> Two(s, i, 47, "idiv", "div")
    [] c = 58 -> One(i, "colon")
    [] c = 60 -> Two(s, i, 61, "le", "lt")
    [] c = 61 -> Two(s, i, 61, "eq", "assign")
    [] c = 62 -> Two(s, i, 61, "ge", "gt")
    [] c = 64 -> One(i, "cur")
    [] c = 91 -> IF At(s, i + 1) = 63 THEN [ok |-> TRUE, k |-> "filter", j |-> i + 2]
                 ELSE IF At(s, i + 1) = 93 THEN [ok |-> TRUE, k |-> "flatten", j |-> i + 2]
                 ELSE One(i, "lbracket")
    [] c = 93 -> One(i, "rbracket")
    [] c = 123 -> One(i, "lbrace")
    [] c = 124 -> Two(s, i, 124, "or", "pipe")
    [] c = 125 -> One(i, "rbrace")
    [] c = 33 -> Two(s, i, 61, "ne", "not")
    [] c = 215 -> One(i, "mult")          \* U+00D7 multiplication sign
    [] c = 247 -> One(i, "div")           \* U+00F7 division sign
    [] c = 8722 -> One(i, "minus")        \* U+2212 minus sign
    [] IsDigit(c) -> [ok |-> TRUE, k |-> "int", j |-> RunDigit(s, i)]
    [] IsAlpha(c) -> [ok |-> TRUE, k |-> "id", j |-> RunAlnum(s, i)]
    [] OTHER -> Bad

RECURSIVE LexFrom(_, _, _)
LexFrom(s, i, acc) ==
  LET j == RunWs(s, i) IN
  IF j > Len(s) THEN [ok |-> TRUE, ts |-> acc]
  ELSE LET r == ScanToken(s, j) IN
       IF ~r.ok THEN [ok |-> FALSE, ts |-> acc]          \* the tokens before the failure
       ELSE LexFrom(s, r.j, Append(acc, Tok(r.k, SubSeq(s, j, r.j - 1), j > i)))

Lex(s) == LexFrom(s, 1, <<>>)

\* ------------------------------------------------------------------------
\* Rendering tokens back to text: a blank is written where the token says so
\* and wherever gluing two lexemes would change the token boundaries.
WordLike(t) == t.k \in {"id", "int", "var"}
NeedsGap(a, b) ==
  \/ a.k \in {"id", "var"} /\ b.k \in {"id", "int"} /\ IsAlnum(Head(b.cp))   \* ab, a1, $a1
  \/ a.k = "root" /\ b.k = "id"                                              \* $ a vs $a
  \/ a.k = "minus" /\ b.k = "int" /\ a.cp = <<45>>            \* - 1 vs -1
  \/ a.k = "amp"  /\ b.k \in {"amp", "and"}
  \/ a.k = "pipe" /\ b.k \in {"pipe", "or"}
  \/ a.k \in {"assign", "lt", "gt", "not"} /\ b.k \in {"assign", "eq"}
  \/ a.k = "div" /\ a.cp = <<47>> /\ b.k \in {"div", "idiv"} /\ Head(b.cp) = 47
  \/ a.k = "lbracket" /\ b.k = "rbracket"                     \* "[ ]" is not "[]"
  \/ a.k = "int" /\ b.k = "int"

RECURSIVE RenderFrom(_, _)
RenderFrom(ts, i) ==
  IF i > Len(ts) THEN <<>>
  ELSE (IF i > 1 /\ (ts[i].sp \/ NeedsGap(ts[i - 1], ts[i])) THEN <<32>> ELSE <<>>)
       \o ts[i].cp \o RenderFrom(ts, i + 1)
Render(ts) == RenderFrom(ts, 1)

\* tokens as Lex would report them for Render(ts) (sp normalised)
NormSp(ts) == [i \in 1..Len(ts) |->
                 [ts[i] EXCEPT !.sp = i > 1 /\ (ts[i].sp \/ NeedsGap(ts[i - 1], ts[i]))]]

=============================================================================
