SPECIFICATION Spec
CONSTANTS
  Emit = FALSE
  Prop = "C02"
  Small = 9
INVARIANTS
  Check
CHECK_DEADLOCK FALSE
