\* GENERATED from GenLit.tla.in by bin/tlapp -- edit the .in file
------------------------------ MODULE GenLit ------------------------------
(***************************************************************************)
(* Literals (property C16).  The machine builds a string s one symbol at a *)
(* time over an alphabet of the characters that matter to the three        *)
(* literal syntaxes (quote, double quote, backtick, backslash, a, u, line  *)
(* feed, U+0001, e-acute, an emoji, U+FFFD, blank).  For every s:          *)
(*   'enc(s)'      raw string (two legal spellings)      evaluates to s    *)
(*   `"enc(s)"`    JSON literal (minimal / all \uXXXX)   evaluates to s    *)
(*   "enc(s)"      quoted identifier (both styles)       selects member s  *)
(* and a backslash before any other character in a raw string is kept.     *)
(* Model checks: Dec(Enc(s)) = s for each syntax, and each literal is one  *)
(* token for the lexer.                                                    *)
(***************************************************************************)
EXTENDS JMES, Json, Toks

CONSTANTS Emit, Prop, MaxLen

AL == <<39, 34, 96, 92, 97, 117, 10, 1, 233, 128512, 65533, 32, 65536, 1114111>>   \* ... U+10000 and U+10FFFF: boundary surrogate pairs
VARIABLE s
Init == s = <<>>
Next == Len(s) < MaxLen /\ \E c \in 1..Len(AL) : s' = Append(s, AL[c])
Spec == Init /\ [][Next]_s

HasCtl(q) == \E i \in 1..Len(q) : q[i] < 32
OneTok(k, cp) == LET l == Lex(cp) IN l.ok /\ Len(l.ts) = 1 /\ l.ts[1].k = k /\ l.ts[1].cp = cp

\* JSON values written between backticks
JVals == << Null, JTrue, JInt(0), Num(15, 0 - 1), Num(0 - 25, 3), Str(s), Arr(<<>>), Arr(<<Str(s), JInt(1), Null>>),
            Obj(<<>>), Obj(<<Mem(s, Arr(<<Str(s)>>))>>), Obj(<<Mem(<<97>>, Obj(<<Mem(s, JFalse)>>))>>) >>

Check ==
  LET docK == Obj(<<Mem(s, JInt(1)), Mem(<<111,116,104,101,114>>, JInt(2))>>)
      val(ts, doc, want) == [expr |-> Render(ts), doc |-> doc, adm |-> Admissible(ts, doc), want |-> want]
      raws == IF HasCtl(s) THEN {} ELSE { val(<<Raw(EncRaw(s))>>, Null, Str(s)), val(<<Raw(EncRawAll(s))>>, Null, Str(s)) }
      jsons == { val(<<Json(EncJSONStr(s, FALSE))>>, Null, Str(s)), val(<<Json(EncJSONStr(s, TRUE))>>, Null, Str(s)) }
      qids == { val(<<QId(EncQuoted(s, FALSE))>>, docK, JInt(1)), val(<<QId(EncQuoted(s, TRUE))>>, docK, JInt(1)),
                val(<<LBr, QId(EncQuoted(s, FALSE)), Colon, Json(<<96,55,96>>), RBr>>, docK, Obj(<<Mem(s, JInt(7))>>)) }
      \* a backslash before a character other than ' and \ stays
      kept == IF Len(s) = 1 /\ s[1] \notin {39, 92} /\ s[1] >= 32
              THEN { val(<<Raw(<<39, 92, s[1], 39>>)>>, Null, Str(<<92, s[1]>>)) } ELSE {}
      vals == { val(<<Json(EncJSON(JVals[i]))>>, Null, JVals[i]) : i \in 1..Len(JVals) }
      \* ill-formed surrogate escapes: a syntax error, or U+FFFD for the lone
      \* surrogate with the REST DECODED NORMALLY -- never a pair made up from
      \* the following characters
      tricky == IF s # <<>> THEN {} ELSE
                { val(<<Id(<<107,101,121,115>>), LP, LBr, QId(q), Colon, Json(<<96,49,96>>), RBr, RP>>, docK, Null) :
                    q \in { <<34,92,117,68,56,51,68,92,110,68,69,48,48,34>>, <<34,92,117,68,56,51,68,97,117,68,69,48,48,34>>, <<34,92,117,68,56,51,68,92,117,32,32,48,48,34>>, <<34,92,117,68,69,48,48,34>>,
                            <<34,92,117,68,56,51,68,34>>, <<34,92,117,68,56,51,68,120,34>>, <<34,92,117,68,56,51,68,92,117,68,56,51,68,92,117,68,69,48,48,34>>, <<34,92,117,68,56,51,68,92,117,48,48,52,49,34>>,
                            <<34,92,117,48,48,101,57,92,117,68,56,51,68,92,117,68,69,48,48,92,117,48,48,69,57,34>>, <<34,92,117,68,56,51,68,92,117,68,69,48,34>>, <<34,92,117,68,56,51,68,92,117,68,69,48,103,34>> } }
                \cup { val(<<Json(q)>>, Null, Null) :
                    q \in { <<96,34,92,117,68,56,51,68,92,110,68,69,48,48,34,96>>, <<96,34,92,117,68,56,51,68,34,96>>, <<96,34,92,117,68,69,48,48,120,34,96>>, <<96,34,92,117,68,56,51,68,92,117,68,69,48,48,34,96>> } }
      all == raws \cup jsons \cup qids \cup kept \cup vals
      case == [p |-> Prop, kind |-> "search", multi |-> { [expr |-> c.expr, doc |-> c.doc, adm |-> c.adm] : c \in all \cup tricky }]
  IN /\ Emit => PrintT("CASE " \o ToJson(case))
     \* the literal means what was encoded, and nothing else is admissible
     /\ Named(\A c \in all : c.adm = {c.want} \/ ~PrintT(<<"BAD", c.expr, c.adm, c.want>>), "LiteralDecodesToItself")
     /\ Named(HasCtl(s) \/ (DecRaw(EncRaw(s)) = s /\ DecRaw(EncRawAll(s)) = s), "DecEncRaw")
     /\ Named(\A u \in BOOLEAN : LET d == DecQuoted(EncQuoted(s, u), FALSE) IN d.ok /\ d.s = s, "DecEncQuoted")
     /\ Named(\A u \in BOOLEAN : LET d == DecJSON(EncJSONStr(s, u), FALSE) IN d.ok /\ d.v = Str(s), "DecEncJSON")
     /\ Named((HasCtl(s) \/ OneTok("raw", EncRaw(s))) /\ OneTok("qid", EncQuoted(s, FALSE)) /\ OneTok("json", EncJSONStr(s, FALSE)), "OneToken")
=============================================================================
