\* GENERATED from GenHostile.tla.in by bin/tlapp -- edit the .in file
---------------------------- MODULE GenHostile ----------------------------
(***************************************************************************)
(* Hostile data (property C03): the document {a: n, b: n, c: [n, n]} with  *)
(* one number leaf replaced by a Go value that is not a finite JSON number *)
(* (NaN, infinities as float and decimal, json.Number with garbage text,   *)
(* typed slices and maps, structs, channels, nil pointers, functions, ...) *)
(* under every expression of the carrier family.  The specification says   *)
(* nothing about the result (Open): the only demand is that the call       *)
(* returns normally and that a returned error formats.                     *)
(***************************************************************************)
EXTENDS GenCarrier, HostileKinds
HInit == bucket \in 1..Len(Hostile) /\ idx = 0
HNext == idx = 0 /\ \E pos \in 1..5 : idx' = pos /\ UNCHANGED bucket
HSpec == HInit /\ [][HNext]_<<bucket, idx>>
MoreExprs == { <<A>>, <<C, LB, IntT(<<48>>), RB>>, <<C, LB, Star, RB>>, <<Star>>, Fn(<<116,111,95,115,116,114,105,110,103>>, <<CurT>>), Fn(<<116,111,95,115,116,114,105,110,103>>, <<A>>),
               Fn(<<107,101,121,115>>, <<CurT>>), Fn(<<118,97,108,117,101,115>>, <<CurT>>), <<CurT, EqT, CurT>>, <<C, EqT, C>>, Fn(<<108,101,110,103,116,104>>, <<A>>),
               <<A, LB, IntT(<<48>>), RB>>, <<A, LB, Colon, Colon, IntT(<<45,49>>), RB>>, <<A, Dot, Id(<<120>>)>>, <<A, LB, Star, RB>>,
               <<A, Dot, Star>>, <<A, Flat>>, Fn(<<115,111,114,116>>, <<LB, A, Comma, B, RB>>), Fn(<<103,114,111,117,112,95,98,121>>, <<C, Comma, AmpT>> \o Fn(<<116,111,95,115,116,114,105,110,103>>, <<CurT>>)),
               Fn(<<105,116,101,109,115>>, <<CurT>>), Fn(<<102,114,111,109,95,105,116,101,109,115>>, <<LB, LB, Raw(<<39,107,39>>), Comma, A, RB, RB>>), Fn(<<114,101,118,101,114,115,101>>, <<A>>), Fn(<<106,111,105,110>>, <<A, Comma, C>>),
               Fn(<<115,116,97,114,116,115,95,119,105,116,104>>, <<A, Comma, A>>), Fn(<<108,111,119,101,114>>, <<A>>), Fn(<<116,114,105,109>>, <<A>>), Fn(<<107,101,121,115>>, <<A>>), Fn(<<109,97,112>>, <<AmpT, CurT, Comma, A>>) }
HCheck == idx > 0 =>
  LET doc == DocOf(JInt(1), JInt(2))
      cr == [i \in 1..5 |-> IF i = idx THEN Hostile[bucket] ELSE "json"]
      case == [p |-> Prop, kind |-> "search", doc |-> doc, carriers |-> cr,
               multi |-> { [expr |-> Render(e), adm |-> {Open}] : e \in Exprs \cup MoreExprs }]
  IN Emit => PrintT("CASE " \o ToJson(case))
=============================================================================
