\* GENERATED from Toks.tla.in by bin/tlapp -- edit the .in file
------------------------------ MODULE Toks ------------------------------
(* Token constructors shared by the generator machines. *)
EXTENDS Lexer
Tk(k, cp) == Tok(k, cp, FALSE)
Dot == Tk("dot", <<46>>)      LB == Tk("lbracket", <<91>>)   RB == Tk("rbracket", <<93>>)
Star == Tk("star", <<42>>)    Colon == Tk("colon", <<58>>)   Comma == Tk("comma", <<44>>)
Flat == Tk("flatten", <<91,93>>) Filt == Tk("filter", <<91,63>>) LBr == Tk("lbrace", <<123>>)
RBr == Tk("rbrace", <<125>>)   LP == Tk("lparen", <<40>>)     RP == Tk("rparen", <<41>>)
PipeT == Tk("pipe", <<124>>)   OrT == Tk("or", <<124,124>>)       AndT == Tk("and", <<38,38>>)
NotT == Tk("not", <<33>>)     EqT == Tk("eq", <<61,61>>)       NeT == Tk("ne", <<33,61>>)
LtT == Tk("lt", <<60>>)       CurT == Tk("cur", <<64>>)      RootT == Tk("root", <<36>>)
Id(s) == Tk("id", s)        IntT(s) == Tk("int", s)      Json(s) == Tk("json", s)
Raw(s) == Tk("raw", s)

GtT == Tk("gt", <<62>>)       LeT == Tk("le", <<60,61>>)       GeT == Tk("ge", <<62,61>>)
PlusT == Tk("plus", <<43>>)   MinusT == Tk("minus", <<45>>)  MultT == Tk("mult", <<215>>)
DivT == Tk("div", <<47>>)     DivUT == Tk("div", <<247>>) IDivT == Tk("idiv", <<47,47>>)
ModT == Tk("mod", <<37>>)     MinusUT == Tk("minus", <<8722>>)  AmpT == Tk("amp", <<38>>)
AssignT == Tk("assign", <<61>>)   VarT(s) == Tk("var", s)   QId(s) == Tk("qid", s)
LetT == Tok("id", <<108,101,116>>, FALSE)   InT == Tok("id", <<105,110>>, TRUE)
Named(ok, name) == ok \/ ~PrintT("MODELFAIL " \o name)
=============================================================================
