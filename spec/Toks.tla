\* GENERATED from Toks.tla.in by bin/tlapp -- edit the .in file
------------------------------ MODULE Toks ------------------------------
(* Token constructors shared by the generator machines. *)
EXTENDS Lexer
t(k, cp) == Tok(k, cp, FALSE)
Dot == t("dot", <<46>>)      LB == t("lbracket", <<91>>)   RB == t("rbracket", <<93>>)
Star == t("star", <<42>>)    Colon == t("colon", <<58>>)   Comma == t("comma", <<44>>)
Flat == t("flatten", <<91,93>>) Filt == t("filter", <<91,63>>) LBr == t("lbrace", <<123>>)
RBr == t("rbrace", <<125>>)   LP == t("lparen", <<40>>)     RP == t("rparen", <<41>>)
PipeT == t("pipe", <<124>>)   OrT == t("or", <<124,124>>)       AndT == t("and", <<38,38>>)
NotT == t("not", <<33>>)     EqT == t("eq", <<61,61>>)       NeT == t("ne", <<33,61>>)
LtT == t("lt", <<60>>)       CurT == t("cur", <<64>>)      RootT == t("root", <<36>>)
Id(s) == t("id", s)        IntT(s) == t("int", s)      Json(s) == t("json", s)
Raw(s) == t("raw", s)

GtT == t("gt", <<62>>)       LeT == t("le", <<60,61>>)       GeT == t("ge", <<62,61>>)
PlusT == t("plus", <<43>>)   MinusT == t("minus", <<45>>)  MultT == t("mult", <<215>>)
DivT == t("div", <<47>>)     DivUT == t("div", <<247>>) IDivT == t("idiv", <<47,47>>)
ModT == t("mod", <<37>>)     MinusUT == t("minus", <<8722>>)  AmpT == t("amp", <<38>>)
AssignT == t("assign", <<61>>)   VarT(s) == t("var", s)   QId(s) == t("qid", s)
LetT == Tok("id", <<108,101,116>>, FALSE)   InT == Tok("id", <<105,110>>, TRUE)
Named(ok, name) == ok \/ ~PrintT("MODELFAIL " \o name)
=============================================================================
