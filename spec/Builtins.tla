\* GENERATED from Builtins.tla.in by bin/tlapp -- edit the .in file
----------------------------- MODULE Builtins -----------------------------
(***************************************************************************)
(* The built-in functions of JMESPath Community on evaluated arguments     *)
(* (property C02).  Builtin(f, vs) takes the function name (code points)   *)
(* and the argument values and returns an outcome.  Functions that take an *)
(* expression reference are applied by Eval.tla, which evaluates the       *)
(* reference on every element and passes the resulting keys here.          *)
(*                                                                         *)
(* Order of checks, pinned by the corpus                                   *)
(* (find_first(string,'string',`1.3`,'2') => invalid-type): the types of   *)
(* ALL arguments are checked before any value range.                       *)
(***************************************************************************)
EXTENDS JValue, Literals

TErr == Err("invalid-type")
VErr == Err("invalid-value")

T(v, ts) == v.t \in ts
AllT(a, t) == \A i \in 1..Len(a) : a[i].t = t

\* value used for an integral numeric argument; magnitudes outside the small
\* model collapse to the sentinel (they only ever get compared with lengths)
BHuge == 1000000000
IntArg(v) == IF SmallInt(v) THEN IntOf(v) ELSE SignI(v.n) * BHuge

\* ---- strings -------------------------------------------------------------
Sub3(s, i, j) == SubSeq(s, i, j)                       \* 1-based inclusive
MatchAt(s, p, i) == i >= 1 /\ i + Len(p) - 1 <= Len(s) /\ SubSeq(s, i, i + Len(p) - 1) = p
IsSubstr(s, p) == \E i \in 1..(Len(s) - Len(p) + 1) : MatchAt(s, p, i)
StartsWith(s, p) == MatchAt(s, p, 1)
EndsWith(s, p) == Len(p) <= Len(s) /\ MatchAt(s, p, Len(s) - Len(p) + 1)

\* first / last 0-based position of p in s with the whole match inside the
\* 0-based half-open window [a, b); Null if none.  p non-empty.
FindIn(s, p, a, b, first) ==
  LET cand == { i \in a..(b - Len(p)) : i >= 0 /\ MatchAt(s, p, i + 1) } IN
  IF cand = {} THEN Null
  ELSE JInt(IF first THEN CHOOSE i \in cand : \A j \in cand : i <= j
                     ELSE CHOOSE i \in cand : \A j \in cand : i >= j)

\* two readings of a negative offset: counted from the end, or clamped to 0
OffEnd(len, x)   == LET y == IF x < 0 THEN x + len ELSE x IN IF y < 0 THEN 0 ELSE IF y > len THEN len ELSE y
OffClamp(len, x) == IF x < 0 THEN 0 ELSE IF x > len THEN len ELSE x

Find(vs, first) ==
  LET n == Len(vs) IN
  IF ~(T(vs[1], {"str"}) /\ T(vs[2], {"str"})) THEN TErr
  ELSE IF \E i \in 3..n : vs[i].t # "num" THEN TErr
  ELSE IF \E i \in 3..n : ~IsIntegral(vs[i]) THEN VErr
  ELSE LET s == vs[1].s  p == vs[2].s  len == Len(s)
           xa == IF n >= 3 THEN IntArg(vs[3]) ELSE 0
           xb == IF n >= 4 THEN IntArg(vs[4]) ELSE len
       IN IF Len(p) = 0 THEN (IF n = 2 THEN Null ELSE Open)   \* empty needle with offsets: open
          ELSE LET r1 == FindIn(s, p, OffEnd(len, xa), OffEnd(len, xb), first)
                   r2 == FindIn(s, p, OffClamp(len, xa), OffClamp(len, xb), first)
               IN IF r1 = r2 THEN r1 ELSE Open                \* the two readings disagree: open

\* k copies of the sequence c (not recursive: widths of several hundred occur)
RepeatSeq(c, k) == IF k <= 0 \/ Len(c) = 0 THEN <<>> ELSE [i \in 1..(k * Len(c)) |-> c[((i - 1) % Len(c)) + 1]]

Pad(vs, left) ==
  LET n == Len(vs) IN
  IF ~T(vs[1], {"str"}) \/ ~T(vs[2], {"num"}) \/ (n = 3 /\ ~T(vs[3], {"str"})) THEN TErr
  ELSE IF ~IsIntegral(vs[2]) \/ vs[2].n < 0 THEN VErr
  ELSE IF n = 3 /\ Len(vs[3].s) # 1 THEN VErr
  ELSE LET w == IntArg(vs[2])  s == vs[1].s
           c == IF n = 3 THEN vs[3].s ELSE <<32>>
       IN IF w > 400 + Len(s) THEN Open                 \* larger than the model renders
          ELSE LET fill == RepeatSeq(c, w - Len(s)) IN
               Str(IF left THEN fill \o s ELSE s \o fill)

\* replace the first `count` (or all when count < 0) non-overlapping matches
RECURSIVE ReplFrom(_, _, _, _, _)
ReplFrom(s, old, new, i, count) ==
  IF i > Len(s) THEN <<>>
  ELSE IF count # 0 /\ MatchAt(s, old, i)
       THEN new \o ReplFrom(s, old, new, i + Len(old), count - 1)
  ELSE <<s[i]>> \o ReplFrom(s, old, new, i + 1, count)

Replace(vs) ==
  LET n == Len(vs) IN
  IF ~(T(vs[1], {"str"}) /\ T(vs[2], {"str"}) /\ T(vs[3], {"str"})) \/ (n = 4 /\ ~T(vs[4], {"num"})) THEN TErr
  ELSE IF n = 4 /\ (~IsIntegral(vs[4]) \/ vs[4].n < 0) THEN VErr
  ELSE IF Len(vs[2].s) = 0 THEN Open                     \* empty `old`: open
  ELSE Str(ReplFrom(vs[1].s, vs[2].s, vs[3].s, 1, IF n = 4 THEN IntArg(vs[4]) ELSE 0 - 1))

\* split s at the first `count` (all when count < 0) occurrences of sep (non-empty)
RECURSIVE SplitFrom(_, _, _, _, _)
SplitFrom(s, sep, i, start, count) ==
  IF i > Len(s) - Len(sep) + 1 \/ count = 0 THEN <<Str(SubSeq(s, start, Len(s)))>>
  ELSE IF MatchAt(s, sep, i)
       THEN <<Str(SubSeq(s, start, i - 1))>> \o SplitFrom(s, sep, i + Len(sep), i + Len(sep), count - 1)
  ELSE SplitFrom(s, sep, i + 1, start, count)

Split(vs) ==
  LET n == Len(vs) IN
  IF ~(T(vs[1], {"str"}) /\ T(vs[2], {"str"})) \/ (n = 3 /\ ~T(vs[3], {"num"})) THEN TErr
  ELSE IF n = 3 /\ (~IsIntegral(vs[3]) \/ vs[3].n < 0) THEN VErr
  ELSE LET s == vs[1].s  sep == vs[2].s
           count == IF n = 3 THEN IntArg(vs[3]) ELSE 0 - 1
       IN IF Len(s) = 0 /\ n = 3 /\ Len(sep) = 0 THEN Open   \* empty subject, empty separator, explicit count: open
          ELSE IF Len(sep) = 0
          THEN \* one element per code point; with a count the rest stays together
               (IF count < 0 \/ count >= Len(s) THEN Arr([i \in 1..Len(s) |-> Str(<<s[i]>>)])
                ELSE Arr([i \in 1..(count + 1) |->
                            IF i <= count THEN Str(<<s[i]>>) ELSE Str(SubSeq(s, count + 1, Len(s)))]))
          \* (a subject without an occurrence of the separator -- the empty subject included -- gives an array holding
          \* just the subject, whatever the count; this was Open for the empty subject until the round-10 audit,
          \* because the implementation returned [] there)
          ELSE Arr(SplitFrom(s, sep, 1, 1, count))

\* Unicode White_Space; only ASCII blanks and U+3000 are exercised by the corpus
WhiteSpace == {9, 10, 11, 12, 13, 32, 133, 160, 5760, 8232, 8233, 8239, 8287, 12288} \cup (8192..8202)
RECURSIVE TrimL(_, _)
TrimL(s, cs) == IF Len(s) > 0 /\ Head(s) \in cs THEN TrimL(Tail(s), cs) ELSE s
RECURSIVE TrimR(_, _)
TrimR(s, cs) == IF Len(s) > 0 /\ Last(s) \in cs THEN TrimR(Front(s), cs) ELSE s
Trim(vs, l, r) ==
  IF ~T(vs[1], {"str"}) \/ (Len(vs) = 2 /\ ~T(vs[2], {"str"})) THEN TErr
  ELSE LET dflt == Len(vs) = 1 \/ Len(vs[2].s) = 0
           cs == IF dflt THEN WhiteSpace ELSE SeqRange(vs[2].s)
           s  == vs[1].s
       IN IF dflt /\ \E i \in 1..Len(s) : s[i] >= 128 /\ s[i] # 12288 THEN Open   \* which non-ASCII blanks: open
          ELSE Str(LET a == IF l THEN TrimL(s, cs) ELSE s IN IF r THEN TrimR(a, cs) ELSE a)

IsAscii(s) == \A i \in 1..Len(s) : s[i] < 128
LowerC(c) == IF c >= 65 /\ c <= 90 THEN c + 32 ELSE c
UpperC(c) == IF c >= 97 /\ c <= 122 THEN c - 32 ELSE c

RECURSIVE JoinFrom(_, _, _)
JoinFrom(g, a, i) == IF i > Len(a) THEN <<>>
                     ELSE (IF i > 1 THEN g ELSE <<>>) \o a[i].s \o JoinFrom(g, a, i + 1)

\* ---- ordering ------------------------------------------------------------
\* keys are all numbers or all strings (checked by the callers)
KeyLess(a, b) == IF a.t = "num" THEN CmpNum(a, b) < 0 ELSE SeqLess(a.s, b.s)
KeyEq(a, b)   == IF a.t = "num" THEN CmpNum(a, b) = 0 ELSE a.s = b.s
Sortable(ks)  == AllT(ks, "num") \/ AllT(ks, "str")

\* stable insertion sort of [v, k] pairs: a new pair goes after every pair
\* whose key is not greater
RECURSIVE InsertSorted(_, _)
InsertSorted(s, x) == IF Len(s) = 0 THEN <<x>>
                      ELSE IF KeyLess(x.k, Last(s).k) THEN Append(InsertSorted(Front(s), x), Last(s))
                      ELSE Append(s, x)
RECURSIVE SortPairs(_)
SortPairs(ps) == IF Len(ps) = 0 THEN <<>> ELSE InsertSorted(SortPairs(Front(ps)), Last(ps))
InsSortByKeys(vals, keys) == LET ps == SortPairs([i \in 1..Len(vals) |-> [v |-> vals[i], k |-> keys[i]]])
                             IN [i \in 1..Len(ps) |-> ps[i].v]
\* The same stable sort defined by RANK (no recursion, so it also handles the
\* arrays of hundreds of elements that occur in recorded traces): element i
\* goes to position 1 + #{ j : key j < key i, or key j = key i and j < i }.
\* GenSort checks that both definitions agree.
SortByKeys(vals, keys) ==
  LET n == Len(vals)
      rank == [i \in 1..n |-> 1 + Cardinality({ j \in 1..n : KeyLess(keys[j], keys[i]) \/ (j < i /\ KeyEq(keys[j], keys[i])) })]
      at == [r \in 1..n |-> CHOOSE i \in 1..n : rank[i] = r]
  IN [r \in 1..n |-> vals[at[r]]]
HasTies(keys) == \E i, j \in 1..Len(keys) : i < j /\ KeyEq(keys[i], keys[j])

\* extremal element by key; when several DISTINCT elements share the
\* extremal key any of them is admissible -> Open
ExtremeBy(vals, keys, wantMax) ==
  LET best == { i \in 1..Len(keys) : \A j \in 1..Len(keys) :
                  IF wantMax THEN ~KeyLess(keys[i], keys[j]) ELSE ~KeyLess(keys[j], keys[i]) }
      pick == CHOOSE i \in best : TRUE
  IN IF \A i \in best : Strip(vals[i]) = Strip(vals[pick]) THEN vals[pick] ELSE Open

\* ---- numbers -------------------------------------------------------------
RECURSIVE SumFrom(_, _)
SumFrom(a, i) == IF i > Len(a) THEN JInt(0) ELSE AddNum(a[i], SumFrom(a, i + 1))

IsLenientNumText(s) == Len(s) > 0 /\ (\E i \in 1..Len(s) : IsD(s[i]))
                       /\ \A i \in 1..Len(s) : IsD(s[i]) \/ s[i] \in {43, 45, 46, 101, 69}
ToNumber(v) ==
  IF v.t = "num" THEN v
  ELSE IF v.t # "str" THEN Null
  ELSE LET r == JNumber(v.s, 1) IN
       IF r.ok /\ r.i = Len(v.s) + 1 THEN (IF r.big THEN Open ELSE r.v)
       ELSE IF IsLenientNumText(v.s) THEN Open            \* +1, .5, 5., 01 ...: open
       ELSE Null

\* to_string: JSON text.  Pinned only where every reasonable encoder agrees:
\* small integers, and strings made of printable ASCII without characters
\* some encoders escape; objects with two or more members have no fixed order.
PlainChar(c) == c >= 32 /\ c <= 126 /\ c \notin {34, 92, 60, 62, 38}
RECURSIVE ToStringPinned(_)
ToStringPinned(v) ==
  CASE v.t \in {"null", "bool"} -> TRUE
    [] v.t = "num" -> v.e >= 0 /\ SmallInt(v)
    [] v.t = "str" -> \A i \in 1..Len(v.s) : PlainChar(v.s[i])
    [] v.t = "arr" -> (~v.u \/ Len(v.a) < 2) /\ \A i \in 1..Len(v.a) : ToStringPinned(v.a[i])
    [] v.t = "obj" -> Len(v.o) < 2 /\ \A i \in 1..Len(v.o) :
                         ToStringPinned(v.o[i].v) /\ ToStringPinned(Str(v.o[i].k))
RECURSIVE PlainJSON(_)
RECURSIVE PlainElems(_, _)
PlainElems(a, i) == IF i > Len(a) THEN <<>>
                    ELSE (IF i > 1 THEN <<44>> ELSE <<>>) \o PlainJSON(a[i]) \o PlainElems(a, i + 1)
PlainJSON(v) ==
  CASE v.t = "null" -> <<110,117,108,108>>
    [] v.t = "bool" -> IF v.b THEN <<116,114,117,101>> ELSE <<102,97,108,115,101>>
    [] v.t = "num"  -> (IF v.n < 0 THEN <<45>> ELSE <<>>) \o IntDigits(AbsI(IntOf(v)))
    [] v.t = "str"  -> <<34>> \o v.s \o <<34>>
    [] v.t = "arr"  -> <<91>> \o PlainElems(v.a, 1) \o <<93>>
    [] v.t = "obj"  -> <<123>> \o (IF Len(v.o) = 0 THEN <<>>
                                   ELSE <<34>> \o v.o[1].k \o <<34, 58>> \o PlainJSON(v.o[1].v)) \o <<125>>

\* ---- objects / arrays ----------------------------------------------------
RECURSIVE MergeFrom(_, _)
MergeFrom(vs, i) == IF i > Len(vs) THEN <<>> ELSE vs[i].o \o MergeFrom(vs, i + 1)

MinLen(vs) == CHOOSE m \in {Len(vs[i].a) : i \in 1..Len(vs)} : \A i \in 1..Len(vs) : m <= Len(vs[i].a)

\* group_by: keys are strings; groups keep input order
GroupBy(vals, keys) ==
  LET ks == SeqRange(keys)
      grp(k) == LET sel == SelectSeq([i \in 1..Len(vals) |-> [v |-> vals[i], k |-> keys[i]]],
                                     LAMBDA p : p.k = k)
                IN Arr([i \in 1..Len(sel) |-> sel[i].v])
      \* order the distinct keys as a sequence (any order; Obj sorts)
      RECURSIVE SetToSeq(_)
      SetToSeq(S) == IF S = {} THEN <<>> ELSE LET x == CHOOSE x \in S : TRUE IN <<x>> \o SetToSeq(S \ {x})
      kseq == SetToSeq(ks)
  IN Obj([i \in 1..Len(kseq) |-> Mem(kseq[i].s, grp(kseq[i]))])

FromItemsOk(a) == \A i \in 1..Len(a) : a[i].t = "arr" /\ Len(a[i].a) = 2 /\ a[i].a[1].t = "str"

\* ---- dispatch ------------------------------------------------------------
Builtin(f, vs) ==
  CASE f = <<97,98,115>>   -> IF ~T(vs[1], {"num"}) THEN TErr ELSE AbsNum(vs[1])
    [] f = <<99,101,105,108>>  -> IF ~T(vs[1], {"num"}) THEN TErr ELSE CeilNum(vs[1])
    [] f = <<102,108,111,111,114>> -> IF ~T(vs[1], {"num"}) THEN TErr ELSE FloorNum(vs[1])
    [] f = <<97,118,103>>   -> IF ~T(vs[1], {"arr"}) \/ ~AllT(vs[1].a, "num") THEN TErr
                       ELSE IF Len(vs[1].a) = 0 THEN Null
                       ELSE DivNum(SumFrom(vs[1].a, 1), JInt(Len(vs[1].a)))
    [] f = <<115,117,109>>   -> IF ~T(vs[1], {"arr"}) \/ ~AllT(vs[1].a, "num") THEN TErr
                       ELSE SumFrom(vs[1].a, 1)
    [] f = <<99,111,110,116,97,105,110,115>> ->
         IF vs[1].t = "arr"
         THEN (IF HasU(vs[2]) \/ \E i \in 1..Len(vs[1].a) : HasU(vs[1].a[i]) THEN Open
               ELSE Bool(\E i \in 1..Len(vs[1].a) : JEq(vs[1].a[i], vs[2])))
         ELSE IF vs[1].t = "str"
         THEN (IF vs[2].t = "str" THEN Bool(IsSubstr(vs[1].s, vs[2].s)) ELSE Open)  \* non-string needle: open
         ELSE TErr
    [] f = <<115,116,97,114,116,115,95,119,105,116,104>> -> IF ~(T(vs[1], {"str"}) /\ T(vs[2], {"str"})) THEN TErr
                             ELSE Bool(StartsWith(vs[1].s, vs[2].s))
    [] f = <<101,110,100,115,95,119,105,116,104>>   -> IF ~(T(vs[1], {"str"}) /\ T(vs[2], {"str"})) THEN TErr
                             ELSE Bool(EndsWith(vs[1].s, vs[2].s))
    [] f = <<102,105,110,100,95,102,105,114,115,116>> -> Find(vs, TRUE)
    [] f = <<102,105,110,100,95,108,97,115,116>>  -> Find(vs, FALSE)
    [] f = <<102,114,111,109,95,105,116,101,109,115>> ->
         IF ~T(vs[1], {"arr"}) THEN TErr
         \* an element that is not an array is a type fault; a malformed pair
         \* (wrong length, key not a string) is a value fault (property C02)
         ELSE IF ~FromItemsOk(vs[1].a)
              THEN ErrS((IF \E i \in 1..Len(vs[1].a) : vs[1].a[i].t # "arr" THEN {"invalid-type"} ELSE {})
                        \cup (IF \E i \in 1..Len(vs[1].a) : vs[1].a[i].t = "arr" /\ (Len(vs[1].a[i].a) # 2 \/ vs[1].a[i].a[1].t # "str")
                              THEN {"invalid-value"} ELSE {}))
         ELSE IF vs[1].u /\ Len(vs[1].a) > 1 THEN Open
         ELSE IF \E i, j \in 1..Len(vs[1].a) : i < j /\ vs[1].a[i].a[1] = vs[1].a[j].a[1] THEN Open  \* duplicate keys: open
         ELSE Obj([i \in 1..Len(vs[1].a) |-> Mem(vs[1].a[i].a[1].s, vs[1].a[i].a[2])])
    [] f = <<105,116,101,109,115>> -> IF ~T(vs[1], {"obj"}) THEN TErr
                       ELSE ArrU([i \in 1..Len(vs[1].o) |-> Arr(<<Str(vs[1].o[i].k), vs[1].o[i].v>>)], Len(vs[1].o) > 1)
    [] f = <<107,101,121,115>>  -> IF ~T(vs[1], {"obj"}) THEN TErr
                       ELSE ArrU([i \in 1..Len(vs[1].o) |-> Str(vs[1].o[i].k)], Len(vs[1].o) > 1)
    [] f = <<118,97,108,117,101,115>> -> IF ~T(vs[1], {"obj"}) THEN TErr
                       ELSE ArrU(ObjVals(vs[1]), Len(vs[1].o) > 1)
    [] f = <<106,111,105,110>>  -> IF ~(T(vs[1], {"str"}) /\ T(vs[2], {"arr"})) \/ ~AllT(vs[2].a, "str") THEN TErr
                       ELSE IF vs[2].u /\ Len(vs[2].a) > 1 THEN Open
                       ELSE Str(JoinFrom(vs[1].s, vs[2].a, 1))
    [] f = <<108,101,110,103,116,104>> -> (CASE vs[1].t = "str" -> JInt(Len(vs[1].s))
                           [] vs[1].t = "arr" -> JInt(Len(vs[1].a))
                           [] vs[1].t = "obj" -> JInt(Len(vs[1].o))
                           [] OTHER -> TErr)
    [] f = <<108,111,119,101,114>> -> IF ~T(vs[1], {"str"}) THEN TErr
                       ELSE IF ~IsAscii(vs[1].s) THEN Open        \* case mapping beyond ASCII: open
                       ELSE Str([i \in 1..Len(vs[1].s) |-> LowerC(vs[1].s[i])])
    [] f = <<117,112,112,101,114>> -> IF ~T(vs[1], {"str"}) THEN TErr
                       ELSE IF ~IsAscii(vs[1].s) THEN Open
                       ELSE Str([i \in 1..Len(vs[1].s) |-> UpperC(vs[1].s[i])])
    [] f \in {<<109,97,120>>, <<109,105,110>>} ->
         IF ~T(vs[1], {"arr"}) \/ ~Sortable(vs[1].a) THEN TErr
         ELSE IF Len(vs[1].a) = 0 THEN Null
         ELSE ExtremeBy(vs[1].a, vs[1].a, f = <<109,97,120>>)
    [] f = <<109,101,114,103,101>> -> IF \E i \in 1..Len(vs) : vs[i].t # "obj" THEN TErr
                       ELSE Obj(MergeFrom(vs, 1))
    [] f = <<110,111,116,95,110,117,108,108>> -> LET nn == { i \in 1..Len(vs) : vs[i] # Null } IN
                          IF nn = {} THEN Null ELSE vs[CHOOSE i \in nn : \A j \in nn : i <= j]
    [] f = <<112,97,100,95,108,101,102,116>>  -> Pad(vs, TRUE)
    [] f = <<112,97,100,95,114,105,103,104,116>> -> Pad(vs, FALSE)
    [] f = <<114,101,112,108,97,99,101>> -> Replace(vs)
    [] f = <<114,101,118,101,114,115,101>> -> (CASE vs[1].t = "str" -> Str(Rev(vs[1].s))
                            [] vs[1].t = "arr" -> IF vs[1].u /\ Len(vs[1].a) > 1 THEN Open ELSE Arr(Rev(vs[1].a))
                            [] OTHER -> TErr)
    [] f = <<115,111,114,116>> -> IF ~T(vs[1], {"arr"}) \/ ~Sortable(vs[1].a) THEN TErr
                      ELSE Arr(SortByKeys(vs[1].a, vs[1].a))
    [] f = <<115,112,108,105,116>> -> Split(vs)
    [] f = <<116,111,95,97,114,114,97,121>> -> IF vs[1].t = "arr" THEN vs[1] ELSE Arr(<<vs[1]>>)
    [] f = <<116,111,95,110,117,109,98,101,114>> -> ToNumber(vs[1])
    [] f = <<116,111,95,115,116,114,105,110,103>> -> IF vs[1].t = "str" THEN vs[1]
                           ELSE IF ToStringPinned(vs[1]) THEN Str(PlainJSON(vs[1]))
                           ELSE Open
    [] f = <<116,114,105,109>>       -> Trim(vs, TRUE, TRUE)
    [] f = <<116,114,105,109,95,108,101,102,116>>  -> Trim(vs, TRUE, FALSE)
    [] f = <<116,114,105,109,95,114,105,103,104,116>> -> Trim(vs, FALSE, TRUE)
    [] f = <<116,121,112,101>> -> Str(TypeName(vs[1]))
    [] f = <<122,105,112>> -> IF \E i \in 1..Len(vs) : vs[i].t # "arr" THEN TErr
                     ELSE IF \E i \in 1..Len(vs) : vs[i].u /\ Len(vs[i].a) > 1 THEN Open
                     ELSE LET m == MinLen(vs) IN
                          Arr([j \in 1..m |-> Arr([i \in 1..Len(vs) |-> vs[i].a[j]])])
    [] OTHER -> Open

\* functions whose second argument is an expression reference; vals = the
\* array's elements, keys = the reference evaluated on each of them
BuiltinBy(f, arr, keys) ==
  LET vals == arr.a IN
  CASE f = <<115,111,114,116,95,98,121>> ->
         IF ~Sortable(keys) THEN TErr
         ELSE IF arr.u /\ Len(vals) > 1 /\ HasTies(keys) THEN Open   \* ties keep an unspecified order
         ELSE Arr(SortByKeys(vals, keys))
    [] f \in {<<109,97,120,95,98,121>>, <<109,105,110,95,98,121>>} ->
         IF ~Sortable(keys) THEN TErr
         ELSE IF Len(vals) = 0 THEN Null
         ELSE ExtremeBy(vals, keys, f = <<109,97,120,95,98,121>>)
    [] f = <<103,114,111,117,112,95,98,121>> ->
         IF Len(vals) = 0 THEN Open                                   \* {} or null: open
         ELSE IF \E i \in 1..Len(keys) : keys[i].t \notin {"str", "null"} THEN TErr
         ELSE IF \E i \in 1..Len(keys) : keys[i].t = "null" THEN Open  \* null keys: open
         ELSE IF arr.u /\ Len(vals) > 1 THEN Open
         ELSE GroupBy(vals, keys)
    [] OTHER -> Open
=============================================================================
