\* GENERATED from LexMachine.tla.in by bin/tlapp -- edit the .in file
--------------------------- MODULE LexMachine ---------------------------
(***************************************************************************)
(* The lexer of Lexer.tla as a state machine, one action per token class,  *)
(* so that TLC can check on every string of a bounded alphabet that it     *)
(* terminates in Lex(input) and that the position strictly increases       *)
(* (the progress measure behind property C09 for tokenisation).            *)
(***************************************************************************)
EXTENDS Lexer
VARIABLES input, pos, toks, failed
lexvars == <<input, pos, toks, failed>>

LexInit(S) == input \in S /\ pos = 1 /\ toks = <<>> /\ failed = FALSE

ScanSpace == /\ ~failed /\ pos <= Len(input) /\ IsWs(input[pos])
             /\ pos' = RunWs(input, pos) /\ UNCHANGED <<input, toks, failed>>
ScanOne   == /\ ~failed /\ pos <= Len(input) /\ ~IsWs(input[pos])
             /\ LET r == ScanToken(input, pos) IN
                  /\ r.ok
                  /\ pos' = r.j
                  /\ toks' = Append(toks, Tok(r.k, SubSeq(input, pos, r.j - 1),
                                              pos > 1 /\ IsWs(input[pos - 1])))
             /\ UNCHANGED <<input, failed>>
LexError  == /\ ~failed /\ pos <= Len(input) /\ ~IsWs(input[pos])
             /\ ~ScanToken(input, pos).ok
             /\ failed' = TRUE /\ pos' = Len(input) + 1 /\ UNCHANGED <<input, toks>>
LexNext   == ScanSpace \/ ScanOne \/ LexError

LexDone   == pos > Len(input)
\* when the machine stops it has computed Lex(input)
LexAgrees == LexDone => LET r == Lex(input) IN
                          IF failed THEN ~r.ok ELSE r.ok /\ r.ts = toks
LexProgress == [][pos' > pos]_lexvars

\* all strings of length <= 4 over an alphabet that contains every kind of
\* token start, the three delimiters, a backslash, a blank and an invalid byte
Alphabet == {97, 48, 46, 91, 93, 63, 42, 34, 39, 96, 92, 32, 36, 45, 38, 124, 0 - 1, 233}
RECURSIVE Strings(_)
Strings(n) == IF n = 0 THEN {<<>>} ELSE LET S == Strings(n - 1) IN S \cup { Append(q, c) : q \in {x \in S : Len(x) = n - 1}, c \in Alphabet }
LexSpec == LexInit(Strings(4)) /\ [][LexNext]_lexvars
=============================================================================
