SPECIFICATION Spec
CONSTANTS
  Emit = FALSE
  Prop = "C04"
  From = 0
  To = 1100
INVARIANTS
  Check
CHECK_DEADLOCK FALSE
