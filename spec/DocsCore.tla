\* GENERATED from Core.json by lib/tlagen.py
---- MODULE DocsCore ----
EXTENDS JValue
PoolCore == <<
  \* {"x": [["1", null], ["2"], null, "3"], "a": "1", "b": ["1", "2"]}
  Obj(<<Mem(<<97>>, JInt(1)), Mem(<<98>>, Arr(<<JInt(1), JInt(2)>>)), Mem(<<120>>, Arr(<<Arr(<<JInt(1), Null>>), Arr(<<JInt(2)>>), Null, JInt(3)>>))>>),
  \* {"x": [{"a": "1", "b": {"a": "2"}}, {"a": null}, {"b": ["1", "2"]}, "5"], "a": ["1"], "b": null}
  Obj(<<Mem(<<97>>, Arr(<<JInt(1)>>)), Mem(<<98>>, Null), Mem(<<120>>, Arr(<<Obj(<<Mem(<<97>>, JInt(1)), Mem(<<98>>, Obj(<<Mem(<<97>>, JInt(2))>>))>>), Obj(<<Mem(<<97>>, Null)>>), Obj(<<Mem(<<98>>, Arr(<<JInt(1), JInt(2)>>))>>), JInt(5)>>))>>),
  \* {"x": {"a": [{"a": "1"}, {"a": "2", "b": "3"}], "b": {"a": {"b": "1"}}, "k": null}, "a": {"a": "1"}, "b": "0"}
  Obj(<<Mem(<<97>>, Obj(<<Mem(<<97>>, JInt(1))>>)), Mem(<<98>>, JInt(0)), Mem(<<120>>, Obj(<<Mem(<<97>>, Arr(<<Obj(<<Mem(<<97>>, JInt(1))>>), Obj(<<Mem(<<97>>, JInt(2)), Mem(<<98>>, JInt(3))>>)>>)), Mem(<<98>>, Obj(<<Mem(<<97>>, Obj(<<Mem(<<98>>, JInt(1))>>))>>)), Mem(<<107>>, Null)>>))>>),
  \* {"x": [[{"a": "1"}], [{"a": "2"}]], "a": "a", "b": true}
  Obj(<<Mem(<<97>>, Str(<<97>>)), Mem(<<98>>, JTrue), Mem(<<120>>, Arr(<<Arr(<<Obj(<<Mem(<<97>>, JInt(1))>>)>>), Arr(<<Obj(<<Mem(<<97>>, JInt(2))>>)>>)>>))>>),
  \* {"x": {"a": {"a": "1", "b": "2"}, "b": {"a": "3"}}, "a": null, "b": false}
  Obj(<<Mem(<<97>>, Null), Mem(<<98>>, JFalse), Mem(<<120>>, Obj(<<Mem(<<97>>, Obj(<<Mem(<<97>>, JInt(1)), Mem(<<98>>, JInt(2))>>)), Mem(<<98>>, Obj(<<Mem(<<97>>, JInt(3))>>))>>))>>),
  \* {"x": [[["1", "2"], ["3"]], [["4"]], []], "a": [], "b": {}}
  Obj(<<Mem(<<97>>, Arr(<<>>)), Mem(<<98>>, Obj(<<>>)), Mem(<<120>>, Arr(<<Arr(<<Arr(<<JInt(1), JInt(2)>>), Arr(<<JInt(3)>>)>>), Arr(<<Arr(<<JInt(4)>>)>>), Arr(<<>>)>>))>>),
  \* {"x": [{"a": [{"b": "1"}, {"b": "0"}], "b": {"k": {"a": "1"}}}, {"a": []}], "a": "1", "b": "1"}
  Obj(<<Mem(<<97>>, JInt(1)), Mem(<<98>>, JInt(1)), Mem(<<120>>, Arr(<<Obj(<<Mem(<<97>>, Arr(<<Obj(<<Mem(<<98>>, JInt(1))>>), Obj(<<Mem(<<98>>, JInt(0))>>)>>)), Mem(<<98>>, Obj(<<Mem(<<107>>, Obj(<<Mem(<<97>>, JInt(1))>>))>>))>>), Obj(<<Mem(<<97>>, Arr(<<>>))>>)>>))>>),
  \* {"x": [true, false, null, "0", "", [], {}, "a", [null]], "a": "0", "b": ""}
  Obj(<<Mem(<<97>>, JInt(0)), Mem(<<98>>, Str(<<>>)), Mem(<<120>>, Arr(<<JTrue, JFalse, Null, JInt(0), Str(<<>>), Arr(<<>>), Obj(<<>>), Str(<<97>>), Arr(<<Null>>)>>))>>),
  \* {"x": "str", "a": "1", "b": "2"}
  Obj(<<Mem(<<97>>, JInt(1)), Mem(<<98>>, JInt(2)), Mem(<<120>>, Str(<<115, 116, 114>>))>>),
  \* {"x": null}
  Obj(<<Mem(<<120>>, Null)>>),
  \* {"x": {"a": ["1", null, ["2", null]], "b": null, "k": {"a": null}}, "a": "1", "b": "1"}
  Obj(<<Mem(<<97>>, JInt(1)), Mem(<<98>>, JInt(1)), Mem(<<120>>, Obj(<<Mem(<<97>>, Arr(<<JInt(1), Null, Arr(<<JInt(2), Null>>)>>)), Mem(<<98>>, Null), Mem(<<107>>, Obj(<<Mem(<<97>>, Null)>>))>>))>>),
  \* [["1", null], ["2"], null, "3"]
  Arr(<<Arr(<<JInt(1), Null>>), Arr(<<JInt(2)>>), Null, JInt(3)>>),
  \* [{"a": "1", "b": {"a": "2"}}, {"a": null}, {"b": ["1", "2"]}, "5"]
  Arr(<<Obj(<<Mem(<<97>>, JInt(1)), Mem(<<98>>, Obj(<<Mem(<<97>>, JInt(2))>>))>>), Obj(<<Mem(<<97>>, Null)>>), Obj(<<Mem(<<98>>, Arr(<<JInt(1), JInt(2)>>))>>), JInt(5)>>),
  \* {"a": [{"a": "1"}, {"a": "2", "b": "3"}], "b": {"a": {"b": "1"}}, "k": null}
  Obj(<<Mem(<<97>>, Arr(<<Obj(<<Mem(<<97>>, JInt(1))>>), Obj(<<Mem(<<97>>, JInt(2)), Mem(<<98>>, JInt(3))>>)>>)), Mem(<<98>>, Obj(<<Mem(<<97>>, Obj(<<Mem(<<98>>, JInt(1))>>))>>)), Mem(<<107>>, Null)>>),
  \* [[{"a": "1"}], [{"a": "2"}]]
  Arr(<<Arr(<<Obj(<<Mem(<<97>>, JInt(1))>>)>>), Arr(<<Obj(<<Mem(<<97>>, JInt(2))>>)>>)>>)
>>
====
