SPECIFICATION Spec
CONSTANTS
  Emit = FALSE
  Prop = "C13"
  Lengths = {0, 1, 2, 3, 11, 12, 13, 20}
  Seeds = {1}
INVARIANTS
  Check
CHECK_DEADLOCK FALSE
