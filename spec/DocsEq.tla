\* GENERATED from Eq.json by lib/tlagen.py
---- MODULE DocsEq ----
EXTENDS JValue
PoolEq == <<
  \* null
  Null,
  \* true
  JTrue,
  \* false
  JFalse,
  \* "0"
  JInt(0),
  \* "1"
  JInt(1),
  \* "-1"
  JInt(-1),
  \* "1.5"
  Num(15, -1),
  \* "100"
  Num(1, 2),
  \* ""
  Str(<<>>),
  \* "a"
  Str(<<97>>),
  \* "1"
  Str(<<49>>),
  \* "true"
  Str(<<116, 114, 117, 101>>),
  \* "null"
  Str(<<110, 117, 108, 108>>),
  \* []
  Arr(<<>>),
  \* ["0"]
  Arr(<<JInt(0)>>),
  \* ["1"]
  Arr(<<JInt(1)>>),
  \* ["1", "2"]
  Arr(<<JInt(1), JInt(2)>>),
  \* ["2", "1"]
  Arr(<<JInt(2), JInt(1)>>),
  \* [[]]
  Arr(<<Arr(<<>>)>>),
  \* [null]
  Arr(<<Null>>),
  \* ["1", ["2", {"a": "1"}]]
  Arr(<<JInt(1), Arr(<<JInt(2), Obj(<<Mem(<<97>>, JInt(1))>>)>>)>>),
  \* {}
  Obj(<<>>),
  \* {"a": "1"}
  Obj(<<Mem(<<97>>, JInt(1))>>),
  \* {"a": "1", "b": "2"}
  Obj(<<Mem(<<97>>, JInt(1)), Mem(<<98>>, JInt(2))>>),
  \* {"a": "2", "b": "1"}
  Obj(<<Mem(<<97>>, JInt(2)), Mem(<<98>>, JInt(1))>>),
  \* {"a": null}
  Obj(<<Mem(<<97>>, Null)>>),
  \* {"a": []}
  Obj(<<Mem(<<97>>, Arr(<<>>))>>),
  \* {"b": "1"}
  Obj(<<Mem(<<98>>, JInt(1))>>),
  \* {"a": {"b": ["1", "2"]}}
  Obj(<<Mem(<<97>>, Obj(<<Mem(<<98>>, Arr(<<JInt(1), JInt(2)>>))>>))>>),
  \* {"a": {"b": ["2", "1"]}}
  Obj(<<Mem(<<97>>, Obj(<<Mem(<<98>>, Arr(<<JInt(2), JInt(1)>>))>>))>>)
>>
====
