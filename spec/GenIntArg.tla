\* GENERATED from GenIntArg.tla.in by bin/tlapp -- edit the .in file
----------------------------- MODULE GenIntArg -----------------------------
(***************************************************************************)
(* Integer arguments written in every numeric spelling (properties C02,    *)
(* C14).  A count, width or offset is "an integer" by VALUE: 3e0, 30e-1    *)
(* and 3.000 are 3; 3.0000000000000001 and 1e-400 are not integers at all, *)
(* although they round to one in binary floating point.  Integrality and   *)
(* the value are decided by Decimal.tla on the digit sequence; the         *)
(* expected outcome of f(..., N, ...) is then                              *)
(*    invalid-value                       if N is not integral             *)
(*    the outcome of f(..., v, ...)       if N has the small integer value *)
(*                                        v (computed by the language      *)
(*                                        layer on the canonical literal)  *)
(***************************************************************************)
EXTENDS JMES, Decimal, Json, Toks, SequencesExt
CONSTANTS Emit, Prop

\* numeral texts (JSON numbers)
Numerals == << <<51>>, <<51,101,48>>, <<51,48,101,45,49>>, <<48,46,51,101,49>>, <<51,46,48,48,48>>, <<51,48,48,48,48,48,48,48,48,48,48,48,48,48,48,48,48,48,48,48,48,101,45,50,48>>, <<51,46,48,48,48,48,48,48,48,48,48,48,48,48,48,48,48,48,48,48,48,48,48,48,48,48,48,48,48,48,48,48,48,48,48,48>>,
               <<51,46,48,48,48,48,48,48,48,48,48,48,48,48,48,48,48,49>>, <<50,46,57,57,57,57,57,57,57,57,57,57,57,57,57,57,57,57>>, <<51,46,48,48,48,48,48,48,48,48,48,48,48,48,48,48,48,48,48,48,48,48,48,48,48,48,48,48,48,48,48,48,48,48,49>>, <<49,101,45,52,48,48>>, <<48,46,48,48,48,48,48,48,48,48,48,48,48,48,48,48,48,48,48,48,48,48,48,48,48,48,48,48,48,48,48,48,48,48,48,48,48,48,49>>,
               <<48,101,57,57>>, <<48,46,48>>, <<45,48>>, <<45,48,46,48,101,53>>, <<50>>, <<50,46,48>>, <<50,48,101,45,49>>, <<49,46,57,57,57,57,57,57,57,57,57,57,57,57,57,57,57,57,57,57,57>>, <<50,46,53>>, <<50,53,101,45,49>>, <<45,49>>, <<45,49,46,48>>, <<45,49,101,48>>,
               <<45,48,46,48,48,48,48,48,48,48,48,48,48,48,48,48,48,48,48,48,48,49>>, <<49,101,48>>, <<49,48,101,45,49>>, <<48,46,49,101,49>>, <<54,101,48>>, <<48,46,54,101,49>>, <<53,46,57,57,57,57,57,57,57,57,57,57,57,57,57,57,57,57,57,57,57,57,57,57>>,
               \* exponents far outside every numeric range: zero stays zero, anything else is out of range
               <<48,101,57,57,57,57,57,57,57,57,57,57,57,57,57,57,57,57,57,57>>, <<48,101,45,57,57,57,57,57,57,57,57,57,57,57,57,57,57,57,57,57,57>>, <<48,46,48,48,48,101,43,57,57,57,57,57,57,57,57,57,57,57>>, <<49,101,57,57,57,57,57,57,57,57,57,57,57,57,57,57,57,57,57,57>>, <<51,101,45,57,57,57,57,57,57,57,57,57,57,57,57,57,57,57,57,57,57>>,
               <<48,101,54,49,52,52>>, <<48,101,45,54,49,55,54>>, <<50,101,48,48,48,48,48,48,48,48,48,48,48,48,48,48,48,48,48,48,48,48,48,48>>, <<50,48,101,45,48,48,48,48,48,48,48,48,48,48,48,48,48,48,48,48,48,48,48,48,48,49>> >>

\* digits of a JSON numeral -> Decimal (the numeral grammar is JSON's)
DigitsOf(s) == SelectSeq(s, LAMBDA c : c >= 48 /\ c <= 57)
ParseDec(s) ==
  LET neg  == s[1] = 45
      ePos == IF \E i \in 1..Len(s) : s[i] \in {101, 69} THEN CHOOSE i \in 1..Len(s) : s[i] \in {101, 69} ELSE Len(s) + 1
      mant == SubSeq(s, IF neg THEN 2 ELSE 1, ePos - 1)
      dot  == IF \E i \in 1..Len(mant) : mant[i] = 46 THEN CHOOSE i \in 1..Len(mant) : mant[i] = 46 ELSE 0
      frac == IF dot = 0 THEN 0 ELSE Len(mant) - dot
      ds   == [i \in 1..Len(DigitsOf(mant)) |-> DigitsOf(mant)[i] - 48]
      expS == SubSeq(s, ePos + 1, Len(s))
      eNeg == Len(expS) > 0 /\ expS[1] = 45
      eDs  == DigitsOf(expS)
      RECURSIVE V(_)
      V(q) == IF q = <<>> THEN 0 ELSE V(SubSeq(q, 1, Len(q) - 1)) * 10 + (q[Len(q)] - 48)
      \* exponent digits without leading zeros; more than 6 of them are beyond every range
      ez   == SelectSeq(eDs, LAMBDA c : TRUE)
      RECURSIVE Lead(_)
      Lead(q) == IF Len(q) > 0 /\ q[1] = 48 THEN Lead(Tail(q)) ELSE q
      eSig == Lead(eDs)
      huge == Len(eSig) > 6
      ex   == IF huge THEN 0 ELSE IF eNeg THEN 0 - V(eSig) ELSE V(eSig)
      d0   == Norm(neg, ds, ex - frac)
  IN IF ~huge \/ IsZero(d0) THEN (IF huge THEN DZero ELSE d0)
     ELSE Dec(neg, <<9, 9>>, 7777)        \* marker: a non-zero number outside every numeric range (see OutOfRange)
Integral(d) == IsZero(d) \/ d.e >= 0
OutOfRange(d) == d.ds = <<9, 9>> /\ d.e = 7777      \* not pinned: beyond the decimal range the property speaks about
RECURSIVE NatOf(_)
NatOf(ds) == IF ds = <<>> THEN 0 ELSE NatOf(SubSeq(ds, 1, Len(ds) - 1)) * 10 + ds[Len(ds)]
SmallVal(d) == IF IsZero(d) THEN 0 ELSE (IF d.neg THEN 0 - 1 ELSE 1) * NatOf(d.ds \o Zeros(d.e))     \* integral, few digits
RECURSIVE NatCps2(_)
NatCps2(n) == IF n < 10 THEN <<48 + n>> ELSE NatCps2(n \div 10) \o <<48 + (n % 10)>>
Canon(v) == (IF v < 0 THEN <<45>> ELSE <<>>) \o NatCps2(IF v < 0 THEN 0 - v ELSE v)

S == Raw(<<39,97,98,99,97,98,99,39>>)
Fn(name, args) == <<Id(name), LP>> \o args \o <<RP>>
NLit(cp) == Json(<<96>> \o cp \o <<96>>)
\* templates with a hole for the integer argument
Templates(n) == <<
  Fn(<<112,97,100,95,108,101,102,116>>, <<S, Comma, n>>), Fn(<<112,97,100,95,114,105,103,104,116>>, <<S, Comma, n, Comma, Raw(<<39,45,39>>)>>),
  Fn(<<102,105,110,100,95,102,105,114,115,116>>, <<S, Comma, Raw(<<39,98,39>>), Comma, n>>), Fn(<<102,105,110,100,95,108,97,115,116>>, <<S, Comma, Raw(<<39,98,39>>), Comma, NLit(<<48>>), Comma, n>>),
  Fn(<<102,105,110,100,95,102,105,114,115,116>>, <<S, Comma, Raw(<<39,99,39>>), Comma, n, Comma, NLit(<<54>>)>>),
  Fn(<<115,112,108,105,116>>, <<S, Comma, Raw(<<39,98,39>>), Comma, n>>), Fn(<<115,112,108,105,116>>, <<S, Comma, Raw(<<39,39>>), Comma, n>>),
  Fn(<<114,101,112,108,97,99,101>>, <<S, Comma, Raw(<<39,97,39>>), Comma, Raw(<<39,122,39>>), Comma, n>>) >>

VARIABLES bucket, idx
Init == bucket \in 1..Len(Numerals) /\ idx = 0
Next == idx = 0 /\ idx' = 1 /\ UNCHANGED bucket
Spec == Init /\ [][Next]_<<bucket, idx>>
Doc == Obj(<<Mem(<<110>>, JInt(0))>>)

Check == idx > 0 =>
  LET txt == Numerals[bucket]
      d   == ParseDec(txt)
      big == Templates(NLit(txt))
      can == IF Integral(d) /\ ~OutOfRange(d) THEN Templates(NLit(Canon(SmallVal(d)))) ELSE big
      adm(i) == IF OutOfRange(d) THEN {Open}
                ELSE IF ~Integral(d) THEN {Err("invalid-value")} ELSE Admissible(can[i], Doc)
      cases == { [expr |-> Render(big[i]), adm |-> adm(i)] : i \in 1..Len(big) }
      case == [p |-> Prop, kind |-> "search", doc |-> Doc, multi |-> cases]
      \* the same argument as a DOCUMENT number at and around the 64-bit limits, in every Go carrier that
      \* holds it exactly: the value is beyond the small-number model (Open) but "integer-argument coercion
      \* treats all of them alike" (C14) -- the harness requires one outcome across the carrier sets
      Limits == <<"9223372036854775808", "-9223372036854775808", "9223372036854775807", "4611686018427387904", "18446744073709551615",
                  "18446744073709551616", "-9223372036854775809", "9007199254740992", "1267650600228229401496703205376">>
      byDoc(w) == [p |-> Prop, kind |-> "search", doc |-> [t |-> "obj", o |-> <<[k |-> <<110>>, v |-> [t |-> "num", big |-> w]]>>],
                   carriersets |-> << <<"json">>, <<"float64">>, <<"float32">>, <<"uint64">>, <<"int64">>, <<"decimal">>, <<"jsonexp">>, <<"uint">>, <<"int">> >>,
                   \* (not the pad widths: a pad of 2^62 characters is a result of that size)
                   multi |-> { [expr |-> Render(Templates(Id(<<110>>))[i]), adm |-> {Open}] : i \in 3..Len(big) }]
  IN /\ Emit => PrintT("CASE " \o ToJson(case))
     /\ (Emit /\ bucket <= Len(Limits)) => PrintT("CASE " \o ToJson(byDoc(Limits[bucket])))
     \* sanity of the numeral parser on spellings of 3
     /\ Named(ParseDec(<<51,48,101,45,49>>) = ParseDec(<<51>>) /\ ParseDec(<<48,46,51,101,49>>) = ParseDec(<<51,46,48,48,48>>) /\ ~Integral(ParseDec(<<51,46,48,48,48,48,48,48,48,48,48,48,48,48,48,48,48,49>>)), "ParseDec")
=============================================================================
