SPECIFICATION HSpec
CONSTANTS
  Emit = FALSE
  Prop = "C03"
  Big = FALSE
  KindsA = {"json"}
  KindsB = {"json"}
INVARIANTS
  HCheck
CHECK_DEADLOCK FALSE
