------------------------- MODULE DecimalLawsBig -------------------------
(* algebraic laws on 34-digit operands; one state per ordered pair,      *)
(* enumerated in parallel from one initial state per bucket             *)
EXTENDS Decimal, DecimalLawsOps, SequencesExt
VARIABLES bucket, pair
Nines(n) == [i \in 1..n |-> 9]
Threes(n) == [i \in 1..n |-> 3]
Seq1to(n) == [i \in 1..n |-> (i % 9) + 1]
LawPool == { Dec(s, d, e) : s \in BOOLEAN,
             d \in { <<7>>, Nines(34), Threes(34), Seq1to(34), Seq1to(17), <<1, 2, 5>>,
                     <<9, 2, 2, 3, 3, 7, 2, 0, 3, 6, 8, 5, 4, 7, 7, 5, 8, 0, 7>> },
             e \in {0 - 20, 0, 3} } \cup {DZero}
PoolSeq == SetToSeq(LawPool)
N == Len(PoolSeq)
Init == bucket \in 1..N /\ pair = <<>>
Next == pair = <<>> /\ \E j \in 1..N : pair' = <<PoolSeq[bucket], PoolSeq[j]>> /\ UNCHANGED bucket
Spec == Init /\ [][Next]_<<bucket, pair>>
BigLaws == pair # <<>> => BigLawsFor(pair[1], pair[2])
=============================================================================
