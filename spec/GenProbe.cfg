SPECIFICATION Spec
CONSTANTS
  Emit = FALSE
  Prop = "C05"
INVARIANTS
  Check
CHECK_DEADLOCK FALSE
