\* GENERATED from GenSurface.tla.in by bin/tlapp -- edit the .in file
--------------------------- MODULE GenSurface ---------------------------
(***************************************************************************)
(* Generator machine for the core language (properties C01, C17, C08,      *)
(* C03): the state is the token sequence of a complete expression; every   *)
(* step applies one production to the SURFACE TEXT (append a selector, a   *)
(* pipe, an operator and an atom; wrap in parentheses; prefix "!").        *)
(* Because productions are suffixes on the text, chains such as x[*][*],   *)
(* *[*], x[][*], x[*].a[0].b | c, (x[*].a)[0] arise by construction and    *)
(* the grammar -- not the generator -- decides where a projection's right- *)
(* hand side ends.  BFS to depth k is exhaustive small-scope enumeration;  *)
(* -simulate is a random walk through the same space.                      *)
(*                                                                         *)
(* Every distinct state is emitted as one case line carrying, for each     *)
(* document of the pool, the admissible outcomes computed by Eval; the Go  *)
(* harness replays them into the real library.  The invariants below are   *)
(* the model-level statements of the property.                             *)
(***************************************************************************)
EXTENDS JMES, Json, DocsCore, DocsDet, Toks


CONSTANTS MaxDepth,      \* number of productions applied
          Emit,          \* TRUE: print case lines
          Prop,          \* property id written into the cases
          Docs, PoolName \* document pool

VARIABLES ts, depth
vars == <<ts, depth>>

Atoms == { <<Id(<<120>>)>>, <<CurT>>, <<Star>>, <<LB, Star, RB>>, <<Flat>>, <<Id(<<97>>)>>,
           <<LB, IntT(<<48>>), RB>>, <<Filt, Id(<<97>>), RB>>, <<Json(<<96,91,91,49,44,110,117,108,108,93,44,91,50,93,93,96>>)>> }

Suffixes == {
  <<Dot, Id(<<97>>)>>, <<Dot, Id(<<98>>)>>, <<Dot, Tk("qid", <<34,107,34>>)>>,
  <<LB, IntT(<<48>>), RB>>, <<LB, IntT(<<45,49>>), RB>>, <<LB, IntT(<<49>>), RB>>,
  <<LB, IntT(<<49>>), Colon, RB>>, <<LB, Colon, IntT(<<49>>), RB>>,
  <<LB, Colon, Colon, IntT(<<45,49>>), RB>>, <<LB, Colon, Colon, IntT(<<50>>), RB>>,
  <<LB, Star, RB>>, <<Flat>>, <<Dot, Star>>,
  <<Filt, Id(<<97>>), RB>>, <<Filt, CurT, RB>>, <<Filt, Id(<<97>>), EqT, Json(<<96,49,96>>), RB>>,
  <<Filt, NotT, Id(<<97>>), RB>>,
  <<Dot, LB, Id(<<97>>), Comma, Id(<<98>>), RB>>, <<Dot, LB, Id(<<97>>), RB>>,
  <<Dot, LBr, Id(<<107>>), Colon, Id(<<97>>), RBr>>,
  <<Dot, LBr, Id(<<97>>), Colon, Id(<<98>>), Comma, Id(<<98>>), Colon, CurT, RBr>>,
  <<Dot, LB, Id(<<97>>), Flat, Comma, Id(<<98>>), LB, Star, RB, Comma, CurT, Flat, RB>>,   \* projections nested inside a multi-select
  <<Filt, Id(<<97>>), Flat, RB>>,
  <<PipeT, Id(<<97>>)>>, <<PipeT, LB, IntT(<<48>>), RB>>, <<PipeT, LB, Star, RB>>, <<PipeT, CurT>>,
  <<PipeT, Flat>>, <<PipeT, Star>>,
  <<OrT, Id(<<98>>)>>, <<AndT, Id(<<98>>)>>, <<EqT, Json(<<96,49,96>>)>>, <<NeT, Id(<<97>>)>>,
  <<LtT, Json(<<96,50,96>>)>>, <<EqT, RootT, Dot, Id(<<97>>)>> }

Init == ts \in Atoms /\ depth = 0
Extend == /\ depth < MaxDepth
          /\ \/ \E s \in Suffixes : ts' = ts \o s
             \/ ts' = <<LP>> \o ts \o <<RP>>
             \/ ts' = <<NotT>> \o ts
          /\ depth' = depth + 1
Next == Extend
Spec == Init /\ [][Next]_vars

\* ------------------------------------------------------------ emission
\* One operator evaluates everything once per state (LET definitions are
\* evaluated lazily and at most once), emits the case and checks the
\* model-level statements of the property:
\*   LexRoundTrip   the generator's tokens are what Lex reports for the text
\*   Closed         every outcome is a JSON value, a failure or Open
\*   NoNullFromProjection  no projection result contains null (C01)
\*   SelectorsNeverFail    selections on the wrong type are null, never an
\*                  error: a core expression without functions, arithmetic
\*                  and variables cannot fail at run time
Check ==
  LET comps == Compilations(ts)
      outs  == [d \in 1..Len(Docs) |-> [c \in comps |-> OutcomeOf(c, Docs[d])]]
      adms  == [d \in 1..Len(Docs) |-> {outs[d][c] : c \in comps}]
      case  == [p |-> Prop, kind |-> "search", expr |-> Render(ts), pool |-> PoolName,
                adms |-> adms, nread |-> Cardinality(comps)]
      lexed == Lex(Render(ts))
  IN /\ Emit => PrintT("CASE " \o ToJson(case))
     /\ Named(lexed.ok /\ lexed.ts = NormSp(ts), "LexRoundTrip")
     /\ Named(\A d \in 1..Len(Docs) : \A o \in adms[d] : IsVal(o) => IsJValue(o), "Closed")
     /\ Named(\A c \in comps : c.ok /\ ~c.open /\ c.n.k = "proj" =>
                 \A d \in 1..Len(Docs) :
                    LET o == outs[d][c] IN
                      (IsVal(o) /\ o.t = "arr") => \A i \in 1..Len(o.a) : o.a[i] # Null,
              "NoNullFromProjection")
     /\ Named(\A c \in comps : c.ok => \A d \in 1..Len(Docs) : ~IsErr(outs[d][c]),
              "SelectorsNeverFail")

\* parenthesising the whole text never changes the outcome (C10, C17);
\* checked in the model-only configuration (it doubles the work)
ParenNeutral ==
  LET p == <<LP>> \o ts \o <<RP>> IN
  \A d \in 1..Len(Docs) : Admissible(p, Docs[d]) = Admissible(ts, Docs[d])
=============================================================================
