\* GENERATED from GenEscape.tla.in by bin/tlapp -- edit the .in file
----------------------------- MODULE GenEscape -----------------------------
(***************************************************************************)
(* Escapes and raw characters inside literals (properties C04, C16, C08):  *)
(*  (a) \uXXXX with EVERY four-character body over an alphabet of hex      *)
(*      digits and near-misses (+ - blank g _ x), in a quoted identifier,  *)
(*      a JSON literal and a raw string;                                   *)
(*  (b) every control / separator character written RAW inside each kind   *)
(*      of literal, at the start, in the middle and at the end;            *)
(*  (c) every one-character escape \c in each kind of literal.             *)
(* The specification's lexer and literal decoders decide each text:        *)
(* a value, or a syntax error (for every document).                        *)
(***************************************************************************)
EXTENDS JMES, Json, Toks, SequencesExt
CONSTANTS Emit, Prop, Wide           \* Wide: the larger alphabet for (a)

H == IF Wide THEN <<48, 52, 49, 97, 70, 43, 45, 32, 103, 95, 120, 68, 56>> ELSE <<48, 52, 97, 70, 43, 45, 103, 68>>
NH == Len(H)
Doc == Obj(<<Mem(<<65>>, JInt(1))>>)
Kinds(body) == <<
  <<107,101,121,115,40,123,34>> \o body \o <<34,58,32,96,49,96,125,41,91,48,93>>,            \* quoted identifier
  <<96,34>> \o body \o <<34,96>>,                           \* JSON literal (a string)
  <<39>> \o body \o <<39>>,                               \* raw string
  <<96,123,34>> \o body \o <<34,58,32,49,125,96>>,                      \* member name inside a JSON literal
  <<34>> \o body \o <<34>> >>                           \* quoted identifier as a field
Raws == <<0, 1, 8, 9, 10, 11, 12, 13, 27, 31, 127, 128, 133, 160, 173, 8232, 8233, 65279, 65533, 65534, 1114111>>
EscChars == [i \in 1..95 |-> 31 + i] \o <<9, 10, 233, 8364>>       \* every printable ASCII character and a few others after a backslash

VARIABLES bucket, idx
NBK == NH * NH
Init == bucket \in 1..(NBK + 2) /\ idx = 0
Next == idx = 0 /\ idx' = 1 /\ UNCHANGED bucket
Spec == Init /\ [][Next]_<<bucket, idx>>

CaseOf(text) == [expr |-> text, adm |-> AdmissibleText(text, Doc)]
Check == idx > 0 =>
  LET texts ==
        IF bucket <= NBK
        THEN LET c1 == H[((bucket - 1) \div NH) + 1]  c2 == H[((bucket - 1) % NH) + 1] IN
             UNION { { Kinds(<<92, 117, c1, c2, H[i], H[j]>>)[k] : k \in 1..5 } \cup { Kinds(<<97, 92, 117, c1, c2, H[i], H[j], 98>>)[k] : k \in {1, 2} }
                     : i \in 1..NH, j \in 1..NH }
        ELSE IF bucket = NBK + 1
        THEN UNION { { Kinds(<<Raws[r], 97, 98>>)[k], Kinds(<<97, Raws[r], 98>>)[k], Kinds(<<97, 98, Raws[r]>>)[k], Kinds(<<Raws[r]>>)[k] } : k \in 1..5, r \in 1..Len(Raws) }
        ELSE UNION { { Kinds(<<92, EscChars[r]>>)[k], Kinds(<<97, 92, EscChars[r], 98>>)[k] } : k \in 1..5, r \in 1..Len(EscChars) }
      case == [p |-> Prop, kind |-> "search", doc |-> Doc, multi |-> { CaseOf(t) : t \in texts }]
  IN /\ Emit => PrintT("CASE " \o ToJson(case))
     \* a four-hex-digit body is accepted in quoted identifiers and JSON strings, anything else is not (checked on the model for this bucket)
     /\ Named(bucket > NBK \/ LET c1 == H[((bucket - 1) \div NH) + 1]  c2 == H[((bucket - 1) % NH) + 1]
                                  hex(c) == (c >= 48 /\ c <= 57) \/ (c >= 97 /\ c <= 102) \/ (c >= 65 /\ c <= 70)
                              IN \A i \in 1..NH, j \in 1..NH : \A k \in {1, 2} :
                                   LET a == AdmissibleText(Kinds(<<92, 117, c1, c2, H[i], H[j]>>)[k], Doc)
                                   IN (hex(c1) /\ hex(c2) /\ hex(H[i]) /\ hex(H[j])) <=> (\E o \in a : ~IsErr(o)), "FourHexDigitsExactly")
=============================================================================
