\* GENERATED from Call.json by lib/tlagen.py
---- MODULE DocsCall ----
EXTENDS JValue
PoolCall == <<
  \* null
  Null,
  \* true
  JTrue,
  \* "0"
  JInt(0),
  \* "1"
  JInt(1),
  \* "-1"
  JInt(-1),
  \* "2"
  JInt(2),
  \* "1.5"
  Num(15, -1),
  \* ""
  Str(<<>>),
  \* "a"
  Str(<<97>>),
  \* "ab"
  Str(<<97, 98>>),
  \* "\u00e9\ud83d\ude00b"
  Str(<<233, 128512, 98>>),
  \* []
  Arr(<<>>),
  \* ["1", "2"]
  Arr(<<JInt(1), JInt(2)>>),
  \* ["b", "a"]
  Arr(<<Str(<<98>>), Str(<<97>>)>>),
  \* ["1", "a"]
  Arr(<<JInt(1), Str(<<97>>)>>),
  \* [["a", "1"], ["b", "2"]]
  Arr(<<Arr(<<Str(<<97>>), JInt(1)>>), Arr(<<Str(<<98>>), JInt(2)>>)>>),
  \* {}
  Obj(<<>>),
  \* {"a": "1", "b": ["2"]}
  Obj(<<Mem(<<97>>, JInt(1)), Mem(<<98>>, Arr(<<JInt(2)>>))>>),
  \* [true]
  Arr(<<JTrue>>),
  \* [null]
  Arr(<<Null>>),
  \* "\u00e9"
  Str(<<233>>),
  \* "NaN"
  Str(<<78, 97, 78>>),
  \* "Infinity"
  Str(<<73, 110, 102, 105, 110, 105, 116, 121>>)
>>
====
