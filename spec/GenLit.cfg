SPECIFICATION Spec
CONSTANTS
  Emit = FALSE
  Prop = "C16"
  MaxLen = 2
INVARIANTS
  Check
CHECK_DEADLOCK FALSE
