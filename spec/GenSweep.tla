\* GENERATED from GenSweep.tla.in by bin/tlapp -- edit the .in file
----------------------------- MODULE GenSweep -----------------------------
(***************************************************************************)
(* Token lengths (properties C04, C16, C11, C03): texts  head rep^n tail   *)
(* for EVERY n in a range (0..1100 quick, 0..9000 thorough), so that each  *)
(* token kind ends at every byte offset across the buffer sizes an         *)
(* implementation may read or copy in (512, 1024, 1536, 4096, ... 32768).  *)
(* The outcome is a function of n stated here and checked against the full *)
(* specification (lexer, literal decoders, grammar, Eval) for n = 0..4 by  *)
(* SweepLemma:                                                             *)
(*    count   the value is the number n + plus                             *)
(*    const   the same outcome for every n (a value or a syntax error)     *)
(* Ill-formed members (junk after a JSON literal, unterminated tokens) are *)
(* included: they must be rejected at every length.                        *)
(***************************************************************************)
EXTENDS JMES, Json, Toks, SequencesExt
CONSTANTS Emit, Prop, From, To

Doc == Obj(<<Mem(<<97>>, Obj(<<Mem(<<98>>, JInt(1))>>))>>)
Syn == {ErrS({"syntax"})}
Cf(f, head, rep, tail, plus) == [f |-> f, head |-> head, rep |-> rep, tail |-> tail, t |-> "count", plus |-> plus, mul |-> IF f \in {"rawmixed", "qidmixed"} THEN 2 ELSE 1, adm |-> {}]
Kf(f, head, rep, tail, adm)  == [f |-> f, head |-> head, rep |-> rep, tail |-> tail, t |-> "const", plus |-> 0, mul |-> 1, adm |-> adm]
Families == <<
  \* ---- well-formed tokens of every length
  Cf("raw1",     <<108,101,110,103,116,104,40,39>>, <<120>>, <<39,41>>, 0),
  Cf("raw2",     <<108,101,110,103,116,104,40,39>>, <<233>>, <<39,41>>, 0),
  Cf("raw3",     <<108,101,110,103,116,104,40,39>>, <<8364>>, <<39,41>>, 0),
  Cf("raw4",     <<108,101,110,103,116,104,40,39>>, <<128512>>, <<39,41>>, 0),
  Cf("raw1+2",   <<108,101,110,103,116,104,40,39,97>>, <<233>>, <<39,41>>, 1),
  Cf("raw2+4",   <<108,101,110,103,116,104,40,39,97,98>>, <<128512>>, <<39,41>>, 2),
  Cf("raw3+3",   <<108,101,110,103,116,104,40,39,97,98,99>>, <<8364>>, <<39,41>>, 3),
  Cf("rawesc",   <<108,101,110,103,116,104,40,39>>, <<92,39>>, <<39,41>>, 0),
  Cf("rawmixed", <<108,101,110,103,116,104,40,39>>, <<120,92,39>>, <<39,41>>, 0) ,
  Cf("json1",    <<108,101,110,103,116,104,40,96,34>>, <<120>>, <<34,96,41>>, 0),
  Cf("json3",    <<108,101,110,103,116,104,40,96,34>>, <<8364>>, <<34,96,41>>, 0),
  Cf("jsonu",    <<108,101,110,103,116,104,40,96,34>>, <<92,117,50,48,97,99>>, <<34,96,41>>, 0),
  Cf("jsonpair", <<108,101,110,103,116,104,40,96,34>>, <<92,117,100,56,51,100,92,117,100,101,48,48>>, <<34,96,41>>, 0),
  Cf("jsonupair", <<108,101,110,103,116,104,40,96,34>>, <<92,117,48,48,101,57>>, <<92,117,100,56,51,100,92,117,100,101,48,48,34,96,41>>, 1),
  Cf("jsonupair2", <<108,101,110,103,116,104,40,96,34,97>>, <<92,117,48,48,101,57>>, <<92,117,100,56,51,100,92,117,100,101,48,48,92,117,48,48,101,57,34,96,41>>, 3),
  Cf("qidupair",  <<108,101,110,103,116,104,40,107,101,121,115,40,123,34>>, <<92,117,48,48,101,57>>, <<92,117,100,56,51,100,92,117,100,101,48,48,34,58,32,96,49,96,125,41,91,48,93,41>>, 1),
  Cf("qidpairs",  <<108,101,110,103,116,104,40,107,101,121,115,40,123,34>>, <<92,117,100,56,51,100,92,117,100,101,48,48>>, <<34,58,32,96,49,96,125,41,91,48,93,41>>, 0),
  Cf("qidmixed",  <<108,101,110,103,116,104,40,107,101,121,115,40,123,34>>, <<92,117,48,48,101,57,120>>, <<92,117,100,56,51,100,92,117,100,101,48,48,34,58,32,96,49,96,125,41,91,48,93,41>>, 1),
  Cf("jsonarr",  <<108,101,110,103,116,104,40,96,91,34>>, <<120>>, <<34,93,96,91,48,93,41>>, 0),
  Cf("jsonobj",  <<108,101,110,103,116,104,40,96,123,34,107,34,58,34>>, <<120>>, <<34,125,96,46,107,41>>, 0),
  Kf("jsonsp",   <<108,101,110,103,116,104,40,96,91>>, <<32>>, <<34,97,98,34,93,96,91,48,93,41>>, {JInt(2)}),
  Cf("qidkey",   <<108,101,110,103,116,104,40,107,101,121,115,40,123,34>>, <<120>>, <<34,58,32,96,49,96,125,41,91,48,93,41>>, 0),
  Cf("qid4",     <<108,101,110,103,116,104,40,107,101,121,115,40,123,34>>, <<128512>>, <<34,58,32,96,49,96,125,41,91,48,93,41>>, 0),
  Cf("idkey",    <<108,101,110,103,116,104,40,107,101,121,115,40,123,107>>, <<120>>, <<58,32,96,49,96,125,41,91,48,93,41>>, 1),
  Cf("elems",    <<108,101,110,103,116,104,40,91>>, <<97,44>>, <<97,93,41>>, 1),
  Kf("blanks",   <<97>>, <<32>>, <<46,98>>, {JInt(1)}),
  Kf("tabs",     <<97,46>>, <<9>>, <<98>>, {JInt(1)}),
  Kf("newlines", <<97>>, <<10>>, <<46,32,98>>, {JInt(1)}),
  Kf("ident",    <<97,46,99>>, <<120>>, <<>>, {Null}),
  Kf("qid",      <<97,46,34,99>>, <<120>>, <<34>>, {Null}),
  Kf("zeros",    <<97,46,98,32,61,61,32,96,49,46,48>>, <<48>>, <<96>>, {JTrue}),
  \* ---- ill-formed at every length
  Kf("junk-arr",    <<96,91,34>>, <<120>>, <<34,93,93,96>>, Syn),
  Kf("junk-obj",    <<96,123,34,97,34,58,34>>, <<120>>, <<34,125,125,96>>, Syn),
  Kf("junk-val",    <<96,91,34>>, <<120>>, <<34,93,32,49,96>>, Syn),
  Kf("junk-str",    <<96,34>>, <<120>>, <<34,32,120,96>>, Syn),
  Kf("junk-comma",  <<96,91,34>>, <<120>>, <<34,44,93,96>>, Syn),
  Kf("open-arr",    <<96,91,34>>, <<120>>, <<34,96>>, Syn),
  Kf("open-str",    <<96,34>>, <<120>>, <<96>>, Syn),
  Kf("open-raw",    <<39>>, <<120>>, <<>>, Syn),
  Kf("open-raw4",   <<39>>, <<128512>>, <<>>, Syn),
  Kf("open-qid",    <<34>>, <<120>>, <<>>, Syn),
  Kf("open-lit",    <<96,34>>, <<120>>, <<34>>, Syn),
  Kf("two-raws",    <<39>>, <<120>>, <<39,39>>, Syn),
  Kf("bad-esc",     <<96,34>>, <<120>>, <<92,113,34,96>>, Syn),
  Kf("bad-u",       <<34>>, <<120>>, <<92,117,49,50,34>>, Syn) >>

RECURSIVE RepS(_, _)
RepS(s, n) == IF n = 0 THEN <<>> ELSE s \o RepS(s, n - 1)
TextOf(fm, n) == fm.head \o RepS(fm.rep, n) \o fm.tail
Expected(fm, n) == IF fm.t = "count" THEN {JInt(fm.mul * n + fm.plus)} ELSE fm.adm

VARIABLES bucket, idx
Init == bucket \in 1..Len(Families) /\ idx = 0
Next == idx = 0 /\ idx' = 1 /\ UNCHANGED bucket
Spec == Init /\ [][Next]_<<bucket, idx>>

Check == idx > 0 =>
  LET fm == Families[bucket]
      case == [p |-> Prop, kind |-> "sweep", family |-> fm.f, head |-> fm.head, rep |-> fm.rep, tail |-> fm.tail,
               doc |-> Doc, from |-> From, to |-> To, t |-> fm.t, plus |-> fm.plus, mul |-> fm.mul, adm |-> fm.adm]
  IN /\ Emit => PrintT("CASE " \o ToJson(case))
     /\ Named(\A n \in 0..4 : AdmissibleText(TextOf(fm, n), Doc) = Expected(fm, n)
                               \/ ~PrintT(<<"LEMMA", fm.f, n, AdmissibleText(TextOf(fm, n), Doc)>>) , "SweepLemma")
=============================================================================
