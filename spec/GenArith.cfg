SPECIFICATION Spec
CONSTANTS
  Emit = FALSE
  Prop = "C05"
  Big = FALSE
INVARIANTS
  Check
CHECK_DEADLOCK FALSE
