SPECIFICATION Spec
CONSTANTS
  Emit = FALSE
  Prop = "C17"
  Big = FALSE
INVARIANTS
  Check
CHECK_DEADLOCK FALSE
