SPECIFICATION Spec
CONSTANTS
  Emit = FALSE
  Prop = "C02"
INVARIANTS
  Check
CHECK_DEADLOCK FALSE
