SPECIFICATION Spec
CONSTANTS
  Emit = FALSE
  Prop = "C11"
  MaxLen = 2
INVARIANTS
  Check
CHECK_DEADLOCK FALSE
