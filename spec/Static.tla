\* GENERATED from Static.tla.in by bin/tlapp -- edit the .in file
----------------------------- MODULE Static -----------------------------
(***************************************************************************)
(* Faults that are decided by the expression text alone (property C08):    *)
(* syntax, invalid-arity, unknown-function, an expression reference in the *)
(* wrong argument position (reported as invalid-type) and slice step 0     *)
(* (reported as invalid-value).  Compile(ts, m) is what Compile/Search     *)
(* must report before looking at any document.                             *)
(***************************************************************************)
EXTENDS Grammar

\* signature table: min/max argument count (max -1 = variadic) and the set of
\* argument positions that must be expression references
Sig(min, max, refs) == [min |-> min, max |-> max, refs |-> refs]
Sigs ==
  ( <<97,98,115>> :> Sig(1, 1, {}) ) @@ ( <<97,118,103>> :> Sig(1, 1, {}) ) @@ ( <<99,101,105,108>> :> Sig(1, 1, {}) ) @@
  ( <<99,111,110,116,97,105,110,115>> :> Sig(2, 2, {}) ) @@ ( <<101,110,100,115,95,119,105,116,104>> :> Sig(2, 2, {}) ) @@
  ( <<102,105,110,100,95,102,105,114,115,116>> :> Sig(2, 4, {}) ) @@ ( <<102,105,110,100,95,108,97,115,116>> :> Sig(2, 4, {}) ) @@
  ( <<102,108,111,111,114>> :> Sig(1, 1, {}) ) @@ ( <<102,114,111,109,95,105,116,101,109,115>> :> Sig(1, 1, {}) ) @@
  ( <<103,114,111,117,112,95,98,121>> :> Sig(2, 2, {2}) ) @@ ( <<105,116,101,109,115>> :> Sig(1, 1, {}) ) @@ ( <<106,111,105,110>> :> Sig(2, 2, {}) ) @@
  ( <<107,101,121,115>> :> Sig(1, 1, {}) ) @@ ( <<108,101,110,103,116,104>> :> Sig(1, 1, {}) ) @@ ( <<108,111,119,101,114>> :> Sig(1, 1, {}) ) @@
  ( <<109,97,112>> :> Sig(2, 2, {1}) ) @@ ( <<109,97,120>> :> Sig(1, 1, {}) ) @@ ( <<109,97,120,95,98,121>> :> Sig(2, 2, {2}) ) @@
  ( <<109,101,114,103,101>> :> Sig(0, 0 - 1, {}) ) @@ ( <<109,105,110>> :> Sig(1, 1, {}) ) @@ ( <<109,105,110,95,98,121>> :> Sig(2, 2, {2}) ) @@
  ( <<110,111,116,95,110,117,108,108>> :> Sig(1, 0 - 1, {}) ) @@ ( <<112,97,100,95,108,101,102,116>> :> Sig(2, 3, {}) ) @@ ( <<112,97,100,95,114,105,103,104,116>> :> Sig(2, 3, {}) ) @@
  ( <<114,101,112,108,97,99,101>> :> Sig(3, 4, {}) ) @@ ( <<114,101,118,101,114,115,101>> :> Sig(1, 1, {}) ) @@ ( <<115,111,114,116>> :> Sig(1, 1, {}) ) @@
  ( <<115,111,114,116,95,98,121>> :> Sig(2, 2, {2}) ) @@ ( <<115,112,108,105,116>> :> Sig(2, 3, {}) ) @@ ( <<115,116,97,114,116,115,95,119,105,116,104>> :> Sig(2, 2, {}) ) @@
  ( <<115,117,109>> :> Sig(1, 1, {}) ) @@ ( <<116,111,95,97,114,114,97,121>> :> Sig(1, 1, {}) ) @@ ( <<116,111,95,110,117,109,98,101,114>> :> Sig(1, 1, {}) ) @@
  ( <<116,111,95,115,116,114,105,110,103>> :> Sig(1, 1, {}) ) @@ ( <<116,114,105,109>> :> Sig(1, 2, {}) ) @@ ( <<116,114,105,109,95,108,101,102,116>> :> Sig(1, 2, {}) ) @@
  ( <<116,114,105,109,95,114,105,103,104,116>> :> Sig(1, 2, {}) ) @@ ( <<116,121,112,101>> :> Sig(1, 1, {}) ) @@ ( <<117,112,112,101,114>> :> Sig(1, 1, {}) ) @@
  ( <<118,97,108,117,101,115>> :> Sig(1, 1, {}) ) @@ ( <<122,105,112>> :> Sig(0, 0 - 1, {}) )
FnNames == DOMAIN Sigs
\* merge() and zip() without arguments are left open by the standard
ZeroArgOpen == { <<109,101,114,103,101>>, <<122,105,112>> }

CallFaults(f, as) ==
  IF f \notin FnNames THEN {"unknown-function"}
  ELSE LET s == Sigs[f]  n == Len(as) IN
       (IF n < s.min \/ (s.max >= 0 /\ n > s.max) THEN {"invalid-arity"} ELSE {})
       \cup (IF \E i \in 1..n : (as[i].k = "expref") # (i \in s.refs) THEN {"invalid-type"} ELSE {})

RECURSIVE Faults(_)
RECURSIVE FaultsSeq(_, _)
FaultsSeq(xs, i) == IF i > Len(xs) THEN {} ELSE Faults(xs[i]) \cup FaultsSeq(xs, i + 1)
Faults(n) ==
  CASE n.k \in {"cur", "root", "field", "lit", "anylit", "var"} -> {}
    [] n.k = "index" -> Faults(n.l)
    [] n.k \in {"sub", "pipe", "or", "and", "cmp", "arith"} -> Faults(n.l) \cup Faults(n.r)
    [] n.k = "proj" -> Faults(n.l) \cup Faults(n.r) \cup Faults(n.c)
                       \cup (IF n.pk = "slice" /\ n.sl[3].p /\ n.sl[3].v = 0 THEN {"invalid-value"} ELSE {})
    [] n.k \in {"not", "neg", "pos", "expref"} -> Faults(n.x)
    [] n.k = "mslist" -> FaultsSeq(n.xs, 1)
    [] n.k = "mshash" -> FaultsSeq([i \in 1..Len(n.kvs) |-> n.kvs[i].x], 1)
    [] n.k = "let" -> FaultsSeq([i \in 1..Len(n.bs) |-> n.bs[i].x], 1) \cup Faults(n.x)
    [] n.k = "call" -> CallFaults(n.f, n.as) \cup FaultsSeq(n.as, 1)

\* a call of merge()/zip() with no arguments anywhere in the tree
RECURSIVE HasZeroArgOpen(_)
RECURSIVE HZSeq(_, _)
HZSeq(xs, i) == IF i > Len(xs) THEN FALSE ELSE HasZeroArgOpen(xs[i]) \/ HZSeq(xs, i + 1)
HasZeroArgOpen(n) ==
  CASE n.k \in {"cur", "root", "field", "lit", "anylit", "var"} -> FALSE
    [] n.k = "index" -> HasZeroArgOpen(n.l)
    [] n.k \in {"sub", "pipe", "or", "and", "cmp", "arith"} -> HasZeroArgOpen(n.l) \/ HasZeroArgOpen(n.r)
    [] n.k = "proj" -> HasZeroArgOpen(n.l) \/ HasZeroArgOpen(n.r) \/ HasZeroArgOpen(n.c)
    [] n.k \in {"not", "neg", "pos", "expref"} -> HasZeroArgOpen(n.x)
    [] n.k = "mslist" -> HZSeq(n.xs, 1)
    [] n.k = "mshash" -> HZSeq([i \in 1..Len(n.kvs) |-> n.kvs[i].x], 1)
    [] n.k = "let" -> HZSeq([i \in 1..Len(n.bs) |-> n.bs[i].x], 1) \/ HasZeroArgOpen(n.x)
    [] n.k = "call" -> (n.f \in ZeroArgOpen /\ Len(n.as) = 0) \/ HZSeq(n.as, 1)

\* When the text does not parse it is a syntax error and nothing else (C04: "fails with a syntax error for
\* every string outside it"; C08).  Until round 9 faults "visibly present in the token stream" -- a call with
\* a known or unknown name, a slice step of 0 -- were admitted next to syntax, because the implementation
\* reported them on one token of lookahead; that was its defect (repaired by aa3e261), not an openness of
\* the standard.  TokenFaults is kept to say what used to be admitted.
TokenFaults(ts) == {}

\* [ok |-> TRUE, n |-> ast, open |-> BOOLEAN] or [ok |-> FALSE, cs |-> error classes]
Compile(ts, m) ==
  LET p == ParseToks(ts, m) IN
  IF ~p.ok THEN [ok |-> FALSE, n |-> Cur, open |-> FALSE, cs |-> {"syntax"} \cup TokenFaults(ts)]
  ELSE LET fs == Faults(p.n) IN
       IF fs # {} THEN [ok |-> FALSE, n |-> Cur, open |-> FALSE, cs |-> fs]
       ELSE [ok |-> TRUE, n |-> p.n, open |-> HasZeroArgOpen(p.n), cs |-> {}]
=============================================================================
