\* GENERATED from Api.json by lib/tlagen.py
---- MODULE DocsApi ----
EXTENDS JValue
PoolApi == <<
  \* {"a": ["3", "1", "2"], "b": {"k": ["2", "1"]}, "s": "cab"}
  Obj(<<Mem(<<97>>, Arr(<<JInt(3), JInt(1), JInt(2)>>)), Mem(<<98>>, Obj(<<Mem(<<107>>, Arr(<<JInt(2), JInt(1)>>))>>)), Mem(<<115>>, Str(<<99, 97, 98>>))>>),
  \* {"a": [{"k": "2", "v": "x"}, {"k": "1", "v": "y"}, {"k": "2", "v": "z"}], "b": {"k": []}, "s": ""}
  Obj(<<Mem(<<97>>, Arr(<<Obj(<<Mem(<<107>>, JInt(2)), Mem(<<118>>, Str(<<120>>))>>), Obj(<<Mem(<<107>>, JInt(1)), Mem(<<118>>, Str(<<121>>))>>), Obj(<<Mem(<<107>>, JInt(2)), Mem(<<118>>, Str(<<122>>))>>)>>)), Mem(<<98>>, Obj(<<Mem(<<107>>, Arr(<<>>))>>)), Mem(<<115>>, Str(<<>>))>>),
  \* ["5", "4", ["3", ["2"]], null]
  Arr(<<JInt(5), JInt(4), Arr(<<JInt(3), Arr(<<JInt(2)>>)>>), Null>>)
>>
====
