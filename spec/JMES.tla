\* GENERATED from JMES.tla.in by bin/tlapp -- edit the .in file
------------------------------ MODULE JMES ------------------------------
(***************************************************************************)
(* What a search may return: the set of admissible outcomes of             *)
(* Search(text, doc), over every reading the standard admits.              *)
(***************************************************************************)
EXTENDS Eval

SearchOutcome(ts, doc, m) ==
  LET c == Compile(ts, m) IN
  IF ~c.ok THEN ErrS(c.cs)
  ELSE IF c.open THEN Open
  ELSE Eval(c.n, doc, doc, EmptyEnv)

\* the distinct compilations over all admissible readings (usually one)
Compilations(ts) == { Compile(ts, m) : m \in Modes(ts) }
OutcomeOf(c, doc) == IF ~c.ok THEN ErrS(c.cs) ELSE IF c.open THEN Open ELSE Eval(c.n, doc, doc, EmptyEnv)
Admissible(ts, doc) == { OutcomeOf(c, doc) : c \in Compilations(ts) }

\* from the text (code points, -1 = invalid UTF-8)
AdmissibleText(s, doc) ==
  \* a text that does not tokenise is a syntax error; a fault visible in the
  \* tokens before the offending character may be reported instead
  LET l == Lex(s) IN IF ~l.ok THEN {ErrS({"syntax"} \cup TokenFaults(l.ts))} ELSE Admissible(l.ts, doc)

\* compile-time view: the set of admissible static outcomes ("ok" or classes)
StaticOutcome(ts, m) == LET c == Compile(ts, m) IN IF c.ok THEN [ok |-> TRUE, cs |-> {}] ELSE [ok |-> FALSE, cs |-> c.cs]
StaticAdmissible(ts) == { StaticOutcome(ts, m) : m \in Modes(ts) }
StaticAdmissibleText(s) ==
  LET l == Lex(s) IN IF ~l.ok THEN {[ok |-> FALSE, cs |-> {"syntax"} \cup TokenFaults(l.ts)]} ELSE StaticAdmissible(l.ts)

\* does an actual outcome o (value / [t |-> "err", cs |-> {c}]) lie in the set?
Admits(S, o) ==
  \/ \E a \in S : IsAny(a)
  \/ IF IsErr(o) THEN \E a \in S : IsErr(a) /\ o.cs \subseteq a.cs
     ELSE \E a \in S : IsVal(a) /\ EqU(a, o)
=============================================================================
