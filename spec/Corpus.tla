\* GENERATED from Corpus.tla.in by bin/tlapp -- edit the .in file
----------------------------- MODULE Corpus -----------------------------
(***************************************************************************)
(* Calibration of the specification against the standard's own compliance  *)
(* corpus (DESIGN.md 4.3): for every corpus case the expected result must  *)
(* lie in the admissible set the specification computes from the text and  *)
(* the document.  A mismatch here is a defect of THIS SPECIFICATION, never *)
(* of the implementation, and makes every check exit 2.                    *)
(* Also used as the trace specification for recorded Search events.        *)
(***************************************************************************)
EXTENDS JMES, Json

CONSTANT File
Cases == ndJsonDeserialize(File)

\* one initial state per bucket, one successor per case of the bucket, so that
\* all TLC workers validate events in parallel
VARIABLES bucket, i
NB == 64
Init == bucket \in 0..(NB - 1) /\ i = 0
Next == i = 0 /\ \E j \in 1..Len(Cases) : j % NB = bucket /\ i' = j /\ UNCHANGED bucket

Out(c) == IF c.out.t = "err" THEN ErrS(SeqRange(c.out.cs)) ELSE c.out
Adm(c) == AdmissibleText(c.expr, c.doc)
Pinned(S) == Cardinality(S) = 1 /\ \A a \in S : ~IsAny(a) /\ (IsErr(a) => Cardinality(a.cs) = 1)

CaseOK == i > 0 =>
  LET c == Cases[i]  S == Adm(c) IN
  IF Admits(S, Out(c))
  THEN PrintT(<<"OKCASE", c.id, IF Pinned(S) THEN "pinned" ELSE "open">>)
  ELSE PrintT(<<"MISMATCH", c.id, S>>)
=============================================================================
