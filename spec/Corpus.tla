\* GENERATED from Corpus.tla.in by bin/tlapp -- edit the .in file
----------------------------- MODULE Corpus -----------------------------
(***************************************************************************)
(* Calibration of the specification against the standard's own compliance  *)
(* corpus (DESIGN.md 4.3): for every corpus case the expected result must  *)
(* lie in the admissible set the specification computes from the text and  *)
(* the document.  A mismatch here is a defect of THIS SPECIFICATION, never *)
(* of the implementation, and makes every check exit 2.                    *)
(* Also used as the trace specification for recorded Search events.        *)
(***************************************************************************)
EXTENDS JMES, Json

CONSTANT File
Cases == ndJsonDeserialize(File)

VARIABLE i
Init == i \in 1..Len(Cases)
Next == UNCHANGED i

Out(c) == IF c.out.t = "err" THEN ErrS(SeqRange(c.out.cs)) ELSE c.out
Adm(c) == AdmissibleText(c.expr, c.doc)
Pinned(S) == Cardinality(S) = 1 /\ \A a \in S : ~IsAny(a) /\ (IsErr(a) => Cardinality(a.cs) = 1)

CaseOK ==
  LET c == Cases[i]  S == Adm(c) IN
  IF Admits(S, Out(c))
  THEN PrintT(<<"OKCASE", c.id, IF Pinned(S) THEN "pinned" ELSE "open">>)
  ELSE PrintT(<<"MISMATCH", c.id, S>>)
=============================================================================
