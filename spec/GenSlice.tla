\* GENERATED from GenSlice.tla.in by bin/tlapp -- edit the .in file
---------------------------- MODULE GenSlice ----------------------------
(***************************************************************************)
(* Slices (property C12): every  x[start:stop:step]  with each part absent *)
(* or any integer in [-n-2, n+2] or at the 64-bit limits, on arrays of     *)
(* length n and on strings of n mixed-width code points, alone and         *)
(* followed by a selector.  The oracle is Slice.tla (via Eval); the lemmas *)
(* behind it are checked by SliceLemmas.                                   *)
(***************************************************************************)
EXTENDS JMES, Json, Toks

CONSTANTS Emit, Prop, MaxN

VARIABLES bucket, inst      \* inst = [n, str (BOOLEAN), a (index into Parts(n))] or <<>>

Limits == << <<57,50,50,51,51,55,50,48,51,54,56,53,52,55,55,53,56,48,55>>, <<45,57,50,50,51,51,55,50,48,51,54,56,53,52,55,55,53,56,48,55>>, <<45,57,50,50,51,51,55,50,48,51,54,56,53,52,55,55,53,56,48,56>>,
             <<52,54,49,49,54,56,54,48,49,56,52,50,55,51,56,55,57,48,52>>, <<45,52,54,49,49,54,56,54,48,49,56,52,50,55,51,56,55,57,48,52>> >>
\* part 0 = absent; 1..(2n+5) = -n-2 .. n+2 ; then the 64-bit limits
NParts(n) == 1 + (2 * n + 5) + Len(Limits)
PartToks(n, i) ==
  IF i = 0 THEN <<>>
  ELSE IF i <= 2 * n + 5
       THEN LET v == i - 1 - (n + 2) IN
            <<IntT((IF v < 0 THEN <<45>> ELSE <<>>) \o IntDigits(AbsI(v)))>>
       ELSE <<IntT(Limits[i - (2 * n + 5)])>>

\* mixed widths: a (1 byte) e-acute (2) euro (3) emoji (4) b combining-acute U+FFFD
Alphabet == <<97, 233, 8364, 128512, 98, 769, 65533>>
StrOf(n) == [i \in 1..n |-> Alphabet[((i - 1) % Len(Alphabet)) + 1]]
ArrOf(n) == Arr([i \in 1..n |-> Obj(<<Mem(<<97>>, JInt(i - 1))>>)])
DocOf(n, str) == Obj(<<Mem(<<120>>, IF str THEN Str(StrOf(n)) ELSE ArrOf(n))>>)

Init == bucket \in ((0..MaxN) \X BOOLEAN \X (0..7)) /\ inst = <<>>
Next == /\ inst = <<>>
        /\ \E a \in 0..(NParts(bucket[1]) - 1) :
             /\ a % 8 = bucket[3]
             /\ inst' = [n |-> bucket[1], str |-> bucket[2], a |-> a]
        /\ UNCHANGED bucket
Spec == Init /\ [][Next]_<<bucket, inst>>

Follows == << <<>>, <<Dot, Id(<<97>>)>>, <<LB, IntT(<<48>>), RB>> >>
SliceToks(n, a, b, c, withC) ==
  <<Id(<<120>>), LB>> \o PartToks(n, a) \o <<Colon>> \o PartToks(n, b)
  \o (IF withC THEN <<Colon>> \o PartToks(n, c) ELSE <<>>) \o <<RB>>

Check == inst # <<>> =>
  LET n   == inst.n
      doc == DocOf(n, inst.str)
      np  == NParts(n)
      sub(b, c, withC, f) ==
        LET ts == SliceToks(n, inst.a, b, c, withC) \o Follows[f] IN
        [expr |-> Render(ts), adm |-> Admissible(ts, doc)]
      cases == { sub(b, c, TRUE, f) : b \in 0..(np - 1), c \in 0..(np - 1), f \in 1..3 }
               \cup { sub(b, 0, FALSE, f) : b \in 0..(np - 1), f \in 1..3 }
      \* every legal spelling of an integer literal: leading zeros are decimal,
      \* never octal; -0 is 0 (once per run, on a 12-element array / string)
      doc12 == DocOf(12, inst.str)
      sp == << <<48,49,48>>, <<48,56>>, <<48,48,55>>, <<45,48,49,48>>, <<48,49,49>>, <<48,48>>, <<45,48>>, <<48,48,49,50>>, <<48,48,48,48,48,48,48,49,48>>, <<45,48,57>>, <<48,49>>,
               \* beyond 64 bits: still numbers of the grammar, beyond every length
               <<57,50,50,51,51,55,50,48,51,54,56,53,52,55,55,53,56,48,56>>, <<45,57,50,50,51,51,55,50,48,51,54,56,53,52,55,55,53,56,48,57>>, <<57,57,57,57,57,57,57,57,57,57,57,57,57,57,57,57,57,57,57,57>>, <<45,57,57,57,57,57,57,57,57,57,57,57,57,57,57,57,57,57,57,57,57>>, <<49,56,52,52,54,55,52,52,48,55,51,55,48,57,53,53,49,54,49,54>> >>
      spell(ts) == [expr |-> Render(ts), adm |-> Admissible(ts, doc12), doc |-> doc12]
      spelled == IF inst.n # 0 \/ inst.a # 0 THEN {}
                 ELSE UNION { { spell(<<Id(<<120>>), LB, IntT(sp[i]), RB>>), spell(<<Id(<<120>>), LB, IntT(sp[i]), Colon, RB>>),
                                spell(<<Id(<<120>>), LB, Colon, IntT(sp[i]), RB>>), spell(<<Id(<<120>>), LB, Colon, Colon, IntT(sp[i]), RB>>),
                                spell(<<Id(<<120>>), LB, IntT(sp[i]), Colon, IntT(sp[i]), Colon, RB>>),
                                spell(<<Id(<<120>>), PipeT, LB, IntT(sp[i]), RB>>) } : i \in 1..Len(sp) }
      case  == [p |-> Prop, kind |-> "search", doc |-> doc,
                multi |-> { [expr |-> c.expr, adm |-> c.adm, doc |-> doc] : c \in cases } \cup spelled]
  IN /\ Emit => PrintT("CASE " \o ToJson(case))
     \* an error only for step 0; otherwise a value of the sliced kind
     /\ Named(\A cs \in cases : \A o \in cs.adm : IsErr(o) => o.cs = {"invalid-value"}, "ErrorOnlyForStepZero")
     /\ Named(\A c \in spelled : \A o \in c.adm : IsVal(o) \/ (IsErr(o) /\ o.cs = {"invalid-value"}), "SpellingsAreIntegers")
=============================================================================
