SPECIFICATION Spec
CONSTANTS
  Emit = FALSE
  Prop = "C11"
  Sizes = {510, 520, 600}
INVARIANTS
  Check
CHECK_DEADLOCK FALSE
