SPECIFICATION Spec
CONSTANTS
  Emit = FALSE
  Prop = "C18"
INVARIANTS
  Check
CHECK_DEADLOCK FALSE
