SPECIFICATION Spec
CONSTANTS
  Emit = FALSE
  Prop = "C10"
  Lens = {2, 3, 31, 32, 33, 65}
INVARIANTS
  Check
CHECK_DEADLOCK FALSE
