\* GENERATED from GenProbe.tla.in by bin/tlapp -- edit the .in file
----------------------------- MODULE GenProbe -----------------------------
(***************************************************************************)
(* Single inputs with a pinned outcome that no generator family reaches:   *)
(* the confirmed reports of the audit round (DESIGN.md 9, round 8) that    *)
(* are recorded as findings rather than repaired, kept executable so that  *)
(* each finding is re-observed on every run (KNOWN-FINDING) and a repair   *)
(* would be noticed.  Every expected value follows from a clause of the    *)
(* property named in the entry; the number-model entries are evaluated by  *)
(* Decimal.tla where it applies.                                           *)
(***************************************************************************)
EXTENDS JMES, Json, Toks, SequencesExt
CONSTANTS Emit, Prop

RepS(s, n) == [i \in 1..n |-> s[1]]          \* n copies of a one-character text
Big(txt) == {[t |-> "num", big |-> txt]}
P(props, e, adm) == [props |-> props, e |-> e, adm |-> adm]
Probes == <<
  \* C05: avg / sum are exact whenever the exact result has at most 34 digits -- also when an INTERMEDIATE sum needs 35 digits or overflows
  P({"C05"}, <<97,118,103,40,91,96,57,57,57,57,57,57,57,57,57,57,57,57,57,57,57,57,57,57,57,57,57,57,57,57,57,57,57,57,57,57,57,57,57,57,96,44,96,57,57,57,57,57,57,57,57,57,57,57,57,57,57,57,57,57,57,57,57,57,57,57,57,57,57,57,57,57,57,57,57,57,57,96,93,41>>, Big("9999999999999999999999999999999999")),
  P({"C05"}, <<97,118,103,40,91,96,54,101,54,49,52,52,96,44,96,56,101,54,49,52,52,96,93,41>>, Big("7e6144")),
  P({"C05"}, <<115,117,109,40,96,91,57,101,51,51,44,32,48,46,52,44,32,48,46,52,44,32,48,46,52,44,32,48,46,52,44,32,48,46,52,93,96,41>>, Big("9000000000000000000000000000000002")),
  P({"C05"}, <<115,117,109,40,96,91,49,101,52,48,44,32,49,44,32,45,49,101,52,48,93,96,41>>, Big("1")),
  P({"C05"}, <<115,117,109,40,96,91,57,101,54,49,52,52,44,32,57,101,54,49,52,52,44,32,45,57,101,54,49,52,52,93,96,41>>, Big("9e6144")),
  \* C05 / C16: numerals inside the decimal128 range that the number parser misreads
  P({"C05", "C16"}, <<96,49,50,51,52,53,54,55,56,57,48,49,50,51,52,53,54,55,56,57,48,48,48,48,48,48,48,48,48,48,48,48,48,48,48,101,45,54,49,57,48,96,32,61,61,32,96,49,50,51,52,53,54,55,56,57,48,49,50,51,52,53,54,55,56,57,101,45,54,49,55,53,96>>, {JTrue}),
  P({"C05", "C16"}, <<96,49,50,51,52,53,54,55,56,57,48,49,50,51,52,53,54,55,56,57,48,48,48,48,48,48,48,48,48,48,48,48,48,48,48,101,45,54,49,57,48,96,32,61,61,32,96,48,96>>, {JFalse}),
  P({"C05", "C16"}, <<96,48,46>> \o RepS(<<48>>, 65535) \o <<49,96,32,61,61,32,96,49,96>>, {JFalse}),
  P({"C05", "C16"}, <<96,48,46>> \o RepS(<<48>>, 65536) \o <<49,96,32,61,61,32,96,48,46,49,96>>, {JFalse}),
  \* C20 / C13: numbers are compared by value -- also beyond 34 significant digits and below 1e-6176
  P({"C20"}, <<96,49,46,48,48,48,48,48,48,48,48,48,48,48,48,48,48,48,48,48,48,48,48,48,48,48,48,48,48,48,48,48,48,48,48,48,48,49,96,32,61,61,32,96,49,96>>, {JFalse}),
  P({"C20"}, <<96,49,48,48,48,48,48,48,48,48,48,48,48,48,48,48,48,48,48,48,48,48,48,48,48,48,48,48,48,48,48,48,48,48,48,48,48,48,48,50,96,32,61,61,32,96,49,48,48,48,48,48,48,48,48,48,48,48,48,48,48,48,48,48,48,48,48,48,48,48,48,48,48,48,48,48,48,48,48,48,48,48,48,48,49,96>>, {JFalse}),
  P({"C20"}, <<96,49,101,45,54,49,55,55,96,32,61,61,32,96,48,96>>, {JFalse}),
  P({"C20"}, <<96,49,101,45,55,48,48,48,96,32,61,61,32,96,45,49,101,45,55,48,48,48,96>>, {JFalse}),
  P({"C13"}, <<115,111,114,116,40,96,91,49,48,48,48,48,48,48,48,48,48,48,48,48,48,48,48,48,48,48,48,48,48,48,48,48,48,48,48,48,48,48,48,48,48,48,48,48,48,50,44,32,49,48,48,48,48,48,48,48,48,48,48,48,48,48,48,48,48,48,48,48,48,48,48,48,48,48,48,48,48,48,48,48,48,48,48,48,48,48,49,93,96,41,91,48,93>>, Big("100000000000000000000000000000000000001")),
  \* C16: every JSON value between backticks evaluates to that value -- also one nested deeper than encoding/json's limit
  P({"C16"}, <<108,101,110,103,116,104,40,96>> \o RepS(<<91>>, 10001) \o RepS(<<93>>, 10001) \o <<96,41>>, {JInt(1)}),
  \* C08 / C04: a text whose ONLY fault is grammatical is a syntax error (no argument exists that could have a wrong type or be one too many)
  P({"C08", "C04"}, <<109,97,112,40>>, {ErrS({"syntax"})}),
  P({"C08", "C04"}, <<115,111,114,116,95,98,121,40,97,44,32,93>>, {ErrS({"syntax"})}),
  P({"C08", "C04"}, <<97,98,115,40,38,41>>, {ErrS({"syntax"})}),
  P({"C08", "C04"}, <<97,98,115,40,97,44,41>>, {ErrS({"syntax"})}),
  P({"C08", "C04"}, <<108,101,110,103,116,104,40,97,44>>, {ErrS({"syntax"})}),
  \* C01: a sub-expression whose left side is null is null, whatever stands on the right (a pipe is not)
  P({"C01", "C17"}, <<110,111,115,117,99,104,46,116,121,112,101,40,64,41>>, {Null}),
  P({"C01", "C17"}, <<110,111,115,117,99,104,46,116,111,95,97,114,114,97,121,40,64,41>>, {Null}),
  P({"C01", "C17"}, <<110,111,115,117,99,104,46,108,101,110,103,116,104,40,64,41>>, {Null}),
  P({"C01", "C17"}, <<110,111,115,117,99,104,32,124,32,116,121,112,101,40,64,41>>, {Str(<<110,117,108,108>>)}),
  P({"C01", "C17"}, <<91,96,123,34,98,34,58,49,125,96,44,32,96,123,125,96,93,91,42,93,46,98,46,116,121,112,101,40,64,41>>, {Arr(<<Str(<<110,117,109,98,101,114>>)>>)}),
  P({"C01", "C17"}, <<110,111,115,117,99,104,46,110,111,116,95,110,117,108,108,40,64,44,32,96,49,96,41>>, {Null}),
  \* C01: a multi-select is evaluated on a null current node (one member or several), a sub-expression on null is null
  P({"C01", "C17"}, <<110,111,115,117,99,104,32,124,32,91,64,44,32,64,93>>, {Arr(<<Null, Null>>)}),
  P({"C01", "C17"}, <<110,111,115,117,99,104,32,124,32,91,64,93>>, {Arr(<<Null>>)}),
  P({"C01", "C17"}, <<110,111,115,117,99,104,32,124,32,123,97,58,32,64,44,32,98,58,32,96,49,96,125>>, {Obj(<<Mem(<<97>>, Null), Mem(<<98>>, JInt(1))>>)}),
  P({"C01", "C17"}, <<110,111,115,117,99,104,46,91,64,44,32,64,93>>, {Null}),
  P({"C01", "C17"}, <<110,111,115,117,99,104,46,123,97,58,32,64,44,32,98,58,32,64,125>>, {Null}),
  \* C04: a let expression is not a right-hand side of "." (but the identifier let is)
  P({"C04", "C19"}, <<113,46,108,101,116,32,36,120,32,61,32,113,32,105,110,32,36,120>>, {ErrS({"syntax"})}),
  P({"C04", "C19"}, <<64,46,42,46,108,101,116,32,36,120,32,61,32,64,32,105,110,32,36,120>>, {ErrS({"syntax"})}),
  P({"C04", "C19"}, <<123,108,101,116,58,32,113,125,46,108,101,116>>, {JInt(1)}),
  P({"C04", "C19"}, <<123,105,110,58,32,113,44,32,108,101,116,58,32,113,125,46,105,110>>, {JInt(1)}),
  \* C19: every binding of a let is evaluated (a failing one fails the let), also when a later binding repeats its name
  P({"C19"}, <<108,101,116,32,36,97,32,61,32,36,110,111,112,101,44,32,36,97,32,61,32,96,49,96,32,105,110,32,36,97>>, {Err("undefined-variable")}),
  P({"C19"}, <<108,101,116,32,36,97,32,61,32,97,98,115,40,39,120,39,41,44,32,36,97,32,61,32,96,49,96,32,105,110,32,36,97>>, {Err("invalid-type")}),
  \* C08 / C01: every member of a multi-select hash is evaluated (a failing one fails the expression), also when a later member repeats its key
  P({"C08", "C01"}, <<123,97,58,32,97,98,115,40,39,120,39,41,44,32,97,58,32,96,49,96,125>>, {Err("invalid-type")}),
  P({"C08", "C01"}, <<123,97,58,32,36,110,111,112,101,44,32,34,97,34,58,32,96,49,96,125>>, {Err("undefined-variable")}),
  \* C02: invalid-value only for negative or non-integral counts and offsets -- not for integral ones beyond 2^63
  P({"C02"}, <<115,112,108,105,116,40,39,97,44,98,39,44,32,39,44,39,44,32,96,57,50,50,51,51,55,50,48,51,54,56,53,52,55,55,53,56,48,56,96,41>>, {Arr(<<Str(<<97>>), Str(<<98>>)>>)}),
  P({"C02"}, <<102,105,110,100,95,102,105,114,115,116,40,39,97,98,99,39,44,32,39,98,39,44,32,96,45,49,101,51,48,96,41>>, {JInt(1)}),
  P({"C02"}, <<114,101,112,108,97,99,101,40,39,97,98,99,39,44,32,39,98,39,44,32,39,120,39,44,32,96,49,101,51,48,96,41>>, {Str(<<97,120,99>>)}) >>

\* probes on a document whose numbers are held by particular Go carriers (member order a, b)
CDoc(txt) == [t |-> "obj", o |-> << [k |-> <<97>>, v |-> [t |-> "num", big |-> txt]], [k |-> <<98>>, v |-> [t |-> "num", big |-> txt]] >>]
CarrierProbes == <<
  \* C14: a float64 that holds 2^60 exactly is printed by to_string with the shortest digits that read back as the same FLOAT
  \* (1152921504606847000), which is another number: the text differs from that of every other carrier and does not convert back
  [props |-> {"C14"}, e |-> <<116,111,95,110,117,109,98,101,114,40,116,111,95,115,116,114,105,110,103,40,97,41,41,32,61,61,32,97>>, adm |-> {JTrue}, doc |-> CDoc("1152921504606846976"), carriers |-> <<"float64", "float64">>],
  [props |-> {"C14"}, e |-> <<116,111,95,115,116,114,105,110,103,40,97,41,32,61,61,32,116,111,95,115,116,114,105,110,103,40,98,41>>, adm |-> {JTrue}, doc |-> CDoc("1152921504606846976"), carriers |-> <<"float64", "int64">>],
  [props |-> {"C14"}, e |-> <<116,111,95,110,117,109,98,101,114,40,116,111,95,115,116,114,105,110,103,40,97,41,41,32,61,61,32,98>>, adm |-> {JTrue}, doc |-> CDoc("1073741824"), carriers |-> <<"float32", "int64">>],
  \* ... and the controls: every other carrier converts back
  [props |-> {"C14"}, e |-> <<116,111,95,110,117,109,98,101,114,40,116,111,95,115,116,114,105,110,103,40,97,41,41,32,61,61,32,98>>, adm |-> {JTrue}, doc |-> CDoc("1152921504606846976"), carriers |-> <<"int64", "json">>],
  [props |-> {"C14"}, e |-> <<116,111,95,110,117,109,98,101,114,40,116,111,95,115,116,114,105,110,103,40,97,41,41,32,61,61,32,98>>, adm |-> {JTrue}, doc |-> CDoc("1152921504606846976"), carriers |-> <<"decimal", "uint64">>],
  \* C14 (round 11): the negation of a zero held by a float64 is the float -0, printed "-0"; every other carrier gives "0"
  \* (the decimal path of the negation returns a zero operand unchanged; the float path did not)
  [props |-> {"C14"}, e |-> <<116,111,95,115,116,114,105,110,103,40,45,97,41,32,61,61,32,116,111,95,115,116,114,105,110,103,40,45,98,41>>, adm |-> {JTrue}, doc |-> CDoc("0"), carriers |-> <<"float64", "int64">>],
  [props |-> {"C14"}, e |-> <<116,111,95,115,116,114,105,110,103,40,45,97,41,32,61,61,32,116,111,95,115,116,114,105,110,103,40,45,98,41>>, adm |-> {JTrue}, doc |-> CDoc("0"), carriers |-> <<"float32", "json">>],
  [props |-> {"C14"}, e |-> <<116,111,95,115,116,114,105,110,103,40,45,97,41,32,61,61,32,116,111,95,115,116,114,105,110,103,40,45,98,41>>, adm |-> {JTrue}, doc |-> CDoc("0"), carriers |-> <<"decimal", "uint8">>] >>

\* C09: time polynomial in the length of the expression, the size of the document and of the result.
\* Families pre^d core post^d whose value stays tiny while the evaluation doubles with every level
\* (the harness measures d = 12, 14, 16, 18 and reports growth that is exponential, not polynomial)
Growth == << [family |-> "shared-structure-eq", pre |-> <<91,64,44,64,93,124>>, core |-> <<64,61,61,64>>, post |-> <<>>, doc |-> JInt(1), adm |-> {JTrue}],
             [family |-> "shared-structure-contains", pre |-> <<91,64,44,64,93,124>>, core |-> <<99,111,110,116,97,105,110,115,40,91,64,93,44,64,41>>, post |-> <<>>, doc |-> JInt(1), adm |-> {JTrue}],
             [family |-> "root-filter-nest", pre |-> <<36,91,63>>, core |-> <<96,116,114,117,101,96>>, post |-> <<93>>, doc |-> Arr(<<JInt(1), JInt(2)>>), adm |-> {Arr(<<JInt(1), JInt(2)>>)}] >>

VARIABLES bucket, idx
Init == bucket \in 1..Len(Probes) /\ idx = 0
Next == idx = 0 /\ idx' = 1 /\ UNCHANGED bucket
Spec == Init /\ [][Next]_<<bucket, idx>>
Doc == Obj(<<Mem(<<113>>, JInt(1))>>)
Check == idx > 0 =>
  LET pr == Probes[bucket]
      case == [p |-> Prop, kind |-> "search", doc |-> Doc, expr |-> pr.e, adm |-> pr.adm]
  IN /\ (Emit /\ Prop \in pr.props) => PrintT("CASE " \o ToJson(case))
     /\ (Emit /\ bucket <= Len(CarrierProbes) /\ Prop \in CarrierProbes[bucket].props) =>
           PrintT("CASE " \o ToJson([p |-> Prop, kind |-> "search", doc |-> CarrierProbes[bucket].doc, expr |-> CarrierProbes[bucket].e,
                                      adm |-> CarrierProbes[bucket].adm, carriers |-> CarrierProbes[bucket].carriers]))
     /\ (Emit /\ Prop = "C09" /\ bucket <= Len(Growth)) =>
           PrintT("CASE " \o ToJson([p |-> Prop, kind |-> "expgrowth"] @@ Growth[bucket]))
     \* the small members of the growth families have the stated value in the specification
     /\ Named(bucket > Len(Growth) \/ \A d \in 1..3 : LET g == Growth[bucket]
                                                           rp(x, n) == IF n = 1 THEN x ELSE IF n = 2 THEN x \o x ELSE x \o x \o x
                                                       IN AdmissibleText(rp(g.pre, d) \o g.core \o rp(g.post, d), g.doc) = g.adm, "GrowthFamiliesAreConstant")
     \* every probe is a text the specification accepts
     /\ Named(Len(pr.e) > 15000 \/ (\A o \in StaticAdmissibleText(pr.e) : o.ok) \/ pr.adm = {ErrS({"syntax"})}, "ProbesAreWellFormed")
     \* the malformed calls are outside the grammar in the specification too
     /\ Named(pr.adm # {ErrS({"syntax"})} \/ \A o \in StaticAdmissibleText(pr.e) : ~o.ok /\ "syntax" \in o.cs, "MalformedProbesAreMalformed")
=============================================================================
