\* GENERATED from GenChain.tla.in by bin/tlapp -- edit the .in file
----------------------------- MODULE GenChain -----------------------------
(***************************************************************************)
(* Long runs of operators of one precedence level (property C10):          *)
(*      x op y op y ... op y          (n operands, n up to 65)             *)
(* and runs alternating two operators of the same level.  The rule --      *)
(* operators of equal precedence associate to the left, at any length --   *)
(* is stated by writing the left-nested parentheses out, without a parser: *)
(*      ((..((x op y) op y) ..) op y)                                      *)
(* Model-level checks (TLC):                                               *)
(*   ChainLeftNested   Grammar produces the same AST for both texts        *)
(* Conformance: a "pair" case with strict = TRUE -- the real code must     *)
(* give the same outcome for both texts on every document, including the   *)
(* documents where the grouping changes rounding (float64 1e16 + 1 + 1..., *)
(* 34-digit decimals) and whose value the small-decimal model leaves Open; *)
(* on the small documents the outcome is also compared with Eval.          *)
(***************************************************************************)
EXTENDS JMES, Decimal, Json, Toks, SequencesExt
CONSTANTS Emit, Prop, Lens

BinToks == << PipeT, OrT, AndT, EqT, NeT, LtT, LeT, GtT, GeT, PlusT, MinusT, MinusUT,
              Star, MultT, DivT, DivUT, IDivT, ModT >>
\* (first, second) operator of a run; equal = a run of one operator
Runs == { <<a, a>> : a \in 1..18 }
        \cup { <<10, 11>>, <<11, 10>>, <<10, 12>>, <<13, 15>>, <<15, 13>>, <<14, 16>>, <<13, 14>>, <<14, 13>>,
               <<17, 13>>, <<18, 13>>, <<13, 17>>, <<6, 4>>, <<4, 6>>, <<8, 5>> }
X == Id(<<120>>)  Y == Id(<<121>>)
OpAt(r, j) == BinToks[IF j % 2 = 1 THEN r[1] ELSE r[2]]          \* j-th operator of the run
RECURSIVE Chain(_, _, _)  RECURSIVE Nested(_, _, _)
\* y: the right operands -- the field y, or a literal
Chain(r, n, y)  == IF n = 1 THEN <<X>> ELSE Chain(r, n - 1, y) \o <<OpAt(r, n - 1), y>>
Nested(r, n, y) == IF n = 1 THEN <<X>> ELSE <<LP>> \o Nested(r, n - 1, y) \o <<OpAt(r, n - 1), y, RP>>
\* the same computation sequenced by let: each intermediate result is bound
\* before it is used (no regrouping, folding or re-association can cross a let)
RECURSIVE Steps(_, _, _, _)
TV(i) == VarT(<<36, 116>> \o NatCps(i))                       \* $t1, $t2 ...
Steps(r, n, y, i) == IF i >= n THEN <<TV(n - 1)>>
                     ELSE <<LetT, TV(i), AssignT>> \o (IF i = 1 THEN <<X>> ELSE <<TV(i - 1)>>) \o <<OpAt(r, i), y, InT>> \o Steps(r, n, y, i + 1)
Sequenced(r, n, y) == IF n = 1 THEN <<X>> ELSE Steps(r, n, y, 1)
Lit4 == Json(<<96,52,96>>)  Lit10 == Json(<<96,49,48,96>>)

D(neg, ds, e) == NumV(Norm(neg, ds, e))
Nines34 == [i \in 1..34 |-> 9]
DocXY(x, y) == [t |-> "obj", o |-> <<[k |-> <<120>>, v |-> x], [k |-> <<121>>, v |-> y]>>]
\* documents outside the small-decimal model: the outcome is Open, the two texts must still agree
Exotic == <<
  [doc |-> DocXY(D(FALSE, <<1>>, 16), D(FALSE, <<1>>, 0)), carriers |-> <<"float64", "float64">>],
  [doc |-> DocXY(D(FALSE, <<1>>, 16), D(FALSE, <<1>>, 0)), carriers |-> <<"json", "json">>],
  [doc |-> DocXY(D(FALSE, <<3>>, 0), D(FALSE, <<1, 1>>, 0 - 1)), carriers |-> <<"float64", "float64">>],
  [doc |-> DocXY(D(FALSE, Nines34, 0), D(FALSE, <<4>>, 0 - 1)), carriers |-> <<"json", "json">>],
  [doc |-> DocXY(D(FALSE, Nines34, 0), D(FALSE, <<4>>, 0 - 1)), carriers |-> <<"decimal", "decimal">>],
  [doc |-> DocXY(D(FALSE, <<1>>, 0), D(FALSE, <<1, 0, 0, 0, 0, 0, 0, 0, 0, 0, 0, 0, 0, 0, 0, 0, 0, 0, 0, 0, 0, 0, 0, 0, 0, 0, 0, 0, 0, 0, 0, 0, 0, 7>>, 0 - 33)), carriers |-> <<"json", "json">>],
  [doc |-> DocXY(D(FALSE, <<1>>, 300), D(FALSE, <<1>>, 10)), carriers |-> <<"float64", "float64">>],
  [doc |-> DocXY(D(TRUE, <<7>>, 0), D(FALSE, <<3>>, 0)), carriers |-> <<"float64", "int64">>],
  [doc |-> DocXY([t |-> "num", big |-> "92345678901234567890123456789012340"], D(FALSE, <<4>>, 0)), carriers |-> <<"json", "json">>],
  [doc |-> DocXY(D(FALSE, <<2>>, 0 - 1), D(FALSE, <<1, 0>>, 0)), carriers |-> <<"floatany", "json">>],
  [doc |-> DocXY(D(FALSE, <<3>>, 0 - 1), D(FALSE, <<1, 2>>, 0)), carriers |-> <<"floatany", "json">>],
  [doc |-> DocXY(D(FALSE, Nines34, 0 - 1), D(FALSE, <<4>>, 0)), carriers |-> <<"json", "json">>] >>
\* small documents: Eval decides the outcome (additive and looser levels only:
\* a product of 64 factors leaves the model's 32-bit integers)
Small == << Obj(<<Mem(<<120>>, JInt(7)), Mem(<<121>>, JInt(2))>>),
            Obj(<<Mem(<<120>>, Num(15, 0 - 1)), Mem(<<121>>, Num(0 - 25, 0 - 2))>>),
            Obj(<<Mem(<<120>>, JTrue), Mem(<<121>>, JFalse)>>),
            Obj(<<Mem(<<120>>, Null), Mem(<<121>>, Arr(<<JInt(1)>>))>>),
            Obj(<<Mem(<<120>>, Str(<<97>>)), Mem(<<121>>, Str(<<>>))>>) >>
OneDoc == Obj(<<Mem(<<120>>, JInt(7)), Mem(<<121>>, JInt(1))>>)       \* multiplicative runs with Eval: y = 1

RunSeq == SetToSeq(Runs)
LenSeq == SetToSeq(Lens)
VARIABLES bucket, idx
Init == bucket \in 1..Len(RunSeq) /\ idx = 0
Next == idx = 0 /\ \E i \in 1..Len(LenSeq) : idx' = i /\ UNCHANGED bucket
Spec == Init /\ [][Next]_<<bucket, idx>>

Mult(r) == \E j \in 1..2 : r[j] >= 13
Check == idx > 0 =>
  LET r  == RunSeq[bucket]   n == LenSeq[idx]
      ts == Chain(r, n, Y)      fp == Nested(r, n, Y)   sq == Sequenced(r, n, Y)
      c1 == Compile(ts, DefaultMode)  c2 == Compile(fp, DefaultMode)
      base(y) == [p |-> Prop, kind |-> "pair", strict |-> TRUE, expr |-> Render(Chain(r, n, y)), expr2 |-> Render(Nested(r, n, y)),
                  expr3 |-> Render(Sequenced(r, n, y))]
      smalls == IF Mult(r) THEN <<OneDoc>> ELSE Small
      cases == { base(y) @@ [doc |-> Exotic[i].doc, carriers |-> Exotic[i].carriers, adm |-> {Open}] : i \in 1..Len(Exotic), y \in {Y, Lit4, Lit10} }
               \cup { base(Y) @@ [doc |-> smalls[i], carriers |-> <<>>, adm |-> Admissible(ts, smalls[i])] : i \in 1..Len(smalls) }
  IN /\ Emit => \A c \in cases : PrintT("CASE " \o ToJson(c))
     /\ Named(c1.ok /\ c2.ok /\ c1.n = c2.n, "ChainLeftNested")
     /\ Named(\A i \in 1..Len(smalls) : Admissible(ts, smalls[i]) = Admissible(fp, smalls[i]), "SameOutcomeInModel")
     \* sequencing by let is the same computation (checked where Eval is cheap: up to 9 operands)
     /\ Named(n > 9 \/ \A i \in 1..Len(smalls) : Admissible(ts, smalls[i]) = Admissible(sq, smalls[i]), "SequencedByLetIsTheSame")
=============================================================================
