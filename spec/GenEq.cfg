SPECIFICATION Spec
CONSTANTS
  Emit = FALSE
  Prop = "C20"
INVARIANTS
  Check
CHECK_DEADLOCK FALSE
