\* GENERATED from GenOpForms.tla.in by bin/tlapp -- edit the .in file
--------------------------- MODULE GenOpForms ---------------------------
(***************************************************************************)
(* Operator precedence with operands of every FORM (property C10, round 11 *)
(* -- seed C10-j: a function call as the right-hand operand of a binary    *)
(* operator was handed to a fast path that never offered what follows the  *)
(* closing parenthesis to the operand:  a - length(b) * c  =  (a - length(b)) * c). *)
(* GenOps varies the operators over plain fields; this machine varies the  *)
(* operand:  e1 op1 e2 [op2 e3]  where one operand at a time is written in *)
(* one of the forms below (a call, a parenthesised field, @.x, $.x, a      *)
(* multi-select list indexed, a multi-select hash selected, a quoted       *)
(* identifier, a call with two arguments, a by-function on a one-element   *)
(* list), over every ordered pair of operators.                            *)
(*                                                                         *)
(* Model-level check (TLC):                                                *)
(*   FormsGroupByTable  the text compiles to the same tree as the text in  *)
(*                      which the grouping the precedence LEVELS dictate   *)
(*                      (rightmost operator of the lowest level is the     *)
(*                      root) is written out with parentheses              *)
(* Conformance: the harness evaluates both texts on the real code; they    *)
(* must agree with each other and with Eval on every pool document.        *)
(***************************************************************************)
EXTENDS JMES, Json, Toks, SequencesExt, DocsOpsS

CONSTANTS Emit, Prop, OpSet

BinToks == << PipeT, OrT, AndT, EqT, NeT, LtT, LeT, GtT, GeT, PlusT, MinusT, MinusUT,
              Star, MultT, DivT, DivUT, IDivT, ModT >>
Level(k) == CASE k = "pipe" -> 1 [] k = "or" -> 2 [] k = "and" -> 3
              [] k \in {"eq", "ne", "lt", "le", "gt", "ge"} -> 4
              [] k \in {"plus", "minus"} -> 5
              [] k \in {"star", "mult", "div", "idiv", "mod"} -> 6

Fn(name, args) == <<Id(name), LP>> \o args \o <<RP>>
\* spellings of "the member named s of the current node"; all of them mean what the bare
\* field means wherever the current node is the document (after a pipe the current node is
\* the piped value -- the specification evaluates the text as it stands, nothing is assumed)
Forms(s) == <<
  <<Id(s)>>,
  Fn(<<110,111,116,95,110,117,108,108>>, <<Id(s)>>),
  <<LP, Id(s), RP>>,
  <<CurT, Dot, Id(s)>>,
  <<RootT, Dot, Id(s)>>,
  <<LB, Id(s), RB, LB, IntT(<<48>>), RB>>,
  <<LBr, Id(<<107>>), Colon, Id(s), RBr, Dot, Id(<<107>>)>>,
  <<QId(<<34>> \o s \o <<34>>)>>,
  Fn(<<110,111,116,95,110,117,108,108>>, <<Id(<<110,111,115,117,99,104>>), Comma, Id(s)>>),
  Fn(<<109,97,120,95,98,121>>, <<LB, Id(s), RB, Comma, AmpT, Json(<<96,49,96>>)>>),
  Fn(<<116,111,95,97,114,114,97,121>>, <<Id(s)>>) \o <<LB, IntT(<<48>>), RB>>,
  Fn(<<110,111,116,95,110,117,108,108>>, <<Id(s)>>) \o <<Dot>> \o Fn(<<110,111,116,95,110,117,108,108>>, <<CurT>>) >>
NF == Len(Forms(<<120>>))
Names == << <<120>>, <<121>>, <<122>> >>

Insts == { [o1 |-> a, o2 |-> b, pos |-> p, f |-> f] :
             a \in OpSet, b \in OpSet \cup {0}, p \in 1..3, f \in 2..NF }
InstSeq == SetToSeq({ i \in Insts : i.pos = 3 => i.o2 # 0 })

VARIABLES bucket, idx
NB == 64
Init == bucket \in 0..(NB - 1) /\ idx = 0
Next == idx = 0 /\ \E i \in 1..Len(InstSeq) : i % NB = bucket /\ idx' = i /\ UNCHANGED bucket
Spec == Init /\ [][Next]_<<bucket, idx>>

inst == InstSeq[idx]
Operand(i, p) == Forms(Names[p])[IF i.pos = p THEN i.f ELSE 1]
OpsOf(i) == <<i.o1>> \o (IF i.o2 = 0 THEN <<>> ELSE <<i.o2>>)
LeavesOf(i) == [p \in 1..(Len(OpsOf(i)) + 1) |-> Operand(i, p)]
RECURSIVE Chain(_, _)
Chain(ops, leaves) == IF Len(ops) = 0 THEN leaves[1]
                     ELSE leaves[1] \o <<BinToks[ops[1]]>> \o Chain(Tail(ops), Tail(leaves))
\* the grouping stated without a parser: the root is the rightmost operator of the lowest level
RECURSIVE Group(_, _)
Group(ops, leaves) ==
  IF Len(ops) = 0 THEN <<LP>> \o leaves[1] \o <<RP>>
  ELSE LET lv(j) == Level(BinToks[ops[j]].k)
           minL == CHOOSE l \in {lv(j) : j \in 1..Len(ops)} : \A j \in 1..Len(ops) : l <= lv(j)
           r == CHOOSE j \in 1..Len(ops) : lv(j) = minL /\ \A j2 \in (j + 1)..Len(ops) : lv(j2) # minL
       IN <<LP>> \o Group(SubSeq(ops, 1, r - 1), SubSeq(leaves, 1, r)) \o <<BinToks[ops[r]]>>
          \o Group(SubSeq(ops, r + 1, Len(ops)), SubSeq(leaves, r + 1, Len(leaves))) \o <<RP>>

Check == idx > 0 =>
  LET ts    == Chain(OpsOf(inst), LeavesOf(inst))
      ps    == Group(OpsOf(inst), LeavesOf(inst))
      comps == Compilations(ts)
      pcomp == Compilations(ps)
      ND    == Len(PoolOpsS)
      adms  == [d \in 1..ND |-> { OutcomeOf(c, PoolOpsS[d]) : c \in comps }]
      case  == [p |-> Prop, kind |-> "pair", expr |-> Render(ts), expr2 |-> Render(ps), pool |-> "OpsS", adms |-> adms]
  IN /\ Emit => PrintT("CASE " \o ToJson(case))
     /\ Named(\A c \in comps \cup pcomp : c.ok, "AllParse")
     /\ Named(Cardinality(comps) = 1 /\ { c.n : c \in comps } = { c.n : c \in pcomp }, "FormsGroupByTable")
=============================================================================
