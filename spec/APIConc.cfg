SPECIFICATION Spec
CONSTANTS
  Emit = FALSE
  Prop = "C07"
  Gates = 2
  NCallSets = 6
  Rounds = 20
  First = 1
INVARIANTS
  Check
CHECK_DEADLOCK FALSE
