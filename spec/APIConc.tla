\* GENERATED from APIConc.tla.in by bin/tlapp -- edit the .in file
----------------------------- MODULE APIConc -----------------------------
(***************************************************************************)
(* Concurrent use of the API (property C07).  NG goroutines each issue a   *)
(* fixed sequence of calls on SHARED compiled expressions and a SHARED     *)
(* read-only document.  A call is split into Gates + 1 segments: Begin up to   *)
(* the first evaluation step, the steps in between, and the last step up   *)
(* to End (the implementation's evaluate-entry hook is the gate).  Every   *)
(* interleaving of the segments is a behaviour of this machine; TLC        *)
(* enumerates them all and the harness replays each schedule into real     *)
(* goroutines, gated by the hook, and compares every outcome.              *)
(* End(g) computes the outcome from (text, document) alone: nothing a call *)
(* does is visible to another -- the design-level statement of the         *)
(* property, checked as Pure in every interleaved state.                   *)
(***************************************************************************)
EXTENDS JMES, Json, Toks, DocsApiConc

CONSTANTS Emit, Prop, Gates, NCallSets, Rounds, First   \* call sets First..NCallSets

A == Id(<<97>>)  B == Id(<<98>>)
Fn(name, args) == <<Id(name), LP>> \o args \o <<RP>>
Texts == <<
  <<Json(<<96,91,51,44,49,44,50,93,96>>)>>,
  Fn(<<115,111,114,116>>, <<A>>),
  Fn(<<115,111,114,116,95,98,121>>, <<A, Comma, AmpT, Id(<<107>>)>>),
  Fn(<<109,101,114,103,101>>, <<B, Comma, Json(<<96,123,34,107,34,58,91,57,93,125,96>>)>>),
  <<LetT, VarT(<<36,120>>), AssignT, A, InT, LB, VarT(<<36,120>>), Comma>> \o Fn(<<114,101,118,101,114,115,101>>, <<VarT(<<36,120>>)>>) \o <<RB>>,
  <<A, LB, Star, RB, Dot, Id(<<107>>)>>,
  <<Json(<<96,123,34,107,34,58,91,50,44,49,93,125,96>>), Dot, Id(<<107>>)>>,
  Fn(<<115,111,114,116>>, <<Json(<<96,91,51,44,49,44,50,93,96>>)>>),
  <<A, Dot>>,
  Fn(<<115,111,114,116,95,98,121>>, <<Id(<<98,97,100>>), Comma, AmpT, Id(<<107>>)>>),          \* fails on the last of 40 elements
  Fn(<<115,111,114,116,95,98,121>>, <<A, Comma, AmpT, Id(<<107>>)>>) \o <<LB, Star, RB, Dot, Id(<<118>>)>> >>
Docs == PoolApiConc

C(op, t, d) == [op |-> op, t |-> t, d |-> d]
\* one sequence of calls per goroutine
CallSets == <<
  << <<C("exprsearch", 2, 1), C("exprsearch", 2, 1)>>, <<C("exprsearch", 2, 1), C("search", 2, 1)>> >>,
  << <<C("exprsearch", 1, 1), C("exprsearch", 8, 1)>>, <<C("exprsearch", 8, 1), C("exprsearch", 1, 1)>> >>,
  << <<C("exprsearch", 3, 2), C("exprsearch", 6, 2)>>, <<C("exprsearch", 3, 2), C("compile", 3, 0)>> >>,
  << <<C("exprsearch", 4, 1), C("exprsearch", 7, 1)>>, <<C("exprsearch", 7, 1), C("exprsearch", 4, 2)>> >>,
  << <<C("exprsearch", 5, 1), C("exprsearch", 5, 2)>>, <<C("exprsearch", 5, 2), C("exprsearch", 5, 1)>> >>,
  << <<C("compile", 9, 0), C("search", 9, 1)>>, <<C("exprsearch", 2, 1), C("compile", 2, 0)>> >>,
  \* a failing call first, then the same function on large arrays from both goroutines
  << <<C("exprsearch", 10, 4), C("exprsearch", 3, 4)>>, <<C("exprsearch", 11, 4), C("exprsearch", 3, 4)>> >>,
  << <<C("exprsearch", 2, 1), C("exprsearch", 3, 2)>>, <<C("exprsearch", 6, 2), C("exprsearch", 1, 3)>>,
     <<C("search", 8, 1), C("exprsearch", 4, 1)>> >> >>

VARIABLES cs, pc, sched, outs, tab     \* tab: what each call of the chosen call set returns when run alone
vars == <<cs, pc, sched, outs, tab>>
NG == Len(CallSets[cs])
Total(g) == Len(CallSets[cs][g]) * (Gates + 1)

ExpectedOf(c) == IF c.op = "compile" THEN StaticAdmissible(Texts[c.t]) ELSE Admissible(Texts[c.t], Docs[c.d])
\* what each call of a call set returns when run alone; computed once, in the
\* initial state, and carried unchanged (sorting the 140-element arrays in
\* every state would dominate the run)
TabOf(s) == [g \in 1..Len(CallSets[s]) |-> [i \in 1..Len(CallSets[s][g]) |-> ExpectedOf(CallSets[s][g][i])]]

Init == cs \in First..NCallSets /\ pc = [g \in 1..Len(CallSets[cs]) |-> 0] /\ sched = <<>> /\ outs = <<>> /\ tab = TabOf(cs)
\* one segment of goroutine g; the last segment of a call is its End, where
\* the outcome becomes visible to the caller
Seg(g) == /\ pc[g] < Total(g)
          /\ pc' = [pc EXCEPT ![g] = @ + 1]
          /\ sched' = Append(sched, g)
          /\ outs' = IF (pc[g] + 1) % (Gates + 1) = 0
                     THEN Append(outs, [g |-> g, i |-> (pc[g] + 1) \div (Gates + 1),
                                        out |-> tab[g][(pc[g] + 1) \div (Gates + 1)]])
                     ELSE outs
          /\ UNCHANGED <<cs, tab>>
Next == \E g \in 1..NG : Seg(g)
Spec == Init /\ [][Next]_vars
Done == \A g \in 1..NG : pc[g] = Total(g)

\* every completed call returned what it would return if run alone
Pure == \A k \in 1..Len(outs) : outs[k].out = tab[outs[k].g][outs[k].i]
Check ==
  LET case == [p |-> Prop, kind |-> "sched", pool |-> "ApiConc", gates |-> Gates,
               texts |-> [t \in 1..Len(Texts) |-> Render(Texts[t])],
               calls |-> [g \in 1..NG |-> [i \in 1..Len(CallSets[cs][g]) |->
                            LET c == CallSets[cs][g][i] IN
                              [op |-> c.op, t |-> c.t, d |-> c.d,
                               adm |-> IF c.op = "compile" THEN {} ELSE tab[g][i],
                               sadm |-> IF c.op = "compile" THEN tab[g][i] ELSE {}]]],
               sched |-> sched]
      \* the same call set, to be run ungated under the race detector
      racecase == [p |-> Prop, kind |-> "race", pool |-> "ApiConc", rounds |-> Rounds, goroutines |-> 8,
                   texts |-> case.texts, calls |-> case.calls]
  IN /\ (Emit /\ Done) => PrintT("CASE " \o ToJson(case))
     /\ (Emit /\ sched = <<>>) => PrintT("CASE " \o ToJson(racecase))
     /\ (Pure \/ ~PrintT("MODELFAIL Pure"))
=============================================================================
