\* GENERATED from Grammar.tla.in by bin/tlapp -- edit the .in file
----------------------------- MODULE Grammar -----------------------------
(***************************************************************************)
(* The grammar of JMESPath Community: tokens -> abstract syntax tree.      *)
(*                                                                         *)
(* Written from the standard's grammar and binding-power table, not from   *)
(* the implementation: tokens are never fused, the AST has one node per    *)
(* language construct (the implementation has 112 fused node types), and   *)
(* static faults are found by a separate pass over the AST.                *)
(*                                                                         *)
(* Where the standard is ambiguous the grammar is parameterised by a mode  *)
(* record and BOTH settings are admissible (DESIGN.md 3.3, 3.6, app. A):   *)
(*   m.ds m.ms m.fl m.nt m.sg   one switch per table entry on which the    *)
(*         reference binding powers (TRUE) and the uniform rule of         *)
(*         property C01 (FALSE: every projection's right-hand side extends *)
(*         to the next stop token) differ:  ds  lhs.* binds its right-hand *)
(*         side with 40 / 20;  ms  a multi-select reached through "." ends *)
(*         a right-hand side / does not;  fl  filter 21 / 20;  nt  "!" 45  *)
(*         / below the selectors;  sg  unary sign 6 / tighter than every   *)
(*         binary operator.  The entries are independent: an               *)
(*         implementation may follow either reading for each.              *)
(*   m.kw  TRUE  = let / in are reserved words; FALSE = contextual         *)
(*   m.ws  TRUE  = blanks allowed inside "[*]" and ".*"; FALSE = not       *)
(*   m.len TRUE  = lenient literals (unpaired surrogate -> U+FFFD)         *)
(***************************************************************************)
EXTENDS Lexer, Literals

K(ts, i) == IF i <= Len(ts) THEN ts[i].k ELSE "eof"

\* ------------------------------------------------------------------- AST
Cur          == [k |-> "cur"]
RootN        == [k |-> "root"]
Field(s)     == [k |-> "field", s |-> s]
Index(l, n)  == [k |-> "index", l |-> l, n |-> n]
SlicePart(p, v) == [p |-> p, v |-> v]                  \* p = present
Sub(l, r)    == [k |-> "sub", l |-> l, r |-> r]
Pipe(l, r)   == [k |-> "pipe", l |-> l, r |-> r]
NoSlice      == <<SlicePart(FALSE, 0), SlicePart(FALSE, 0), SlicePart(FALSE, 0)>>
Proj(pk, l, r, c, sl) == [k |-> "proj", pk |-> pk, l |-> l, r |-> r, c |-> c, sl |-> sl]
Or(l, r)     == [k |-> "or", l |-> l, r |-> r]
And(l, r)    == [k |-> "and", l |-> l, r |-> r]
Not(x)       == [k |-> "not", x |-> x]
Cmp(op, l, r) == [k |-> "cmp", op |-> op, l |-> l, r |-> r]
Arith(op, l, r) == [k |-> "arith", op |-> op, l |-> l, r |-> r]
Neg(x)       == [k |-> "neg", x |-> x]
Pos(x)       == [k |-> "pos", x |-> x]
Lit(v)       == [k |-> "lit", v |-> v]
AnyLit       == [k |-> "anylit"]         \* a literal outside the small-number model
MSList(xs)   == [k |-> "mslist", xs |-> xs]
MSHash(kvs)  == [k |-> "mshash", kvs |-> kvs]      \* kvs: << [k |-> key, x |-> expr] >>
Var(s)       == [k |-> "var", s |-> s]
Let(bs, x)   == [k |-> "let", bs |-> bs, x |-> x]  \* bs: << [k |-> name, x |-> expr] >>
Call(f, as)  == [k |-> "call", f |-> f, as |-> as]
ExpRef(x)    == [k |-> "expref", x |-> x]

POk(n, i) == [ok |-> TRUE, n |-> n, i |-> i]
PFail     == [ok |-> FALSE, n |-> Cur, i |-> 0]

\* ------------------------------------------------------ binding powers
LedBp(k) == CASE k = "pipe" -> 1
              [] k = "or" -> 2
              [] k = "and" -> 3
              [] k \in {"eq", "ne", "lt", "le", "gt", "ge"} -> 5
              [] k \in {"plus", "minus"} -> 6
              [] k \in {"star", "mult", "div", "idiv", "mod"} -> 7
              [] k = "flatten" -> 9
              [] k = "filter" -> 21
              [] k = "dot" -> 40
              [] k = "lbracket" -> 55
              [] OTHER -> 0
ProjStop == 10
StarBp(m)     == 20
DotStarBp(m)  == IF m.ds THEN 40 ELSE 20
FilterBp(m)   == IF m.fl THEN 21 ELSE 20
NotBp(m)      == IF m.nt THEN 45 ELSE 8
SignBp(m)     == IF m.sg THEN 6 ELSE 8

BinOp(k) == CASE k = "plus" -> "+" [] k = "minus" -> "-" [] k \in {"star", "mult"} -> "*"
              [] k = "div" -> "/" [] k = "idiv" -> "//" [] k = "mod" -> "%"
              [] k = "eq" -> "==" [] k = "ne" -> "!=" [] k = "lt" -> "<" [] k = "le" -> "<="
              [] k = "gt" -> ">" [] k = "ge" -> ">=" [] OTHER -> "?"

\* ------------------------------------------------------ integer tokens
\* value of an integer token; magnitudes of ten digits and more become the
\* sentinel 10^9 (every array and string of the model is shorter, and by
\* the lemma in Slice.tla every |x| > length behaves alike)
Huge == 1000000000
IntTok(cp) ==
  LET neg == cp[1] = 45
      a   == IF neg THEN 2 ELSE 1
      z   == SkipZeros(cp, a, Len(cp) + 1)
      nd  == Len(cp) + 1 - z
      mag == IF nd > 9 THEN Huge ELSE DigitsVal(cp, z, Len(cp) + 1)
  IN [v |-> IF neg THEN 0 - mag ELSE mag, nd |-> nd]
\* beyond the 64-bit range: left open (a syntax error, or clamped)
IntTooBig(cp) ==
  LET neg == cp[1] = 45
      a   == IF neg THEN 2 ELSE 1
      z   == SkipZeros(cp, a, Len(cp) + 1)
      ds  == SubSeq(cp, z, Len(cp))
      lim == IF neg THEN <<57,50,50,51,51,55,50,48,51,54,56,53,52,55,55,53,56,48,56>> ELSE <<57,50,50,51,51,55,50,48,51,54,56,53,52,55,55,53,56,48,55>>
  IN Len(ds) > 19 \/ (Len(ds) = 19 /\ SeqLess(lim, ds))

\* --------------------------------------------------------------- parser
RECURSIVE Expr(_, _, _, _)
RECURSIVE Nud(_, _, _)
RECURSIVE Led(_, _, _, _, _)
RECURSIVE ProjRhs(_, _, _, _)
RECURSIVE DotRhs(_, _, _, _)
RECURSIVE MSListRest(_, _, _, _)
RECURSIVE MSHashRest(_, _, _, _)
RECURSIVE LetRest(_, _, _, _)
RECURSIVE ArgsRest(_, _, _, _)

Expr(ts, i, rbp, m) ==
  LET l == Nud(ts, i, m) IN IF ~l.ok THEN PFail ELSE Led(ts, l.n, l.i, rbp, m)

\* bracket-specifier after "[" when the next token is a number or a colon.
\* [ok, idx (TRUE = index), n, sl, i]
BracketSpec(ts, i, m) ==
  LET bad == [ok |-> FALSE, idx |-> FALSE, n |-> 0, sl |-> NoSlice, i |-> 0]
      \* number = ["-"] 1*digit has no size bound: an index or slice part beyond 64 bits is in the
      \* language (and lies beyond every length)
      IntAt(j) == IF K(ts, j) = "int" THEN 1 ELSE 0
      iv(j) == IntTok(ts[j].cp).v
  IN
  IF K(ts, i) = "int" /\ K(ts, i + 1) = "rbracket"
  THEN (IF IntAt(i) = 1 THEN [ok |-> TRUE, idx |-> TRUE, n |-> iv(i), sl |-> NoSlice, i |-> i + 2] ELSE bad)
  ELSE
    LET hasA == K(ts, i) = "int"
        c1   == IF hasA THEN i + 1 ELSE i                       \* first colon
        hasB == K(ts, c1 + 1) = "int"
        e1   == IF hasB THEN c1 + 2 ELSE c1 + 1                 \* after stop
    IN IF K(ts, c1) # "colon" THEN bad
       ELSE IF (hasA /\ IntAt(i) = 0) \/ (hasB /\ IntAt(c1 + 1) = 0) THEN bad
       ELSE LET A == SlicePart(hasA, IF hasA THEN iv(i) ELSE 0)
                B == SlicePart(hasB, IF hasB THEN iv(c1 + 1) ELSE 0)
            IN IF K(ts, e1) = "rbracket"
               THEN [ok |-> TRUE, idx |-> FALSE, n |-> 0, sl |-> <<A, B, SlicePart(FALSE, 0)>>, i |-> e1 + 1]
               ELSE IF K(ts, e1) # "colon" THEN bad
               ELSE LET hasC == K(ts, e1 + 1) = "int"
                        e2   == IF hasC THEN e1 + 2 ELSE e1 + 1
                    IN IF K(ts, e2) # "rbracket" \/ (hasC /\ IntAt(e1 + 1) = 0) THEN bad
                       ELSE [ok |-> TRUE, idx |-> FALSE, n |-> 0,
                             sl |-> <<A, B, SlicePart(hasC, IF hasC THEN iv(e1 + 1) ELSE 0)>>, i |-> e2 + 1]

\* index or slice applied to `left`; a slice opens a projection
BracketOn(ts, left, i, m) ==
  LET b == BracketSpec(ts, i, m) IN
  IF ~b.ok THEN PFail
  ELSE IF b.idx THEN POk(Index(left, b.n), b.i)
  ELSE LET r == ProjRhs(ts, b.i, StarBp(m), m) IN
       IF ~r.ok THEN PFail ELSE POk(Proj("slice", left, r.n, Cur, b.sl), r.i)

\* "[" "*" "]" at positions i, i+1, i+2 ; blanks inside are a mode question
IsStarBracket(ts, i, m) ==
  /\ K(ts, i) = "lbracket" /\ K(ts, i + 1) = "star" /\ K(ts, i + 2) = "rbracket"
  /\ (m.ws \/ (~ts[i + 1].sp /\ ~ts[i + 2].sp))

IsKw(t, w) == t.k = "id" /\ t.cp = w

Nud(ts, i, m) ==
  LET k == K(ts, i) IN
  CASE k = "id" ->
         IF IsKw(ts[i], <<108,101,116>>) /\ K(ts, i + 1) = "var" THEN LetRest(ts, i + 1, <<>>, m)
         ELSE IF m.kw /\ (IsKw(ts[i], <<108,101,116>>) \/ IsKw(ts[i], <<105,110>>)) THEN PFail
         ELSE IF K(ts, i + 1) = "lparen"
              THEN (IF K(ts, i + 2) = "rparen" THEN POk(Call(ts[i].cp, <<>>), i + 3)
                    ELSE ArgsRest(ts, i + 2, [f |-> ts[i].cp, as |-> <<>>], m))
         ELSE POk(Field(ts[i].cp), i + 1)
    [] k = "qid" -> LET d == DecQuoted(ts[i].cp, m.len) IN
                      IF d.ok THEN POk(Field(d.s), i + 1) ELSE PFail
    [] k = "raw" -> POk(Lit(Str(DecRaw(ts[i].cp))), i + 1)
    [] k = "json" -> LET d == DecJSON(ts[i].cp, m.len) IN
                       IF ~d.ok THEN PFail
                       ELSE IF d.big THEN POk(AnyLit, i + 1) ELSE POk(Lit(d.v), i + 1)
    [] k = "cur"  -> POk(Cur, i + 1)
    [] k = "root" -> POk(RootN, i + 1)
    [] k = "var"  -> POk(Var(ts[i].cp), i + 1)
    [] k = "star" -> LET r == ProjRhs(ts, i + 1, StarBp(m), m) IN
                       IF ~r.ok THEN PFail ELSE POk(Proj("obj", Cur, r.n, Cur, NoSlice), r.i)
    [] k = "flatten" -> LET r == ProjRhs(ts, i + 1, 9, m) IN
                       IF ~r.ok THEN PFail ELSE POk(Proj("flat", Cur, r.n, Cur, NoSlice), r.i)
    [] k = "filter" -> LET c == Expr(ts, i + 1, 0, m) IN
                       IF ~c.ok \/ K(ts, c.i) # "rbracket" THEN PFail
                       ELSE LET r == ProjRhs(ts, c.i + 1, FilterBp(m), m) IN
                            IF ~r.ok THEN PFail ELSE POk(Proj("filter", Cur, r.n, c.n, NoSlice), r.i)
    [] k = "lbrace" -> MSHashRest(ts, i + 1, <<>>, m)
    [] k = "lparen" -> LET e == Expr(ts, i + 1, 0, m) IN
                       IF ~e.ok \/ K(ts, e.i) # "rparen" THEN PFail ELSE POk(e.n, e.i + 1)
    [] k = "not"   -> LET e == Expr(ts, i + 1, NotBp(m), m) IN
                       IF ~e.ok THEN PFail ELSE POk(Not(e.n), e.i)
    [] k = "minus" -> LET e == Expr(ts, i + 1, SignBp(m), m) IN
                       IF ~e.ok THEN PFail ELSE POk(Neg(e.n), e.i)
    [] k = "plus"  -> LET e == Expr(ts, i + 1, SignBp(m), m) IN
                       IF ~e.ok THEN PFail ELSE POk(Pos(e.n), e.i)
    [] k = "lbracket" ->
         IF K(ts, i + 1) \in {"int", "colon"} THEN BracketOn(ts, Cur, i + 1, m)
         ELSE IF IsStarBracket(ts, i, m)
              THEN LET r == ProjRhs(ts, i + 3, StarBp(m), m) IN
                   IF ~r.ok THEN PFail ELSE POk(Proj("list", Cur, r.n, Cur, NoSlice), r.i)
         ELSE MSListRest(ts, i + 1, <<>>, m)
    [] OTHER -> PFail

Led(ts, left, i, rbp, m) ==
  LET k == K(ts, i)  bp == LedBp(k) IN
  IF rbp >= bp THEN POk(left, i)
  ELSE
  CASE k = "dot" ->
         IF K(ts, i + 1) = "star"
         THEN (IF ts[i + 1].sp /\ ~m.ws THEN PFail
               ELSE LET r == ProjRhs(ts, i + 2, DotStarBp(m), m) IN
                    IF ~r.ok THEN PFail
                    ELSE Led(ts, Proj("obj", left, r.n, Cur, NoSlice), r.i, rbp, m))
         ELSE LET r == DotRhs(ts, i + 1, 40, m) IN
              IF ~r.ok THEN PFail ELSE Led(ts, Sub(left, r.n), r.i, rbp, m)
    [] k = "pipe" -> LET r == Expr(ts, i + 1, bp, m) IN
                       IF ~r.ok THEN PFail ELSE Led(ts, Pipe(left, r.n), r.i, rbp, m)
    [] k = "or"   -> LET r == Expr(ts, i + 1, bp, m) IN
                       IF ~r.ok THEN PFail ELSE Led(ts, Or(left, r.n), r.i, rbp, m)
    [] k = "and"  -> LET r == Expr(ts, i + 1, bp, m) IN
                       IF ~r.ok THEN PFail ELSE Led(ts, And(left, r.n), r.i, rbp, m)
    [] k \in {"eq", "ne", "lt", "le", "gt", "ge"} ->
                     LET r == Expr(ts, i + 1, bp, m) IN
                       IF ~r.ok THEN PFail ELSE Led(ts, Cmp(BinOp(k), left, r.n), r.i, rbp, m)
    [] k \in {"plus", "minus", "star", "mult", "div", "idiv", "mod"} ->
                     LET r == Expr(ts, i + 1, bp, m) IN
                       IF ~r.ok THEN PFail ELSE Led(ts, Arith(BinOp(k), left, r.n), r.i, rbp, m)
    [] k = "flatten" -> LET r == ProjRhs(ts, i + 1, 9, m) IN
                       IF ~r.ok THEN PFail
                       ELSE Led(ts, Proj("flat", left, r.n, Cur, NoSlice), r.i, rbp, m)
    [] k = "filter" -> LET c == Expr(ts, i + 1, 0, m) IN
                       IF ~c.ok \/ K(ts, c.i) # "rbracket" THEN PFail
                       ELSE LET r == ProjRhs(ts, c.i + 1, FilterBp(m), m) IN
                            IF ~r.ok THEN PFail
                            ELSE Led(ts, Proj("filter", left, r.n, c.n, NoSlice), r.i, rbp, m)
    [] k = "lbracket" ->
         IF K(ts, i + 1) \in {"int", "colon"}
         THEN LET b == BracketOn(ts, left, i + 1, m) IN
              IF ~b.ok THEN PFail ELSE Led(ts, b.n, b.i, rbp, m)
         ELSE IF IsStarBracket(ts, i, m)
              THEN LET r == ProjRhs(ts, i + 3, StarBp(m), m) IN
                   IF ~r.ok THEN PFail
                   ELSE Led(ts, Proj("list", left, r.n, Cur, NoSlice), r.i, rbp, m)
         ELSE PFail
    [] OTHER -> PFail

\* right-hand side of a projection
ProjRhs(ts, i, p, m) ==
  LET k == K(ts, i) IN
  IF LedBp(k) < ProjStop THEN POk(Cur, i)
  \* only a bracket-specifier may follow directly (the ABNF has no
  \* expression "[" multi-select "]"; that needs a dot)
  ELSE IF k = "lbracket" /\ ~(K(ts, i + 1) \in {"int", "colon"} \/ IsStarBracket(ts, i, m)) THEN PFail
  ELSE IF k \in {"lbracket", "filter"} THEN Expr(ts, i, p, m)
  \* x[*].rhs  applies  @.rhs  to every element: a sub-expression on the element, which is null for a null
  \* element whatever rhs is (a field, a function call, a multi-select)
  ELSE IF k = "dot" THEN LET r == DotRhs(ts, i + 1, p, m) IN IF ~r.ok THEN PFail ELSE POk(Sub(Cur, r.n), r.i)
  ELSE PFail

\* what may follow a "." ; i is the token after the dot
DotRhs(ts, i, p, m) ==
  LET k == K(ts, i) IN
  IF k = "star" /\ ts[i].sp /\ ~m.ws THEN PFail       \* ". *": blank inside the composite
  \* sub-expression = expression "." ( identifier / multi-select / function / "*" ): a let EXPRESSION is
  \* not among them -- after a dot "let" is the identifier, and a variable cannot follow an identifier
  ELSE IF k = "id" /\ IsKw(ts[i], <<108,101,116>>) /\ K(ts, i + 1) = "var" THEN PFail
  ELSE IF k \in {"id", "qid", "star"} THEN Expr(ts, i, p, m)
  ELSE IF k = "lbracket"
       THEN LET r == MSListRest(ts, i + 1, <<>>, m) IN
            IF ~r.ok THEN PFail ELSE IF m.ms THEN r ELSE Led(ts, r.n, r.i, p, m)
  ELSE IF k = "lbrace"
       THEN LET r == MSHashRest(ts, i + 1, <<>>, m) IN
            IF ~r.ok THEN PFail ELSE IF m.ms THEN r ELSE Led(ts, r.n, r.i, p, m)
  ELSE PFail

\* e1, e2, ... ]   (i = first token of the next element)
MSListRest(ts, i, acc, m) ==
  LET e == Expr(ts, i, 0, m) IN
  IF ~e.ok THEN PFail
  ELSE IF K(ts, e.i) = "comma" THEN MSListRest(ts, e.i + 1, Append(acc, e.n), m)
  ELSE IF K(ts, e.i) = "rbracket" THEN POk(MSList(Append(acc, e.n)), e.i + 1)
  ELSE PFail

\* key : e, ... }
MSHashRest(ts, i, acc, m) ==
  LET k == K(ts, i)
      key == IF k = "id" /\ m.kw /\ (IsKw(ts[i], <<108,101,116>>) \/ IsKw(ts[i], <<105,110>>)) THEN [ok |-> FALSE, s |-> <<>>]
             ELSE IF k = "id" THEN [ok |-> TRUE, s |-> ts[i].cp]
             ELSE IF k = "qid" THEN DecQuoted(ts[i].cp, m.len)
             ELSE [ok |-> FALSE, s |-> <<>>]
  IN IF ~key.ok \/ K(ts, i + 1) # "colon" THEN PFail
     ELSE LET e == Expr(ts, i + 2, 0, m) IN
          IF ~e.ok THEN PFail
          ELSE LET acc2 == Append(acc, [k |-> key.s, x |-> e.n]) IN
               IF K(ts, e.i) = "comma" THEN MSHashRest(ts, e.i + 1, acc2, m)
               ELSE IF K(ts, e.i) = "rbrace" THEN POk(MSHash(acc2), e.i + 1)
               ELSE PFail

\* $v = e, ... in body   (i = the variable token)
LetRest(ts, i, acc, m) ==
  IF K(ts, i) # "var" \/ K(ts, i + 1) # "assign" THEN PFail
  ELSE LET e == Expr(ts, i + 2, 0, m) IN
       IF ~e.ok THEN PFail
       ELSE LET acc2 == Append(acc, [k |-> ts[i].cp, x |-> e.n]) IN
            IF K(ts, e.i) = "comma" THEN LetRest(ts, e.i + 1, acc2, m)
            ELSE IF K(ts, e.i) = "id" /\ IsKw(ts[e.i], <<105,110>>)
                 THEN LET b == Expr(ts, e.i + 1, 0, m) IN
                      IF ~b.ok THEN PFail ELSE POk(Let(acc2, b.n), b.i)
            ELSE PFail

\* arguments after "(" ; i = first token of the next argument
ArgsRest(ts, i, c, m) ==
  LET isRef == K(ts, i) = "amp"
      e == Expr(ts, IF isRef THEN i + 1 ELSE i, 0, m)
  IN IF ~e.ok THEN PFail
     ELSE LET c2 == [c EXCEPT !.as = Append(@, IF isRef THEN ExpRef(e.n) ELSE e.n)] IN
          IF K(ts, e.i) = "comma" THEN ArgsRest(ts, e.i + 1, c2, m)
          ELSE IF K(ts, e.i) = "rparen" THEN POk(Call(c2.f, c2.as), e.i + 1)
          ELSE PFail

\* [ok |-> TRUE, n |-> ast] / [ok |-> FALSE]
ParseToks(ts, m) ==
  LET e == Expr(ts, 1, 0, m) IN
  IF e.ok /\ e.i = Len(ts) + 1 THEN [ok |-> TRUE, n |-> e.n] ELSE [ok |-> FALSE, n |-> Cur]

\* ---------------------------------------------------------------- modes
Mode(ds, ms, fl, nt, sg, kw, ws, len) ==
  [ds |-> ds, ms |-> ms, fl |-> fl, nt |-> nt, sg |-> sg, kw |-> kw, ws |-> ws, len |-> len]
\* which mode dimensions can matter for these tokens
HasTok(ts, k) == \E i \in 1..Len(ts) : ts[i].k = k
HasDotStar(ts) == \E i \in 1..Len(ts) : K(ts, i) = "dot" /\ K(ts, i + 1) = "star"
HasDotMS(ts) == \E i \in 1..Len(ts) : K(ts, i) = "dot" /\ K(ts, i + 1) \in {"lbracket", "lbrace"}
HasKwTok(ts) == \E i \in 1..Len(ts) : IsKw(ts[i], <<108,101,116>>) \/ IsKw(ts[i], <<105,110>>)
HasWsComposite(ts) ==
  \E i \in 1..Len(ts) :
     \/ K(ts, i) = "lbracket" /\ K(ts, i + 1) = "star" /\ K(ts, i + 2) = "rbracket"
        /\ (ts[i + 1].sp \/ ts[i + 2].sp)
     \/ K(ts, i) = "dot" /\ K(ts, i + 1) = "star" /\ ts[i + 1].sp
HasOpenLit(ts) ==
  \E i \in 1..Len(ts) :
     \/ ts[i].k \in {"qid", "json"} /\ HasOpenJStr(ts[i].cp, 2)

Both(c) == IF c THEN BOOLEAN ELSE {TRUE}
\* ds, ms, fl and sg are NOT open: property C01 pins "a projection's right-hand side extends over
\* following selectors until a pipe, a lower-precedence operator or a closing bracket" and C10 pins
\* "unary sign binds tighter than every binary operator".  (They were admitted as alternative readings
\* until round 7 of the seeding, after the binding powers of one reference implementation; that hid
\* two defects.)  The switches remain in the grammar so that the other reading can be named.
Modes(ts) == { Mode(ds, ms, fl, nt, sg, kw, ws, len) :
                 ds \in {FALSE}, ms \in {FALSE},
                 fl \in {FALSE}, nt \in Both(HasTok(ts, "not")),
                 sg \in {FALSE},
                 \* let / in are not reserved: the grammar's identifier is any unquoted-string, and a let expression
                 \* is recognised by "let" in front of a variable binding (C04: every string of the grammar compiles)
                 \* blanks inside "[*]" and ".*" are legal: "[" "*" "]" are three terminals of the grammar, "." "*" two (C04:
                 \* "every legal placement of whitespace ... never silently reinterpreted"); open until round 10 because the
                 \* implementation rejected them, or read "[ * ]" as a multi-select of the object wildcard
                 kw \in {FALSE}, ws \in {TRUE},
                 len \in Both(HasOpenLit(ts)) }
DefaultMode == Mode(FALSE, FALSE, FALSE, TRUE, FALSE, FALSE, TRUE, TRUE)
\* the two pure readings of DESIGN.md appendix A
ModeR == DefaultMode
ModeU == Mode(FALSE, FALSE, FALSE, FALSE, FALSE, FALSE, TRUE, TRUE)
=============================================================================
