\* GENERATED from GenApply.tla.in by bin/tlapp -- edit the .in file
----------------------------- MODULE GenApply -----------------------------
(***************************************************************************)
(* Functions applied repeatedly inside one evaluation (properties C06,     *)
(* C18, C02): for every built-in f, every argument count and every value   *)
(* position p, the current node @ stands at position p and pool LITERALS   *)
(* of admissible types at the other positions,                              *)
(*      [*].f(lit, @)     map(&f(lit, @), @)                               *)
(*      let $l = lit in [*].f($l, @)        f(lit, @)                      *)
(* evaluated over an array holding every pool value admissible at p (so    *)
(* f runs on several differing elements next to the same literal: a        *)
(* literal or variable that is updated in place, or returned by            *)
(* reference, shows in the next element) and on each element alone (the    *)
(* harness re-uses the compiled expression across documents).  Oracle:     *)
(* Eval / Builtins.                                                        *)
(***************************************************************************)
EXTENDS JMES, Json, Toks, DocsCall, SequencesExt, CallTypes, HostileKinds
CONSTANTS Emit, Prop

\* the call pool plus literals beyond the sizes at which an implementation may
\* switch representation (40 elements / members / characters)
U2(i) == <<117, 48 + (i \div 10), 48 + (i % 10)>>          \* "u00" .. "u39"
BigArr == Arr([i \in 1..40 |-> Str(U2(i - 1))])
BigObj == Obj([i \in 1..40 |-> Mem(U2(i - 1), JInt(i))])
BigStr == Str([i \in 1..40 |-> 97 + (i % 26)])
Vals == PoolCall \o <<BigArr, BigObj, BigStr, Str(U2(7)), Str(U2(39))>>
NV == Len(Vals)
Typed(f, i) == SelectSeq(Vals, LAMBDA v : v.t \in ArgTypes(f, i))
CapTo(s, k) == IF Len(s) <= k THEN s ELSE SubSeq(s, 1, k)
RefAlts == << <<AmpT, CurT>>, <<AmpT, LB, IntT(<<48>>), RB>>, <<AmpT, Id(<<97>>)>> >>

FnSeq == SetToSeq(FnNames)
Arities(f) == LET s == Sigs[f] IN { n \in 1..4 : n >= s.min /\ (IF s.max < 0 THEN n <= 3 ELSE n <= s.max) }
Insts == { <<fi, n, p>> : fi \in 1..Len(FnSeq), n \in 1..4, p \in 1..4 }
InstSeq == SetToSeq({ i \in Insts : i[2] \in Arities(FnSeq[i[1]]) /\ i[3] <= i[2] /\ i[3] \notin Sigs[FnSeq[i[1]]].refs })

VARIABLES bucket, idx
Init == bucket \in 1..Len(InstSeq) /\ idx = 0
Next == idx = 0 /\ idx' = 1 /\ UNCHANGED bucket
Spec == Init /\ [][Next]_<<bucket, idx>>

\* alternatives (token sequences) for position i when @ stands at position p
Alts(f, n, i, lv) ==
  IF i \in Sigs[f].refs THEN RefAlts
  ELSE LET tv == CapTo(Typed(f, i), IF n <= 2 THEN 40 ELSE 4)
       IN [k \in 1..Len(tv) |-> IF lv THEN <<VarT(<<36,108>>)>> ELSE <<Json(EncJSON(tv[k]))>>]
RECURSIVE Tuples(_, _, _, _)
\* all argument lists (sequences of token sequences) for positions i..n
Tuples(f, n, p, i) ==
  IF i > n THEN { <<>> }
  ELSE LET rest == Tuples(f, n, p, i + 1)
           here == IF i = p THEN { <<CurT>> } ELSE { Alts(f, n, i, FALSE)[k] : k \in 1..Len(Alts(f, n, i, FALSE)) }
       IN { <<h>> \o r : h \in here, r \in rest }
RECURSIVE Join(_, _)
Join(as, i) == IF i > Len(as) THEN <<>> ELSE (IF i > 1 THEN <<Comma>> ELSE <<>>) \o as[i] \o Join(as, i + 1)
CallT(f, as) == <<Id(f), LP>> \o Join(as, 1) \o <<RP>>

Check == idx > 0 =>
  LET f == FnSeq[InstSeq[bucket][1]]  n == InstSeq[bucket][2]  p == InstSeq[bucket][3]
      elems == Typed(f, p)
      doc == Arr(elems)
      calls == { CallT(f, as) : as \in Tuples(f, n, p, 1) }
      \* the first literal position (if any) bound through a variable
      litpos == { i \in 1..n : i # p /\ i \notin Sigs[f].refs }
      viaLet == IF litpos = {} THEN {}
                ELSE LET q == CHOOSE i \in litpos : \A j \in litpos : i <= j
                         tv == CapTo(Typed(f, q), 6)
                     IN { <<LetT, VarT(<<36,108>>), AssignT, Json(EncJSON(tv[k])), InT, LB, Star, RB, Dot>>
                          \o CallT(f, [i \in 1..n |-> IF i = p THEN <<CurT>> ELSE IF i = q THEN <<VarT(<<36,108>>)>>
                                                     ELSE Alts(f, n, i, FALSE)[1]]) : k \in 1..Len(tv) }
      overArr == { <<LB, Star, RB, Dot>> \o c : c \in calls }
                 \cup { <<Id(<<109,97,112>>), LP, AmpT>> \o c \o <<Comma, CurT, RP>> : c \in calls }
                 \cup viaLet
      some == CapTo(elems, 4)
      caseA == [p |-> Prop, kind |-> "search", doc |-> doc,
                multi |-> { [expr |-> Render(ts), adm |-> Admissible(ts, doc)] : ts \in overArr }]
      caseB(k) == [p |-> Prop, kind |-> "search", doc |-> some[k],
                   multi |-> { [expr |-> Render(ts), adm |-> Admissible(ts, some[k])] : ts \in calls }]
      \* property C03: the current node is a hostile Go value (not JSON, not finite, not UTF-8 ...) in
      \* every argument position of every function: nothing is claimed about the outcome but that the
      \* call returns and a returned error formats
      caseH(h) == [p |-> Prop, kind |-> "search", doc |-> JInt(1), carriers |-> <<Hostile[h]>>,
                   multi |-> { [expr |-> Render(ts), adm |-> {Open}] : ts \in calls }]
      \* applicative order: every argument is evaluated before the function is applied, so a failing
      \* argument fails the call whatever the other arguments are (the position of @ holds the failure)
      Subst(ts, ff) == LET RECURSIVE Go(_) Go(i) == IF i > Len(ts) THEN <<>> ELSE (IF ts[i] = CurT THEN ff ELSE <<ts[i]>>) \o Go(i + 1) IN Go(1)
      failing == { <<Id(<<97,98,115>>), LP, Raw(<<39,120,39>>), RP>>, <<VarT(<<36,117,110,100,101,102>>)>>, <<LP, Json(<<96,49,96>>), DivT, Json(<<96,48,96>>), RP>> }
      caseF == [p |-> Prop, kind |-> "search", doc |-> JInt(1),
                multi |-> { [expr |-> Render(Subst(c, ff)), adm |-> Admissible(Subst(c, ff), JInt(1))] : c \in calls, ff \in failing }]
  IN /\ Emit => PrintT("CASE " \o ToJson(caseF))
     /\ Named(\A c \in calls : \A o \in Admissible(Subst(c, <<VarT(<<36,117,110,100,101,102>>)>>), JInt(1)) : IsAny(o) \/ IsErr(o), "AFailingArgumentFailsTheCall")
     /\ (Emit /\ Prop = "C03") => \A h \in 1..Len(Hostile) : PrintT("CASE " \o ToJson(caseH(h)))
     /\ Emit => PrintT("CASE " \o ToJson(caseA))
     /\ Emit => \A k \in 1..Len(some) : PrintT("CASE " \o ToJson(caseB(k)))
     /\ Named(Len(elems) >= 2, "SeveralElements")
     \* a call on an element alone and inside the projection agree (when neither fails)
     /\ Named(\A c \in calls : \A k \in 1..Len(some) :
                LET alone == Admissible(c, some[k])
                    inproj == Admissible(<<LB, IntT(<<48>>), RB, Dot>> \o c, Arr(<<some[k]>>))
                \* (for a null element the selected form is a sub-expression on null: null, whatever the call does)
                IN some[k] = Null \/ alone = inproj \/ (\E o \in alone \cup inproj : IsAny(o)), "AloneEqualsProjected")
=============================================================================
