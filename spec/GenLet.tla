\* GENERATED from GenLet.tla.in by bin/tlapp -- edit the .in file
------------------------------ MODULE GenLet ------------------------------
(***************************************************************************)
(* let-expressions (property C19): nestings of let with shadowing,         *)
(* sibling bindings that mention each other, and variable references under *)
(* every context-changing construct (projection, filter predicate, pipe,   *)
(* multi-select, expression references of sort_by / map / max_by), plus    *)
(* references with no binding.  Oracle: Eval's environment semantics;      *)
(* model check: it agrees with the substitution semantics of Scope.tla on  *)
(* every generated expression and document.                                *)
(***************************************************************************)
EXTENDS JMES, Scope, Json, Toks, DocsLet, SequencesExt

CONSTANTS Emit, Prop, Depth
Docs == PoolLet

VX == VarT(<<36,120>>)  VY == VarT(<<36,121>>)
A == Id(<<97>>)  B == Id(<<98>>)

BindExprs == { <<A>>, <<CurT>>, <<Json(<<96,49,96>>)>>, <<VX>>, <<B, LB, IntT(<<48>>), RB>>, <<Json(<<96,110,117,108,108,96>>)>>, <<Json(<<96,102,97,108,115,101,96>>)>> }
Bind1 == { <<v, AssignT>> \o e : v \in {VX, VY}, e \in BindExprs }
Bind2 == { <<VX, AssignT>> \o e1 \o <<Comma, VY, AssignT>> \o e2 : e1 \in {<<A>>, <<Json(<<96,49,96>>)>>}, e2 \in {<<VX>>, <<B>>, <<A>>} }
         \cup { <<VX, AssignT, A, Comma, VX, AssignT, B>> }      \* duplicate name in one let
Binds == Bind1 \cup Bind2

\* bodies without a nested let: references under context-changing constructs
Body0 == {
  <<VX>>, <<VY>>, <<LB, VX, Comma, VY, RB>>,
  <<B, LB, Star, RB, Dot, LB, CurT, Comma, VX, RB>>,            \* projection
  <<B, Filt, CurT, EqT, VX, RB>>,                                \* filter predicate
  <<B, Filt, Id(<<97>>), EqT, VX, RB, Dot, LB, VX, RB>>,
  <<B, PipeT, LB, VX, Comma, CurT, RB>>,                         \* pipe
  <<LBr, Id(<<107>>), Colon, VX, Comma, Id(<<106>>), Colon, A, RBr>>,  \* multi-select hash
  <<Id(<<109,97,112>>), LP, AmpT, LB, VX, Comma, CurT, RB, Comma, B, RP>>,          \* expression references
  <<Id(<<115,111,114,116,95,98,121>>), LP, B, Comma, AmpT, VX, RP>>,
  <<Id(<<109,97,120,95,98,121>>), LP, B, Comma, AmpT, LP, CurT, EqT, VX, AndT, Json(<<96,49,96>>), OrT, Json(<<96,48,96>>), RP, RP>>,
  <<VX, Dot, Id(<<97>>)>>, <<VX, LB, IntT(<<48>>), RB>>, <<VX, OrT, VY>>, <<RootT, Dot, A, EqT, VX>> }

LetOf(bs, body) == <<LetT>> \o bs \o <<InT>> \o body
\* ways to place an inner let inside a body
Wrap(l) == { l,
             <<LB>> \o l \o <<Comma, VX, RB>>,                    \* binding must not leak: [let .. in .., $x]
             <<B, LB, Star, RB, Dot, LB>> \o l \o <<RB>> }        \* let inside a projection

InnerBinds == { <<VX, AssignT, Json(<<96,57,96>>)>>, <<VY, AssignT, VX>>, <<VX, AssignT, VX>>,
                <<VX, AssignT, CurT, Comma, VY, AssignT, VX>>,
                <<VX, AssignT, Json(<<96,110,117,108,108,96>>)>>,             \* shadowing by null is still shadowing
                <<VX, AssignT, Id(<<110,111,115,117,99,104>>)>>, <<VX, AssignT, Id(<<97>>)>> }   \* null / per-element values
InnerBody == { <<VX>>, <<LB, VX, Comma, VY, RB>>, <<B, LB, Star, RB, Dot, LB, VX, RB>> }
Lets1 == { LetOf(bs, b) : bs \in InnerBinds, b \in InnerBody }
Body1 == UNION { Wrap(l) : l \in Lets1 }

\* lets with many bindings (beyond any small-size fast path): ten bindings,
\* optionally one of them faulting at run time, and a body that refers to a
\* name of its own, of ANOTHER big let, or of an enclosing let
VN(pfx, i) == VarT(<<36, pfx, 48 + i>>)                       \* $b0 .. $b9, $c0 .. $c9
RECURSIVE BigBinds(_, _, _)
BigBinds(pfx, i, bad) ==
  IF i > 9 THEN <<>>
  ELSE (IF i > 0 THEN <<Comma>> ELSE <<>>)
       \o <<VN(pfx, i), AssignT>> \o (IF i = bad THEN <<Id(<<97,98,115>>), LP, Raw(<<39,120,39>>), RP>> ELSE <<Json(<<96, 48 + i, 96>>)>>)
       \o BigBinds(pfx, i + 1, bad)
BigLets == { LetOf(BigBinds(98, 0, bad), body) :
               bad \in {0 - 1, 3, 9},
               body \in { <<VN(98, 0)>>, <<LB, VN(98, 2), Comma, VN(98, 9), RB>>, <<VN(99, 0)>>, <<VN(99, 7)>> } }
           \cup { LetOf(BigBinds(99, 0, 0 - 1), body) : body \in { <<VN(98, 0)>>, <<VN(98, 5)>>, <<VN(99, 5)>>, <<VX>> } }
           \cup { LetOf(<<VX, AssignT, A>>, LetOf(BigBinds(99, 0, 0 - 1), <<LB, VX, Comma, VN(99, 1), RB>>)),
                  LetOf(<<VN(98, 5), AssignT, A>>, LetOf(BigBinds(99, 0, 0 - 1), <<VN(98, 5)>>)) }

\* depth 3: a let whose body places a depth-2 let under a projection / multi-select
InnerBinds2 == { <<VX, AssignT, Json(<<96,55,96>>)>>, <<VY, AssignT, VX>>, <<VX, AssignT, VY, Comma, VY, AssignT, VX>> }
Lets2 == { LetOf(bs, w) : bs \in InnerBinds2, w \in UNION { Wrap(l) : l \in { LetOf(b2, b) : b2 \in {<<VX, AssignT, Json(<<96,57,96>>)>>, <<VY, AssignT, VX>>, <<VX, AssignT, Json(<<96,110,117,108,108,96>>)>>}, b \in InnerBody } } }
Body2 == UNION { Wrap(l) : l \in Lets2 }

\* correlated sub-queries: inside an iteration a let binds something of the current element and a
\* filter / projection rooted at $ (or at an outer variable) uses it -- the same sub-expression node is
\* evaluated once per element with a different environment each time
Len1(e) == <<Id(<<108,101,110,103,116,104>>), LP>> \o e \o <<RP>>
RootB == <<RootT, Dot, B>>
Corr(src, key) == { Len1(src \o <<Filt>> \o key \o <<EqT, VX, RB>>),
                    src \o <<Filt>> \o key \o <<EqT, VX, RB, Dot>> \o (IF key = <<CurT>> THEN <<LB, CurT, RB>> ELSE key) \o <<PipeT, LB, IntT(<<48>>), RB>>,
                    src \o <<LB, Star, RB, Dot, LB>> \o key \o <<EqT, VX, RB>>,
                    Len1(src \o <<Filt>> \o key \o <<NeT, VX, RB>>) }
Joins == UNION { LET lets == { LetOf(<<VX, AssignT>> \o key, body) : body \in Corr(RootB, key) } IN
                 UNION { { <<B, LB, Star, RB, Dot, LB>> \o l \o <<RB>>,
                           <<B, LB, Star, RB, Dot, LBr, Id(<<107>>), Colon>> \o key \o <<Comma, Id(<<110>>), Colon>> \o l \o <<RBr>>,
                           <<Id(<<109,97,112>>), LP, AmpT, LP>> \o l \o <<RP, Comma, B, RP>>,
                           <<B, Flat, Dot, LB>> \o l \o <<RB>> } : l \in lets }
                 : key \in { <<Id(<<97>>)>>, <<CurT>> } }
         \cup { <<B, Filt>> \o LetOf(<<VX, AssignT, Id(<<97>>)>>, Len1(RootB \o <<Filt, Id(<<97>>), EqT, VX, RB>>)) \o <<GtT, Json(<<96,49,96>>), RB>>,
                <<Id(<<115,111,114,116,95,98,121>>), LP, B, Comma, AmpT, LP>> \o LetOf(<<VX, AssignT, Id(<<97>>)>>, Len1(RootB \o <<Filt, Id(<<97>>), EqT, VX, RB>>)) \o <<RP, RP, LB, Star, RB, Dot, Id(<<97>>)>>,
                LetOf(<<VY, AssignT, B>>, <<B, LB, Star, RB, Dot, LB>> \o LetOf(<<VX, AssignT, Id(<<97>>)>>, Len1(<<VY, Filt, Id(<<97>>), EqT, VX, RB>>)) \o <<RB>>),
                <<B, LB, Star, RB, Dot, LB>> \o LetOf(<<VX, AssignT, Id(<<97>>)>>,
                      RootB \o <<Filt, Id(<<97>>), EqT, VX, RB, Dot, LB>> \o LetOf(<<VY, AssignT, Id(<<97>>)>>, Len1(RootB \o <<Filt, Id(<<97>>), EqT, VY, AndT, Id(<<97>>), EqT, VX, RB>>)) \o <<RB>>) \o <<RB>> }

\* ... and a let whose VALUE is an expression-reference function over a path rooted at $, with a key
\* that reads a variable bound per element by an enclosing let (the binding looks constant, it is not)
VO == VarT(<<36,111>>)  VN2 == VarT(<<36,110>>)
Af == Id(<<97>>)
KeyAbs == <<Id(<<97,98,115>>), LP, Af, MinusT, VO, Dot, Af, RP>>                 \* abs(a - $o.a)
ByForms == { <<Id(<<109,105,110,95,98,121>>), LP>> \o RootB \o <<Comma, AmpT>> \o KeyAbs \o <<RP>>,
             <<Id(<<109,97,120,95,98,121>>), LP>> \o RootB \o <<Comma, AmpT>> \o KeyAbs \o <<RP>>,
             <<Id(<<115,111,114,116,95,98,121>>), LP>> \o RootB \o <<Comma, AmpT>> \o KeyAbs \o <<RP, LB, IntT(<<48>>), RB>>,
             <<Id(<<115,111,114,116,95,98,121>>), LP>> \o RootB \o <<Comma, AmpT>> \o KeyAbs \o <<RP, LB, IntT(<<45,49>>), RB>>,
             <<Id(<<109,97,112>>), LP, AmpT, LP, Af, PlusT, VO, Dot, Af, RP, Comma>> \o RootB \o <<RP>>,
             <<Id(<<103,114,111,117,112,95,98,121>>), LP>> \o RootB \o <<Comma, AmpT, Id(<<116,111,95,115,116,114,105,110,103>>), LP, Af, EqT, VO, Dot, Af, RP, RP>> }
ByJoins == UNION { { <<B, LB, Star, RB, Dot, LB>> \o LetOf(<<VO, AssignT, CurT>>, LetOf(<<VN2, AssignT>> \o f, <<VN2>>)) \o <<RB>>,
                     <<B, LB, Star, RB, Dot, LB>> \o LetOf(<<VO, AssignT, CurT>>, LetOf(<<VN2, AssignT>> \o f, <<LB, VO, Dot, Af, Comma, VN2, RB>>)) \o <<RB>>,
                     <<Id(<<109,97,112>>), LP, AmpT, LP>> \o LetOf(<<VO, AssignT, CurT>>, LetOf(<<VN2, AssignT>> \o f, <<VN2>>)) \o <<RP, Comma, B, RP>>,
                     <<B, LB, Star, RB, Dot, LB>> \o LetOf(<<VO, AssignT, CurT, Comma, VN2, AssignT, Json(<<96,48,96>>)>>, LetOf(<<VN2, AssignT>> \o f, <<VN2>>)) \o <<RB>> }
                   : f \in ByForms }

\* Every way in which a binding can READ ITS CONTEXT, as the only context-reader of a let that is evaluated once
\* per element of an iteration (C19: "evaluated ... in the context and scope where the let stands"): a binding
\* that looks constant to an implementation, because the leaf through which it reads the current node was
\* overlooked, keeps the value of the first element
Fn1(name, args) == <<Id(name), LP>> \o args \o <<RP>>
Readers == { <<CurT>>, <<A>>, <<LB, IntT(<<48>>), RB>>, <<LB, IntT(<<45,49>>), RB>>, <<LB, Star, RB>>, <<Flat>>, <<LB, Colon, IntT(<<49>>), RB>>,
             <<LB, Colon, Colon, IntT(<<45,49>>), RB>>, <<Filt, CurT, RB>>, <<Star>>, Fn1(<<116,121,112,101>>, <<CurT>>), Fn1(<<116,111,95,97,114,114,97,121>>, <<CurT>>),
             Fn1(<<108,101,110,103,116,104>>, <<Flat>>), Fn1(<<116,111,95,97,114,114,97,121>>, <<Flat>>), <<Flat, OrT, Json(<<96,49,96>>)>>, <<LBr, Id(<<107>>), Colon, Flat, RBr>>,
             <<LB, Flat, RB>>, <<Flat, Flat>>, <<LB, Star, RB, LB, IntT(<<48>>), RB>>, <<Flat, LB, IntT(<<48>>), RB>>, Fn1(<<110,111,116,95,110,117,108,108>>, <<Flat>>),
             <<LB, LB, IntT(<<48>>), RB, Comma, LB, IntT(<<45,49>>), RB, RB>>, <<LBr, Id(<<107>>), Colon, LB, Star, RB, RBr>>,
             Fn1(<<108,101,110,103,116,104>>, <<LB, Star, RB>>), Fn1(<<116,121,112,101>>, <<Star>>), <<Star, Flat>>, <<LB, Star, RB, Flat>>, <<CurT, EqT, Json(<<96,91,49,93,96>>)>>, <<NotT, Flat>> }
ReadLet(r) == LetOf(<<VX, AssignT>> \o r, <<VX>>)
PerElement(l) == { <<B, LB, Star, RB, Dot, LB>> \o l \o <<RB>>,
                   <<B, LB, Star, RB, Dot, LBr, Id(<<107>>), Colon>> \o l \o <<RBr>>,
                   <<Id(<<109,97,112>>), LP, AmpT, LP>> \o l \o <<RP, Comma, B, RP>>,
                   <<B, Flat, Dot, LB>> \o l \o <<RB>>,
                   <<B, Filt>> \o l \o <<RB>>,
                   <<LB, B, LB, IntT(<<48>>), RB, PipeT, LP>> \o l \o <<RP, Comma, B, LB, IntT(<<45,49>>), RB, PipeT, LP>> \o l \o <<RP, RB>> }
ReadExprs == UNION { PerElement(ReadLet(r)) : r \in Readers }
\* Sibling bindings that refer to a name bound ONLY by a sibling -- unbound, or bound two lets further out --
\* under a parent let that binds other names (bindings of one let do not see each other, whatever encloses it)
VZ == VarT(<<36,122>>)
SibInner == { <<VZ, AssignT, Json(<<96,57,96>>), Comma, VY, AssignT, VZ>>, <<VY, AssignT, VZ, Comma, VZ, AssignT, Json(<<96,57,96>>)>>,
              <<VZ, AssignT, B, Comma, VY, AssignT, VZ, Comma, VX, AssignT, VY>> }
SibBodies == { <<VY>>, <<LB, VX, Comma, VY, Comma, VZ, RB>>, <<VZ>> }
SibExprs == UNION { { LetOf(<<VX, AssignT, A>>, LetOf(ib, bd)),
                      LetOf(<<VZ, AssignT, Json(<<96,49,96>>)>>, LetOf(<<VX, AssignT, A>>, LetOf(ib, bd))),
                      LetOf(<<VZ, AssignT, Json(<<96,49,96>>)>>, <<LB>> \o LetOf(<<VX, AssignT, A>>, LetOf(ib, bd)) \o <<Comma, VZ, RB>>),
                      <<B, LB, Star, RB, Dot, LB>> \o LetOf(<<VX, AssignT, CurT>>, LetOf(ib, bd)) \o <<RB>> } : ib \in SibInner, bd \in SibBodies }

Exprs == { LetOf(bs, b) : bs \in Binds, b \in Body0 } \cup BigLets \cup Joins \cup ByJoins \cup ReadExprs \cup SibExprs
         \cup (IF Depth >= 2 THEN { LetOf(bs, b) : bs \in Binds, b \in Body1 } ELSE {})
         \cup (IF Depth >= 3 THEN { LetOf(bs, b) : bs \in {<<VX, AssignT, A>>, <<VY, AssignT, B, Comma, VX, AssignT, Json(<<96,49,96>>)>>, <<VX, AssignT, Json(<<96,110,117,108,108,96>>)>>}, b \in Body2 } ELSE {})
         \cup Body0                                              \* no enclosing binding: undefined variable
ExprSeq == SetToSeq(Exprs)

VARIABLES bucket, idx
NB == 64
Init == bucket \in 0..(NB - 1) /\ idx = 0
Next == idx = 0 /\ \E i \in 1..Len(ExprSeq) : i % NB = bucket /\ idx' = i /\ UNCHANGED bucket
Spec == Init /\ [][Next]_<<bucket, idx>>

Check == idx > 0 =>
  LET ts    == ExprSeq[idx]
      comps == Compilations(ts)
      adms  == [d \in 1..Len(Docs) |-> { OutcomeOf(c, Docs[d]) : c \in comps }]
      case  == [p |-> Prop, kind |-> "search", expr |-> Render(ts), pool |-> "Let", adms |-> adms]
  IN /\ Emit => PrintT("CASE " \o ToJson(case))
     /\ Named(\A c \in comps : c.ok, "Parses")
     \* environment semantics = substitution semantics
     /\ Named(\A c \in comps : \A d \in 1..Len(Docs) :
                 LET e == Eval(c.n, Docs[d], Docs[d], EmptyEnv)
                     s == EvalS(c.n, Docs[d], Docs[d])
                 IN IsAny(e) \/ IsAny(s) \/ e = s, "EnvEqualsSubstitution")
=============================================================================
