\* GENERATED from GenStr.tla.in by bin/tlapp -- edit the .in file
------------------------------ MODULE GenStr ------------------------------
(***************************************************************************)
(* Unicode strings (property C11).  The machine builds a string one symbol *)
(* at a time over a six-symbol alphabet of 1- to 4-byte code points        *)
(* (a, e-acute, combining acute, euro, U+FFFD, an emoji -- in code point   *)
(* order); every state is evaluated under a family of string operations.   *)
(* In the specification strings ARE code-point sequences, so a byte-       *)
(* indexed semantics cannot be expressed; the real code is compared with   *)
(* it.  Model check: the renaming homomorphism -- evaluating the same      *)
(* family on the ASCII pre-image a..f of the string and renaming the       *)
(* result gives the same outcome (order-preserving renaming).              *)
(***************************************************************************)
EXTENDS JMES, Json, Toks

CONSTANTS Emit, Prop, MaxLen

AL == <<97, 233, 769, 8364, 65533, 128512>>      \* increasing code points
AS == <<97, 98, 99, 100, 101, 102>>              \* the ASCII pre-image

VARIABLE s        \* sequence of symbol indices 1..6
Init == s = <<>>
Next == Len(s) < MaxLen /\ \E c \in 1..6 : s' = Append(s, c)
Spec == Init /\ [][Next]_s

Real(al, q) == [i \in 1..Len(q) |-> al[q[i]]]
StrTok(al, q) == Raw(EncRaw(Real(al, q)))
NumTok(n) == Json(<<96>> \o (IF n < 0 THEN <<45>> ELSE <<>>) \o IntDigits(AbsI(n)) \o <<96>>)
S == Id(<<115>>)
Fn(name, args) == <<Id(name), LP>> \o args \o <<RP>>
Sep(xs) == LET RECURSIVE J(_) J(i) == IF i > Len(xs) THEN <<>> ELSE (IF i > 1 THEN <<Comma>> ELSE <<>>) \o xs[i] \o J(i + 1) IN J(1)

\* the family of expressions, for an alphabet al
Family(al) ==
  LET ch(c) == <<StrTok(al, <<c>>)>> IN
  { Fn(<<108,101,110,103,116,104>>, <<S>>), Fn(<<114,101,118,101,114,115,101>>, <<S>>),
    <<S, LB, Colon, Colon, IntT(<<45,49>>), RB>>, <<S, LB, IntT(<<49>>), Colon, RB>>,
    <<S, LB, Colon, IntT(<<45,49>>), RB>>, <<S, LB, Colon, Colon, IntT(<<50>>), RB>>,
    <<S, LB, IntT(<<49>>), Colon, IntT(<<51>>), RB>>, <<S, LB, IntT(<<45,50>>), Colon, RB>>,
    <<S, LB, IntT(<<45,49>>), Colon, Colon, IntT(<<45,50>>), RB>>,
    Fn(<<115,112,108,105,116>>, Sep(<<<<S>>, <<StrTok(al, <<>>)>>>>)),
    Fn(<<115,112,108,105,116>>, Sep(<<<<S>>, <<StrTok(al, <<>>)>>, <<NumTok(1)>>>>)),
    Fn(<<115,112,108,105,116>>, Sep(<<<<S>>, <<StrTok(al, <<>>)>>, <<NumTok(2)>>>>)),
    Fn(<<115,111,114,116>>, <<LB, S, Comma, StrTok(al, <<2>>), Comma, StrTok(al, <<5, 1>>), Comma, StrTok(al, <<1, 6>>), RB>>),
    Fn(<<109,97,120>>, <<LB, S, Comma, StrTok(al, <<3>>), RB>>), Fn(<<109,105,110>>, <<LB, S, Comma, StrTok(al, <<3>>), RB>>),
    Fn(<<115,111,114,116,95,98,121>>, <<LB, LBr, Id(<<107>>), Colon, S, RBr, Comma, LBr, Id(<<107>>), Colon, StrTok(al, <<4>>), RBr, Comma,
                     LBr, Id(<<107>>), Colon, StrTok(al, <<2, 2>>), RBr, RB, Comma, AmpT, Id(<<107>>)>>),
    Fn(<<109,97,120,95,98,121>>, <<LB, LBr, Id(<<107>>), Colon, S, RBr, Comma, LBr, Id(<<107>>), Colon, StrTok(al, <<4>>), RBr, RB, Comma, AmpT, Id(<<107>>)>>),
    Fn(<<106,111,105,110>>, Sep(<<<<S>>, <<LB, StrTok(al, <<1>>), Comma, StrTok(al, <<6>>), Comma, StrTok(al, <<2>>), RB>>>>)),
    Fn(<<116,111,95,97,114,114,97,121>>, <<S>>), <<S, EqT, StrTok(al, <<2, 4>>)>>, Fn(<<116,121,112,101>>, <<S>>),
    <<LBr, Id(<<107>>), Colon, S, RBr, Dot, Id(<<107>>)>> }
  \cup UNION { {
    Fn(<<102,105,110,100,95,102,105,114,115,116>>, Sep(<<<<S>>, ch(c)>>)), Fn(<<102,105,110,100,95,108,97,115,116>>, Sep(<<<<S>>, ch(c)>>)),
    Fn(<<102,105,110,100,95,102,105,114,115,116>>, Sep(<<<<S>>, ch(c), <<NumTok(1)>>>>)), Fn(<<102,105,110,100,95,108,97,115,116>>, Sep(<<<<S>>, ch(c), <<NumTok(1)>>>>)),
    Fn(<<102,105,110,100,95,102,105,114,115,116>>, Sep(<<<<S>>, ch(c), <<NumTok(0)>>, <<NumTok(2)>>>>)),
    Fn(<<102,105,110,100,95,108,97,115,116>>, Sep(<<<<S>>, ch(c), <<NumTok(1)>>, <<NumTok(3)>>>>)),
    Fn(<<102,105,110,100,95,102,105,114,115,116>>, Sep(<<<<S>>, <<StrTok(al, <<c, 1>>)>>>>)),
    Fn(<<99,111,110,116,97,105,110,115>>, Sep(<<<<S>>, ch(c)>>)), Fn(<<115,116,97,114,116,115,95,119,105,116,104>>, Sep(<<<<S>>, ch(c)>>)),
    Fn(<<101,110,100,115,95,119,105,116,104>>, Sep(<<<<S>>, ch(c)>>)),
    Fn(<<115,112,108,105,116>>, Sep(<<<<S>>, ch(c)>>)), Fn(<<115,112,108,105,116>>, Sep(<<<<S>>, ch(c), <<NumTok(1)>>>>)),
    Fn(<<114,101,112,108,97,99,101>>, Sep(<<<<S>>, ch(c), <<StrTok(al, <<2>>)>>>>)),
    Fn(<<114,101,112,108,97,99,101>>, Sep(<<<<S>>, ch(c), <<StrTok(al, <<>>)>>, <<NumTok(1)>>>>)),
    Fn(<<116,114,105,109>>, Sep(<<<<S>>, ch(c)>>)), Fn(<<116,114,105,109,95,108,101,102,116>>, Sep(<<<<S>>, <<StrTok(al, <<c, 1>>)>>>>)),
    Fn(<<116,114,105,109,95,114,105,103,104,116>>, Sep(<<<<S>>, ch(c)>>)),
    Fn(<<112,97,100,95,108,101,102,116>>, Sep(<<<<S>>, <<NumTok(3)>>, ch(c)>>)), Fn(<<112,97,100,95,114,105,103,104,116>>, Sep(<<<<S>>, <<NumTok(4)>>, ch(c)>>)),
    Fn(<<112,97,100,95,108,101,102,116>>, Sep(<<<<S>>, <<NumTok(2)>>, <<StrTok(al, <<c, c>>)>>>>)),
    \* widths beyond any internal buffer or block size
    Fn(<<112,97,100,95,108,101,102,116>>, Sep(<<<<S>>, <<NumTok(100)>>, ch(c)>>)), Fn(<<112,97,100,95,114,105,103,104,116>>, Sep(<<<<S>>, <<NumTok(300)>>, ch(c)>>)),
    Fn(<<108,101,110,103,116,104>>, Fn(<<112,97,100,95,114,105,103,104,116>>, Sep(<<<<S>>, <<NumTok(257)>>, ch(c)>>)))
    } : c \in 1..6 }
  \cup { Fn(<<112,97,100,95,108,101,102,116>>, Sep(<<<<S>>, <<NumTok(w)>>>>)) : w \in 0..5 }
  \cup { Fn(<<112,97,100,95,114,105,103,104,116>>, Sep(<<<<S>>, <<NumTok(w)>>>>)) : w \in 0..5 }

\* renaming of results: code point al[i] <-> as[i]
Ren(c) == IF \E i \in 1..6 : AS[i] = c THEN AL[CHOOSE i \in 1..6 : AS[i] = c] ELSE c
RECURSIVE RenV(_)
RenV(v) == CASE v.t = "str" -> Str([i \in 1..Len(v.s) |-> Ren(v.s[i])])
             [] v.t = "arr" -> ArrU([i \in 1..Len(v.a) |-> RenV(v.a[i])], v.u)
             [] v.t = "obj" -> ObjRaw([i \in 1..Len(v.o) |-> Mem(v.o[i].k, RenV(v.o[i].v))])
             [] OTHER -> v

DocOf(al) == Obj(<<Mem(<<115>>, Str(Real(al, s)))>>)
Check ==
  LET doc   == DocOf(AL)
      cases == { [expr |-> Render(e), adm |-> Admissible(e, doc)] : e \in Family(AL) }
      case  == [p |-> Prop, kind |-> "search", doc |-> doc, multi |-> cases]
      docA  == DocOf(AS)
      \* outcomes as multisets are awkward; compare the SET of outcomes of the
      \* whole family (renamed) -- equal families give equal sets
      outR  == { Admissible(e, doc) : e \in Family(AL) }
      outA  == { { IF IsVal(o) THEN RenV(o) ELSE o : o \in Admissible(e, docA) } : e \in Family(AS) }
  IN /\ Emit => PrintT("CASE " \o ToJson(case))
     /\ Named(outR = outA, "RenamingHomomorphism")
     /\ Named(\A c \in cases : \A o \in c.adm : ~IsErr(o) \/ o.cs \subseteq {"invalid-value"}, "NoTypeErrors")
=============================================================================
