SPECIFICATION Spec
CONSTANTS
  Emit = FALSE
  Prop = "C12"
  MaxK = 26
INVARIANTS
  Check
CHECK_DEADLOCK FALSE
