SPECIFICATION Spec
CONSTANTS
  Emit = FALSE
  Prop = "C17"
INVARIANTS
  Check
CHECK_DEADLOCK FALSE
