SPECIFICATION Spec
CONSTANTS
  Emit = FALSE
  Prop = "C14"
  Big = FALSE
  KindsA = {"json"}
  KindsB = {"json"}
INVARIANTS
  Check
CHECK_DEADLOCK FALSE
