--------------------------- MODULE SliceLemmas ---------------------------
(* TLC-checked lemmas about Slice.tla on every small instance:             *)
(*   AgreeLemma  the clamp-and-walk algorithm visits exactly the indices   *)
(*               of the set-comprehension definition, monotonically        *)
(*   HugeLemma   any magnitude beyond the length behaves like length + 1   *)
(*               (justifies the sentinel used for 64-bit magnitudes)       *)
EXTENDS Slice, TLC
CONSTANTS MaxLen, Range
VARIABLES len, sl
P(v) == [p |-> TRUE, v |-> v]
Absent == [p |-> FALSE, v |-> 0]
Parts == {Absent} \cup {P(v) : v \in (0 - Range)..Range} \cup {P(1000000000), P(0 - 1000000000)}
Init == len \in 0..MaxLen /\ sl \in {<<a, b, c>> : a \in Parts, b \in Parts, c \in Parts}
Next == UNCHANGED <<len, sl>>
Spec == Init /\ [][Next]_<<len, sl>>
Lemmas == AgreeLemma(len, sl) /\ HugeLemma(len, sl)
=============================================================================
