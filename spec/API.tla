\* GENERATED from API.tla.in by bin/tlapp -- edit the .in file
------------------------------- MODULE API -------------------------------
(***************************************************************************)
(* The library's public API as a state machine (properties C06, C18, C08). *)
(*                                                                         *)
(*   hs     handles: sequence of texts that were compiled successfully     *)
(*   docs   documents the caller holds (the pool, plus results fed back)   *)
(*   calls  the history: one record per completed public call with the     *)
(*          set of admissible outcomes the specification assigns to it     *)
(*                                                                         *)
(* Actions: DoCompile(t), DoMustCompile(t), OneShot(t, d), ExprSearch(h, d),   *)
(* FeedBack(c) -- the value returned by call c becomes a new document.     *)
(* The outcome of a search is a function of (text, document) ALONE: that   *)
(* is the design-level statement of purity, and the invariants below are   *)
(* its consequences.  The harness replays every reachable history into the *)
(* real Compile / MustCompile / Search / Expression.Search, with deep      *)
(* snapshots of every document (including spare slice capacity) and every  *)
(* earlier result taken before each call.                                  *)
(***************************************************************************)
EXTENDS JMES, Json, Toks, DocsApi

CONSTANTS Emit, Prop, MaxCalls, MaxDocs, NTexts, NPool, TextSel   \* texts used: TextSel \cap 1..NTexts

VARIABLES hs, docs, calls
vars == <<hs, docs, calls>>

A == Id(<<97>>)  B == Id(<<98>>)
Fn(name, args) == <<Id(name), LP>> \o args \o <<RP>>
\* every function that reorders or rebuilds an array, applied to every kind of
\* sub-expression whose result may share memory with the caller's data or
\* with the AST (wildcard without nulls, slices, flatten, pipes, variables,
\* multi-select round trips, boolean operators, literals)
Sources == << <<A>>, <<A, LB, Star, RB>>, <<A, Flat>>, <<A, LB, IntT(<<48>>), Colon, RB>>, <<A, LB, Colon, Colon, IntT(<<49>>), RB>>,
              <<CurT, Dot, A>>, <<RootT, Dot, A>>, <<A, OrT, A>>, <<A, AndT, A>>, Fn(<<110,111,116,95,110,117,108,108>>, <<A>>), Fn(<<116,111,95,97,114,114,97,121>>, <<A>>),
              <<LB, A, RB, LB, IntT(<<48>>), RB>>, <<LBr, Id(<<107>>), Colon, A, RBr, Dot, Id(<<107>>)>>, <<A, PipeT, CurT>>,
              <<Json(<<96,91,51,44,49,44,50,93,96>>)>>, <<A, Filt, Json(<<96,116,114,117,101,96>>), RB>>, <<LP, A, RP>>,
              \* a slice of a STRING is not a projection: its right-hand side is evaluated once
              <<Id(<<115>>), LB, Colon, IntT(<<50>>), RB, Dot>> \o Fn(<<110,111,116,95,110,117,108,108>>, <<RootT, Dot, A>>),
              Fn(<<110,111,116,95,110,117,108,108>>, <<Id(<<110,111,115,117,99,104>>), Comma, A>>), <<B, Dot, Id(<<107>>)>>, <<A, PipeT>> \o Fn(<<110,111,116,95,110,117,108,108>>, <<CurT>>),
              Fn(<<109,97,112>>, <<AmpT, CurT, Comma, LB, A, RB>>) \o <<LB, IntT(<<48>>), RB>>, Fn(<<118,97,108,117,101,115>>, <<LBr, Id(<<107>>), Colon, A, RBr>>) \o <<LB, IntT(<<48>>), RB>>,
              \* the caller's array selected at run time next to a freshly built one
              <<A, OrT>> \o Fn(<<107,101,121,115>>, <<B>>), Fn(<<107,101,121,115>>, <<B>>) \o <<AndT, A>>, <<Json(<<96,91,93,96>>), OrT, A>>, <<A, Filt, Json(<<96,102,97,108,115,101,96>>), RB, OrT, A>>,
              Fn(<<110,111,116,95,110,117,108,108>>, <<A, Comma>> \o Fn(<<107,101,121,115>>, <<B>>)), <<LB>> \o Fn(<<107,101,121,115>>, <<B>>) \o <<Comma, A, RB, LB, IntT(<<49>>), RB>>,
              <<LP, A, OrT, A, LB, Star, RB, RP>>, <<A, PipeT, LP, CurT, OrT>> \o Fn(<<107,101,121,115>>, <<RootT, Dot, B>>) \o <<RP>>,
              <<LetT, VarT(<<36,119>>), AssignT, A, InT, LP, VarT(<<36,119>>), OrT>> \o Fn(<<107,101,121,115>>, <<B>>) \o <<RP>> >>
MutFns == << <<115,111,114,116>>, <<114,101,118,101,114,115,101>> >>
\* a reordering function applied to the result of another one (round 11, seed C15-j: sort returns its input
\* when that is already ordered, reverse works in place on "a fresh array"): every ordered pair over sources
\* that hand the caller's array on, and the same array read a second time next to it; the pool holds an
\* ascending and a descending document for them
Sources2 == << <<A>>, <<A, LB, Star, RB>>, Fn(<<116,111,95,97,114,114,97,121>>, <<A>>), <<A, OrT, A>>, <<Json(<<96,91,49,44,50,44,51,93,96>>)>> >>
Mutators2 == [i \in 1..(Len(Sources2) * 4) |->
                LET src == Sources2[((i - 1) \div 4) + 1]
                    f == MutFns[(((i - 1) % 4) \div 2) + 1]  g == MutFns[((i - 1) % 2) + 1] IN Fn(f, Fn(g, src))]
             \o << Fn(<<114,101,118,101,114,115,101>>, Fn(<<115,111,114,116,95,98,121>>, <<A, Comma, AmpT>> \o Fn(<<116,111,95,115,116,114,105,110,103>>, <<CurT>>))),
                   <<LB, A, LB, IntT(<<48>>), RB, Comma>> \o Fn(<<114,101,118,101,114,115,101>>, Fn(<<115,111,114,116>>, <<A>>)) \o <<Comma, A, LB, IntT(<<48>>), RB, RB>>,
                   <<LetT, VarT(<<36,118>>), AssignT, A, InT, LB, VarT(<<36,118>>), LB, IntT(<<48>>), RB, Comma>> \o Fn(<<114,101,118,101,114,115,101>>, Fn(<<115,111,114,116>>, <<VarT(<<36,118>>)>>)) \o <<Comma, VarT(<<36,118>>), RB>>,
                   <<LetT, VarT(<<36,118>>), AssignT, Json(<<96,91,49,44,50,44,51,93,96>>), InT, LB, VarT(<<36,118>>), LB, IntT(<<48>>), RB, Comma>> \o Fn(<<114,101,118,101,114,115,101>>, Fn(<<115,111,114,116>>, <<VarT(<<36,118>>)>>)) \o <<RB>> >>
Mutators == [i \in 1..(Len(Sources) * 2) |->
               LET src == Sources[((i - 1) \div 2) + 1]  f == MutFns[((i - 1) % 2) + 1] IN Fn(f, src)]
            \o [i \in 1..Len(Sources) |-> Fn(<<115,111,114,116,95,98,121>>, Sources[i] \o <<Comma, AmpT>> \o Fn(<<116,111,95,115,116,114,105,110,103>>, <<CurT>>))]
            \o Mutators2
            \o << <<LetT, VarT(<<36,118>>), AssignT, A, InT>> \o Fn(<<115,111,114,116>>, <<VarT(<<36,118>>)>>),
                  <<LetT, VarT(<<36,118>>), AssignT, A, LB, Star, RB, InT, LB>> \o Fn(<<114,101,118,101,114,115,101>>, <<VarT(<<36,118>>)>>) \o <<Comma, VarT(<<36,118>>), RB>> >>

\* the same text with characters around it that are blanks elsewhere but NOT
\* JMESPath white space (vertical tab, form feed, NEL, no-break space): these
\* are syntax errors, whatever was searched before
Junk(c) == Tok("junk", <<c>>, FALSE)
SpaceVariants == << <<A>>, <<A, Junk(160)>>, <<Junk(11), A>>, <<A, Junk(133)>>, <<A, Junk(12)>>, <<Junk(8232), A, Junk(8195)>>,
                    <<A, Tok("dot", <<46>>, TRUE), Tok("id", <<98>>, TRUE)>>, <<A, Dot, Id(<<98>>)>> >>

\* expressions chosen for what could go wrong behind the API: literals
\* returned by reference from the AST, in-place sorts and reversals, slices
\* that alias the input, merges, let, and statically faulty texts
Texts == <<
  <<Json(<<96,91,51,44,49,44,50,93,96>>)>>,
  Fn(<<115,111,114,116>>, <<CurT>>),
  Fn(<<115,111,114,116>>, <<A>>),
  Fn(<<114,101,118,101,114,115,101>>, <<A>>),
  <<A, LB, IntT(<<49>>), Colon, RB>>,
  Fn(<<115,111,114,116,95,98,121>>, <<A, Comma, AmpT, Id(<<107>>)>>),
  Fn(<<109,101,114,103,101>>, <<B, Comma, Json(<<96,123,34,107,34,58,91,57,93,125,96>>)>>),
  <<LetT, VarT(<<36,120>>), AssignT, A, InT, LB, VarT(<<36,120>>), Comma>> \o Fn(<<114,101,118,101,114,115,101>>, <<VarT(<<36,120>>)>>) \o <<RB>>,
  Fn(<<97,98,115>>, <<A, Comma, A>>),                        \* static fault: arity
  <<A, Dot>>,                                         \* static fault: syntax
  <<Json(<<96,123,34,107,34,58,91,50,44,49,93,125,96>>), Dot, Id(<<107>>)>>,
  Fn(<<109,97,120,95,98,121>>, <<A, Comma, AmpT, Id(<<107>>)>>),
  <<A, Flat>>, Fn(<<116,111,95,97,114,114,97,121>>, <<CurT>>), Fn(<<110,111,115,117,99,104>>, <<A>>), <<CurT>> >>
  \o Mutators \o SpaceVariants


AllSel == 1..Len(Texts)
SpaceSel == (Len(Texts) - Len(SpaceVariants) + 1)..Len(Texts)
MutSel == (Len(Texts) - Len(SpaceVariants) - Len(Mutators) + 1)..(Len(Texts) - Len(SpaceVariants))
Init == hs = <<>> /\ docs = SubSeq(PoolApi, 1, NPool) /\ calls = <<>>    \* the first NPool pool documents

Static(t) == StaticAdmissible(Texts[t])
Pinned1(S) == Cardinality(S) = 1 /\ \A o \in S : IsVal(o) /\ ~HasU(o)

Rec(op, t, h, d, out) == [op |-> op, t |-> t, h |-> h, d |-> d, out |-> out]
More == Len(calls) < MaxCalls

DoCompile(t) ==
  /\ More
  /\ calls' = Append(calls, Rec("compile", t, 0, 0, Static(t)))
  /\ hs' = IF \A o \in Static(t) : o.ok THEN Append(hs, t) ELSE hs
  /\ UNCHANGED docs
DoMustCompile(t) ==
  /\ More
  /\ calls' = Append(calls, Rec("mustcompile", t, 0, 0, Static(t)))
  /\ UNCHANGED <<hs, docs>>
OneShot(t, d) ==
  /\ More
  /\ calls' = Append(calls, Rec("search", t, 0, d, Admissible(Texts[t], docs[d])))
  /\ UNCHANGED <<hs, docs>>
ExprSearch(h, d) ==
  /\ More
  /\ calls' = Append(calls, Rec("exprsearch", hs[h], h, d, Admissible(Texts[hs[h]], docs[d])))
  /\ UNCHANGED <<hs, docs>>
FeedBack(c) ==
  /\ More /\ Len(docs) < MaxDocs
  /\ calls[c].op \in {"search", "exprsearch"} /\ Pinned1(calls[c].out)
  /\ docs' = Append(docs, CHOOSE v \in calls[c].out : TRUE)
  /\ calls' = Append(calls, Rec("feedback", 0, 0, c, {}))
  /\ UNCHANGED hs

TS == TextSel \cap (1..NTexts)
Next == \/ \E t \in TS : DoCompile(t) \/ DoMustCompile(t)
        \/ \E t \in TS, d \in 1..Len(docs) : OneShot(t, d)
        \/ \E h \in 1..Len(hs), d \in 1..Len(docs) : ExprSearch(h, d)
        \/ \E c \in 1..Len(calls) : FeedBack(c)
Spec == Init /\ [][Next]_vars

\* ---- properties of the design ---------------------------------------------
\* documents and handles are never changed by a call, only added
Immutable == [][ /\ \A d \in 1..Len(docs) : docs'[d] = docs[d]
                 /\ \A h \in 1..Len(hs) : hs'[h] = hs[h] ]_vars
\* every search outcome is what a fresh evaluation of the same text on the
\* same document gives, whatever happened before (C06)
\* (stated for the call that was just appended: the earlier ones were checked
\* in the predecessor state, and Immutable says they cannot have changed)
Pure == LET c == Len(calls) IN
        (c > 0 /\ calls[c].op \in {"search", "exprsearch"}) =>
            calls[c].out = Admissible(Texts[calls[c].t], docs[calls[c].d])
\* a compiled expression never reports a static fault (C08)
StaticAtCompile == \A c \in 1..Len(calls) :
          calls[c].op = "exprsearch" =>
            \A o \in calls[c].out : ~(IsErr(o) /\ o.cs \cap {"syntax", "invalid-arity", "unknown-function"} # {})
\* static faults do not depend on the document (C08)
StaticIgnoresDoc == \A c1, c2 \in 1..Len(calls) :
          (calls[c1].op = "search" /\ calls[c2].op = "search" /\ calls[c1].t = calls[c2].t
           /\ \E o \in Static(calls[c1].t) : ~o.ok /\ Cardinality(Static(calls[c1].t)) = 1)
          => calls[c1].out = calls[c2].out
\* results are JSON values and may be used as documents (C18)
Closed == \A d \in 1..Len(docs) : IsJValue(docs[d])

Named2(ok, name) == ok \/ ~PrintT("MODELFAIL " \o name)
Check ==
  LET case == [p |-> Prop, kind |-> "hist", pool |-> "Api", npool |-> NPool,
               texts |-> [t \in 1..(IF NTexts < Len(Texts) THEN NTexts ELSE Len(Texts)) |-> Render(Texts[t])],
               steps |-> [c \in 1..Len(calls) |->
                            [op |-> calls[c].op, t |-> calls[c].t, h |-> calls[c].h, d |-> calls[c].d,
                             adm |-> IF calls[c].op \in {"compile", "mustcompile"} THEN {} ELSE calls[c].out,
                             sadm |-> IF calls[c].op \in {"compile", "mustcompile"} THEN calls[c].out ELSE {}]]]
  IN /\ (Emit /\ Len(calls) > 0) => PrintT("CASE " \o ToJson(case))
     /\ Named2(Pure, "Pure") /\ Named2(StaticAtCompile, "StaticAtCompile")
     /\ Named2(StaticIgnoresDoc, "StaticIgnoresDoc") /\ Named2(Closed, "Closed")
=============================================================================
