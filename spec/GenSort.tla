\* GENERATED from GenSort.tla.in by bin/tlapp -- edit the .in file
----------------------------- MODULE GenSort -----------------------------
(***************************************************************************)
(* Ordering and stability (property C13).  Arrays of records {k: key,      *)
(* p: unique payload} given by (length, key pattern, key kind); sort_by,   *)
(* min_by, max_by on them and sort, min, max on the keys.  The oracle is   *)
(* the stable insertion sort of Builtins.tla; TLC checks its defining      *)
(* predicate (permutation, ordered, ties in input order) on every array.   *)
(***************************************************************************)
EXTENDS JMES, Json, Toks, SequencesExt

CONSTANTS Emit, Prop, Lengths, Seeds

VARIABLES inst    \* [n, pat, str, seed]
Init == inst \in [n : Lengths, pat : 1..9, str : BOOLEAN, seed : Seeds]
Next == UNCHANGED inst
Spec == Init /\ [][Next]_inst

\* key of element i (1-based) as a small natural number
RECURSIVE Lcg(_, _)
Lcg(seed, i) == IF i = 0 THEN seed ELSE (Lcg(seed, i - 1) * 37 + 11) % 101
KeyNum(n, pat, seed, i) ==
  CASE pat = 1 -> 7                                  \* constant: everything ties
    [] pat = 2 -> i % 2                              \* two values alternating
    [] pat = 3 -> (n - i) \div 3                     \* descending blocks of three
    [] pat = 4 -> Lcg(seed, i) % 5                   \* pseudo-random with many ties
    [] pat = 5 -> Lcg(seed + 1, i) % 10              \* pseudo-random over every glyph
    \* monotone runs with a single tie (what a run-detecting sort special-cases)
    [] pat = 6 -> IF i <= 2 THEN n ELSE n + 2 - i    \* two equal maxima, then strictly descending
    [] pat = 7 -> IF i >= n - 1 THEN 1 ELSE n + 1 - i \* strictly descending, two equal minima last
    [] pat = 8 -> IF 2 * i <= n THEN i ELSE n + 1 - i \* ascending, then descending over the same keys
    [] pat = 9 -> ((n - i) % ((n \div 2) + 1))       \* two descending runs
\* string keys across the Unicode range, in code point order by index
Glyph == <<<<36>>, <<97>>, <<127>>, <<233>>, <<2048>>, <<65535>>, <<65536>>, <<128512>>, <<97, 97>>, <<97, 233>>>>
\* sorted order of Glyph by code points: $ < a < aa < a,e-acute < DEL < e-acute < U+0800 < U+FFFF < U+10000 < emoji
KeyOf(n, pat, str, seed, i) ==
  LET k == KeyNum(n, pat, seed, i) IN
  IF str THEN (IF pat <= 5 THEN Str(Glyph[(k % Len(Glyph)) + 1]) ELSE Str(<<48 + ((k \div 100) % 10), 48 + ((k \div 10) % 10), 48 + (k % 10)>>))
  ELSE JInt(k - 3)

ArrOf(i) == Arr([j \in 1..i.n |-> Obj(<<Mem(<<107>>, KeyOf(i.n, i.pat, i.str, i.seed, j)), Mem(<<112>>, JInt(j))>>)])
DocOf(i) == Obj(<<Mem(<<120>>, ArrOf(i))>>)

X == Id(<<120>>)  Kf == Id(<<107>>)
Fn(name, args) == <<Id(name), LP>> \o args \o <<RP>>
Exprs == {
  Fn(<<115,111,114,116,95,98,121>>, <<X, Comma, AmpT, Kf>>),
  Fn(<<115,111,114,116,95,98,121>>, <<X, Comma, AmpT, Kf>>) \o <<LB, Star, RB, Dot, Id(<<112>>)>>,
  Fn(<<109,97,120,95,98,121>>, <<X, Comma, AmpT, Kf>>), Fn(<<109,105,110,95,98,121>>, <<X, Comma, AmpT, Kf>>),
  Fn(<<115,111,114,116>>, <<X, LB, Star, RB, Dot, Kf>>), Fn(<<109,97,120>>, <<X, LB, Star, RB, Dot, Kf>>),
  Fn(<<109,105,110>>, <<X, LB, Star, RB, Dot, Kf>>),
  Fn(<<115,111,114,116,95,98,121>>, <<X, Comma, AmpT, Id(<<112>>)>>) \o <<LB, IntT(<<48>>), RB>>,
  Fn(<<115,111,114,116,95,98,121>>, <<X, Comma, AmpT, Id(<<110,111,107,101,121>>)>>),            \* null keys: invalid-type (except the empty array)
  Fn(<<115,111,114,116>>, <<X>>) }                                          \* objects are not sortable: invalid-type

\* Re-entrancy: a function that takes an expression reference, used inside the
\* expression reference of the same or another such function (the inner
\* arrays are shorter and longer than the outer one)
Grp(k, ns) == Obj(<<Mem(<<107>>, JInt(k)), Mem(<<118>>, Arr([j \in 1..Len(ns) |-> Obj(<<Mem(<<110>>, JInt(ns[j]))>>)]))>>)
ReDoc == Obj(<<Mem(<<120>>, Arr(<<Grp(1, <<5, 3>>), Grp(2, <<9>>), Grp(3, <<4, 8, 1, 7, 6, 2>>), Grp(4, <<3, 3, 0>>), Grp(5, <<2, 5>>)>>))>>)
V == Id(<<118>>)  Nf == Id(<<110>>)
SortV == Fn(<<115,111,114,116,95,98,121>>, <<V, Comma, AmpT, Nf>>)
ReExprs == {
  Fn(<<115,111,114,116,95,98,121>>, <<X, Comma, AmpT>> \o SortV \o <<LB, IntT(<<48>>), RB, Dot, Nf>>) \o <<LB, Star, RB, Dot, Kf>>,
  Fn(<<115,111,114,116,95,98,121>>, <<X, Comma, AmpT>> \o SortV \o <<LB, IntT(<<45,49>>), RB, Dot, Nf>>) \o <<LB, Star, RB, Dot, Kf>>,
  Fn(<<115,111,114,116,95,98,121>>, <<X, Comma, AmpT>> \o Fn(<<109,97,120,95,98,121>>, <<V, Comma, AmpT, Nf>>) \o <<Dot, Nf>>) \o <<LB, Star, RB, Dot, Kf>>,
  Fn(<<109,97,120,95,98,121>>, <<X, Comma, AmpT>> \o Fn(<<108,101,110,103,116,104>>, SortV)) \o <<Dot, Kf>>,
  Fn(<<109,105,110,95,98,121>>, <<X, Comma, AmpT>> \o Fn(<<109,105,110,95,98,121>>, <<V, Comma, AmpT, Nf>>) \o <<Dot, Nf>>) \o <<Dot, Kf>>,
  Fn(<<109,97,112>>, <<AmpT>> \o SortV \o <<LB, Star, RB, Dot, Nf, Comma, X>>),
  Fn(<<109,97,112>>, <<AmpT>> \o Fn(<<109,97,112>>, <<AmpT, Nf, Comma, V>>) \o <<Comma, X>>),
  Fn(<<115,111,114,116,95,98,121>>, <<X, Comma, AmpT>> \o Fn(<<115,117,109>>, Fn(<<109,97,112>>, <<AmpT, Nf, Comma, V>>))) \o <<LB, Star, RB, Dot, Kf>>,
  Fn(<<115,111,114,116,95,98,121>>, <<X, Comma, AmpT>> \o Fn(<<115,111,114,116>>, <<V, LB, Star, RB, Dot, Nf>>) \o <<LB, IntT(<<48>>), RB>>) \o <<LB, Star, RB, Dot, Kf>>,
  <<X, LB, Star, RB, Dot>> \o SortV \o <<LB, IntT(<<48>>), RB, Dot, Nf>>,
  Fn(<<103,114,111,117,112,95,98,121>>, <<X, Comma, AmpT>> \o Fn(<<116,111,95,115,116,114,105,110,103>>, Fn(<<108,101,110,103,116,104>>, SortV))),
  Fn(<<115,111,114,116,95,98,121>>, Fn(<<115,111,114,116,95,98,121>>, <<X, Comma, AmpT, Kf>>) \o <<Comma, AmpT>> \o SortV \o <<LB, IntT(<<48>>), RB, Dot, Nf>>) \o <<LB, Star, RB, Dot, Kf>>,
  Fn(<<115,111,114,116,95,98,121>>, <<X, Comma, AmpT>> \o Fn(<<116,111,95,115,116,114,105,110,103>>, Fn(<<115,111,114,116,95,98,121>>, <<V, Comma, AmpT>> \o Fn(<<116,111,95,115,116,114,105,110,103>>, <<Nf>>)) \o <<LB, IntT(<<48>>), RB, Dot, Nf>>)) \o <<LB, Star, RB, Dot, Kf>>,
  Fn(<<115,111,114,116,95,98,121>>, <<X, Comma, AmpT>> \o <<LetT, VarT(<<36,109>>), AssignT>> \o SortV \o <<InT, VarT(<<36,109>>), LB, IntT(<<48>>), RB, Dot, Nf>>) \o <<LB, Star, RB, Dot, Kf>> }

\* ... and the same with 70 groups of 70 members (beyond the sizes up to which an implementation may avoid its
\* general path: scratch buffers kept per evaluation, insertion sort for short arrays): group g holds the values
\* 101 * ((29 g) mod 71) + ((37 j + g) mod 101), so the groups are ordered by (29 g) mod 71 whatever member is
\* taken as the key, and neither the groups nor the members are in order to begin with
BigG == 70
BigGrp(g, G) == Grp(g, [j \in 1..G |-> 101 * ((29 * g) % 71) + ((37 * j + g) % 101)])
ReBigDoc(G) == Obj(<<Mem(<<120>>, Arr([g \in 1..G |-> BigGrp(g, G)]))>>)
\* what the specification says these expressions mean is computed in closed form (TLC's Eval of 70 sorts of 70
\* elements inside a sort takes hours): the groups in the order of (29 g) mod 71, or the first / last of them;
\* the closed form is checked against Eval on 6 groups of 6 members (BigReentrantLemma)
GroupsInOrder(G) == SetToSortSeq(1..G, LAMBDA a, b : (29 * a) % 71 < (29 * b) % 71)
ReBigExprs == {
  <<"asc", Fn(<<115,111,114,116,95,98,121>>, <<X, Comma, AmpT>> \o SortV \o <<LB, IntT(<<48>>), RB, Dot, Nf>>) \o <<LB, Star, RB, Dot, Kf>> >>,
  <<"asc", Fn(<<115,111,114,116,95,98,121>>, <<X, Comma, AmpT>> \o SortV \o <<LB, IntT(<<45,49>>), RB, Dot, Nf>>) \o <<LB, Star, RB, Dot, Kf>> >>,
  <<"asc", Fn(<<115,111,114,116,95,98,121>>, <<X, Comma, AmpT>> \o Fn(<<116,111,95,115,116,114,105,110,103>>, SortV \o <<LB, IntT(<<48>>), RB, Dot, Nf, PlusT, Json(<<96,49,48,48,48,48,96>>)>>)) \o <<LB, Star, RB, Dot, Kf>> >>,
  <<"asc", Fn(<<115,111,114,116,95,98,121>>, <<X, Comma, AmpT>> \o Fn(<<115,111,114,116,95,98,121>>, <<V, Comma, AmpT>> \o Fn(<<116,111,95,115,116,114,105,110,103>>, <<Nf, PlusT, Json(<<96,49,48,48,48,48,96>>)>>)) \o <<LB, IntT(<<48>>), RB, Dot, Nf>>) \o <<LB, Star, RB, Dot, Kf>> >>,
  <<"max", Fn(<<109,97,120,95,98,121>>, <<X, Comma, AmpT>> \o SortV \o <<LB, IntT(<<48>>), RB, Dot, Nf>>) \o <<Dot, Kf>> >>,
  <<"min", Fn(<<109,105,110,95,98,121>>, <<X, Comma, AmpT>> \o Fn(<<109,97,120,95,98,121>>, <<V, Comma, AmpT, Nf>>) \o <<Dot, Nf>>) \o <<Dot, Kf>> >>,
  <<"asc", Fn(<<115,111,114,116,95,98,121>>, <<X, Comma, AmpT>> \o Fn(<<115,111,114,116>>, <<V, LB, Star, RB, Dot, Nf>>) \o <<LB, IntT(<<48>>), RB>>) \o <<LB, Star, RB, Dot, Kf>> >>,
  <<"asc", Fn(<<115,111,114,116,95,98,121>>, <<X, Comma, AmpT>> \o <<LetT, VarT(<<36,109>>), AssignT>> \o SortV \o <<InT, VarT(<<36,109>>), LB, IntT(<<48>>), RB, Dot, Nf>>) \o <<LB, Star, RB, Dot, Kf>> >> }
ReBigExpected(kind, G) == LET o == GroupsInOrder(G) IN
  CASE kind = "asc" -> Arr([i \in 1..G |-> JInt(o[i])])
    [] kind = "max" -> JInt(o[G])
    [] kind = "min" -> JInt(o[1])

Check ==
  LET doc   == DocOf(inst)
      cases == { [expr |-> Render(e), adm |-> Admissible(e, doc)] : e \in Exprs }
      recases == IF inst.n = 0 /\ inst.pat = 1 /\ ~inst.str
                 THEN { [expr |-> Render(e), adm |-> Admissible(e, ReDoc), doc |-> ReDoc] : e \in ReExprs }
                 ELSE IF inst.n = 0 /\ inst.pat = 2 /\ ~inst.str
                 THEN { [expr |-> Render(e[2]), adm |-> {ReBigExpected(e[1], BigG)}, doc |-> ReBigDoc(BigG)] : e \in ReBigExprs } ELSE {}
      case  == [p |-> Prop, kind |-> "search", doc |-> doc,
                multi |-> { [expr |-> c.expr, adm |-> c.adm, doc |-> doc] : c \in cases } \cup recases]
      \* the array of the bare keys, sorted by the identity key: numbers that are equal in value are told apart
      \* by the harness through their SPELLING (1, 1.0, 1e0, 10e-1 by position), which the specification's
      \* values do not carry; what the specification supplies is the stable ORDER, as a permutation of positions
      nums  == [j \in 1..inst.n |-> KeyNum(inst.n, inst.pat, inst.seed, j) - 3]
      perm  == SetToSortSeq(1..inst.n, LAMBDA a, b : nums[a] < nums[b] \/ (nums[a] = nums[b] /\ a < b))
      spelled == [p |-> Prop, kind |-> "spelled", vals |-> nums, perm |-> perm,
                  exprs |-> << Render(Fn(<<115,111,114,116,95,98,121>>, <<X, Comma, AmpT, CurT>>)), Render(Fn(<<115,111,114,116,95,98,121>>, <<X, LB, Star, RB, Comma, AmpT, LP, CurT, RP>>)),
                              Render(Fn(<<115,111,114,116,95,98,121>>, <<X, Comma, AmpT, CurT, PlusT, Json(<<96,48,96>>)>>)) >>]
      vals  == ArrOf(inst).a
      keys  == [j \in 1..Len(vals) |-> ObjGet(vals[j], <<107>>)]
      out   == SortByKeys(vals, keys)
      pos(v) == CHOOSE j \in 1..Len(vals) : vals[j] = v          \* payloads are unique
  IN /\ Emit => PrintT("CASE " \o ToJson(case))
     /\ (Emit /\ ~inst.str /\ inst.n > 0) => PrintT("CASE " \o ToJson(spelled))
     /\ Named(inst.str \/ Admissible(Fn(<<115,111,114,116,95,98,121>>, <<X, Comma, AmpT, CurT>>), Obj(<<Mem(<<120>>, Arr([j \in 1..inst.n |-> JInt(nums[j])]))>>))
                            = {Arr([j \in 1..inst.n |-> JInt(nums[perm[j]])])}, "PermIsTheStableOrder")
     \* the defining predicate of a stable sort
     /\ Named(\A c \in recases : \A o \in c.adm : IsVal(o), "ReentrantFamilyIsWellTyped")
     /\ Named((inst.n = 0 /\ inst.pat = 2 /\ ~inst.str) =>
                 \A e \in ReBigExprs : Admissible(e[2], ReBigDoc(6)) = {ReBigExpected(e[1], 6)}, "BigReentrantLemma")
     /\ Named(Len(out) = Len(vals) /\ \A j \in 1..Len(vals) : \E m \in 1..Len(out) : out[m] = vals[j], "Permutation")
     /\ Named(out = InsSortByKeys(vals, keys), "RankSortEqualsInsertionSort")
     /\ Named(\A m \in 1..(Len(out) - 1) : ~KeyLess(ObjGet(out[m + 1], <<107>>), ObjGet(out[m], <<107>>)), "Ordered")
     /\ Named(\A m \in 1..(Len(out) - 1) :
                 KeyEq(ObjGet(out[m], <<107>>), ObjGet(out[m + 1], <<107>>)) => pos(out[m]) < pos(out[m + 1]), "TiesKeepInputOrder")
=============================================================================
