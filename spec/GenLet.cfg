SPECIFICATION Spec
CONSTANTS
  Emit = FALSE
  Prop = "C19"
  Depth = 2
INVARIANTS
  Check
CHECK_DEADLOCK FALSE
