SPECIFICATION Spec
CONSTANTS
  Emit = FALSE
  Prop = "C08"
INVARIANTS
  Check
CHECK_DEADLOCK FALSE
