\* GENERATED from Let.json by lib/tlagen.py
---- MODULE DocsLet ----
EXTENDS JValue
PoolLet == <<
  \* {"a": "1", "b": ["1", "2", "3"]}
  Obj(<<Mem(<<97>>, JInt(1)), Mem(<<98>>, Arr(<<JInt(1), JInt(2), JInt(3)>>))>>),
  \* {"a": ["7", "8"], "b": [{"a": "1"}, {"a": "2"}, {"a": "1"}]}
  Obj(<<Mem(<<97>>, Arr(<<JInt(7), JInt(8)>>)), Mem(<<98>>, Arr(<<Obj(<<Mem(<<97>>, JInt(1))>>), Obj(<<Mem(<<97>>, JInt(2))>>), Obj(<<Mem(<<97>>, JInt(1))>>)>>))>>),
  \* {"a": null, "b": null}
  Obj(<<Mem(<<97>>, Null), Mem(<<98>>, Null)>>),
  \* {"a": "s", "b": ["s", "t"]}
  Obj(<<Mem(<<97>>, Str(<<115>>)), Mem(<<98>>, Arr(<<Str(<<115>>), Str(<<116>>)>>))>>),
  \* {"a": {"a": "2"}, "b": {"a": "1", "b": "2"}}
  Obj(<<Mem(<<97>>, Obj(<<Mem(<<97>>, JInt(2))>>)), Mem(<<98>>, Obj(<<Mem(<<97>>, JInt(1)), Mem(<<98>>, JInt(2))>>))>>),
  \* {"a": "2", "b": [["2", "1"], ["1"], "2"]}
  Obj(<<Mem(<<97>>, JInt(2)), Mem(<<98>>, Arr(<<Arr(<<JInt(2), JInt(1)>>), Arr(<<JInt(1)>>), JInt(2)>>))>>),
  \* {"a": "0", "b": [[["1"], ["2", "3"]], [["4"]], [], [["5", "6"], ["7"], ["8", "9"]]]}
  Obj(<<Mem(<<97>>, JInt(0)), Mem(<<98>>, Arr(<<Arr(<<Arr(<<JInt(1)>>), Arr(<<JInt(2), JInt(3)>>)>>), Arr(<<Arr(<<JInt(4)>>)>>), Arr(<<>>), Arr(<<Arr(<<JInt(5), JInt(6)>>), Arr(<<JInt(7)>>), Arr(<<JInt(8), JInt(9)>>)>>)>>))>>),
  \* {"a": "q", "b": [{"a": ["2"], "c": "1"}, {"a": [["3"], "4"]}, [["1"]], "s", null, []]}
  Obj(<<Mem(<<97>>, Str(<<113>>)), Mem(<<98>>, Arr(<<Obj(<<Mem(<<97>>, Arr(<<JInt(2)>>)), Mem(<<99>>, JInt(1))>>), Obj(<<Mem(<<97>>, Arr(<<Arr(<<JInt(3)>>), JInt(4)>>))>>), Arr(<<Arr(<<JInt(1)>>)>>), Str(<<115>>), Null, Arr(<<>>)>>))>>)
>>
====
