\* GENERATED from Let.json by lib/tlagen.py
---- MODULE DocsLet ----
EXTENDS JValue
PoolLet == <<
  \* {"a": "1", "b": ["1", "2", "3"]}
  Obj(<<Mem(<<97>>, JInt(1)), Mem(<<98>>, Arr(<<JInt(1), JInt(2), JInt(3)>>))>>),
  \* {"a": ["7", "8"], "b": [{"a": "1"}, {"a": "2"}, {"a": "1"}]}
  Obj(<<Mem(<<97>>, Arr(<<JInt(7), JInt(8)>>)), Mem(<<98>>, Arr(<<Obj(<<Mem(<<97>>, JInt(1))>>), Obj(<<Mem(<<97>>, JInt(2))>>), Obj(<<Mem(<<97>>, JInt(1))>>)>>))>>),
  \* {"a": null, "b": null}
  Obj(<<Mem(<<97>>, Null), Mem(<<98>>, Null)>>),
  \* {"a": "s", "b": ["s", "t"]}
  Obj(<<Mem(<<97>>, Str(<<115>>)), Mem(<<98>>, Arr(<<Str(<<115>>), Str(<<116>>)>>))>>),
  \* {"a": {"a": "2"}, "b": {"a": "1", "b": "2"}}
  Obj(<<Mem(<<97>>, Obj(<<Mem(<<97>>, JInt(2))>>)), Mem(<<98>>, Obj(<<Mem(<<97>>, JInt(1)), Mem(<<98>>, JInt(2))>>))>>),
  \* {"a": "2", "b": [["2", "1"], ["1"], "2"]}
  Obj(<<Mem(<<97>>, JInt(2)), Mem(<<98>>, Arr(<<Arr(<<JInt(2), JInt(1)>>), Arr(<<JInt(1)>>), JInt(2)>>))>>)
>>
====
