INIT Init
NEXT Next
INVARIANT CaseOK
CONSTANT File = "corpus.ndjson"
CHECK_DEADLOCK FALSE
