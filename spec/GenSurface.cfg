SPECIFICATION Spec
CONSTANTS
  MaxDepth = 2
  Emit = TRUE
  Prop = "C01"
INVARIANTS
  Check
CHECK_DEADLOCK FALSE
