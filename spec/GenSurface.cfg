SPECIFICATION Spec
CONSTANTS
  MaxDepth = 2
  Emit = TRUE
  Prop = "C01"
  Docs <- PoolCore
  PoolName = "Core"
INVARIANTS
  Check
CHECK_DEADLOCK FALSE
