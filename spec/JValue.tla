\* GENERATED from JValue.tla.in by bin/tlapp -- edit the .in file
---------------------------- MODULE JValue ----------------------------
(***************************************************************************)
(* JSON values as the JMESPath specification sees them.                    *)
(*                                                                         *)
(*   null    [t |-> "null"]                                                *)
(*   boolean [t |-> "bool", b |-> TRUE]                                    *)
(*   number  [t |-> "num", n |-> 15, e |-> -1]      = 1.5  (normalised)    *)
(*   string  [t |-> "str", s |-> <<97,98>>]         code points            *)
(*   array   [t |-> "arr", a |-> <<...>>, u |-> FALSE]                     *)
(*   object  [t |-> "obj", o |-> << [k |-> key, v |-> value], ... >>]      *)
(*           members sorted by key (code point order), keys distinct       *)
(*                                                                         *)
(* u = TRUE marks an array whose element ORDER the standard leaves open    *)
(* (it was obtained by enumerating the members of an object).  Strings are *)
(* code-point sequences because TLC strings are atomic; a byte-indexed     *)
(* semantics cannot even be written here.  Numbers are exact decimals      *)
(* n * 10^e with a small (32-bit) coefficient; the big-number arithmetic   *)
(* of property C05 lives in Decimal.tla.                                   *)
(***************************************************************************)
EXTENDS Integers, Sequences, FiniteSets, TLC, Outcome

Null     == [t |-> "null"]
Bool(b)  == [t |-> "bool", b |-> b]
JTrue    == Bool(TRUE)
JFalse   == Bool(FALSE)
Str(s)   == [t |-> "str", s |-> s]
Arr(a)   == [t |-> "arr", a |-> a, u |-> FALSE]
UArr(a)  == [t |-> "arr", a |-> a, u |-> TRUE]
ArrU(a, u) == [t |-> "arr", a |-> a, u |-> u]
ObjRaw(o) == [t |-> "obj", o |-> o]
Mem(k, v) == [k |-> k, v |-> v]

\* ---------------------------------------------------------------- outcomes
\* An outcome of evaluating something is a value, a failure carrying the set
\* of error categories that are present (the standard leaves open which of
\* several simultaneous faults is reported), or "any" = not pinned down by
\* the standard or its corpus.
\* ----------------------------------------------------------------- numbers
RECURSIVE NormNE(_, _)
NormNE(n, e) == IF n = 0 THEN [t |-> "num", n |-> 0, e |-> 0]
                ELSE IF n % 10 = 0 THEN NormNE(n \div 10, e + 1)
                ELSE [t |-> "num", n |-> n, e |-> e]
Num(n, e) == NormNE(n, e)
JInt(n)   == NormNE(n, 0)

RECURSIVE Pow10(_)
Pow10(k) == IF k <= 0 THEN 1 ELSE 10 * Pow10(k - 1)

AbsI(n) == IF n < 0 THEN 0 - n ELSE n
SignI(n) == IF n < 0 THEN 0 - 1 ELSE IF n > 0 THEN 1 ELSE 0
MinI(a, b) == IF a < b THEN a ELSE b
MaxI(a, b) == IF a < b THEN b ELSE a

RECURSIVE NDigits(_)
NDigits(n) == IF n < 10 THEN 1 ELSE 1 + NDigits(n \div 10)

\* position of the leading digit: value is in [10^(Adj-1), 10^Adj)
AdjExp(x) == NDigits(AbsI(x.n)) + x.e

\* -1, 0, 1 ; exact, and arranged so that no intermediate exceeds the larger
\* operand's digit count (TLC integers are 32-bit and overflow is an error)
CmpNum(x, y) ==
  IF SignI(x.n) # SignI(y.n) THEN (IF SignI(x.n) < SignI(y.n) THEN 0 - 1 ELSE 1)
  ELSE IF x.n = 0 THEN 0
  ELSE LET s == SignI(x.n)
           ax == AdjExp(x)  ay == AdjExp(y)
       IN IF ax # ay THEN (IF ax < ay THEN 0 - s ELSE s)
          ELSE LET m  == MinI(x.e, y.e)
                   xn == AbsI(x.n) * Pow10(x.e - m)
                   yn == AbsI(y.n) * Pow10(y.e - m)
               IN IF xn = yn THEN 0 ELSE IF xn < yn THEN 0 - s ELSE s

IsIntegral(x) == x.e >= 0
\* integer value of an integral number (small ones only)
IntOf(x) == x.n * Pow10(x.e)
\* "fits comfortably": used to keep the model inside 32-bit arithmetic
SmallInt(x) == x.e >= 0 /\ AdjExp(x) <= 8

NegNum(x) == Num(0 - x.n, x.e)
AddNum(x, y) == LET m == MinI(x.e, y.e)
                IN Num(x.n * Pow10(x.e - m) + y.n * Pow10(y.e - m), m)
SubNum(x, y) == AddNum(x, NegNum(y))
MulNum(x, y) == Num(x.n * y.n, x.e + y.e)

\* floor of a number, as a number
FloorNum(x) == IF x.e >= 0 THEN x
               ELSE LET p == Pow10(0 - x.e) IN JInt(x.n \div p)      \* \div floors
CeilNum(x)  == NegNum(FloorNum(NegNum(x)))
AbsNum(x)   == Num(AbsI(x.n), x.e)

\* Exact quotient when it terminates within `digits` further decimal places,
\* otherwise Open (the exact quotient is periodic; Decimal.tla handles those).
RECURSIVE DivLoop(_, _, _, _, _)
DivLoop(num, den, acc, e, k) ==
  \* invariant: result = (acc + num/den) * 10^e  with 0 <= num < den after first step
  IF num = 0 THEN Num(acc, e)
  ELSE IF k = 0 THEN Open
  ELSE LET q == (num * 10) \div den
           r == (num * 10) % den
       IN DivLoop(r, den, acc * 10 + q, e - 1, k - 1)

DivNum(x, y) ==
  \* y # 0.  x/y = (x.n / y.n) * 10^(x.e - y.e)
  LET s  == SignI(x.n) * SignI(y.n)
      a  == AbsI(x.n)  b == AbsI(y.n)
      q0 == a \div b   r0 == a % b
      r  == DivLoop(r0, b, q0, x.e - y.e, 6)
  IN IF IsAny(r) THEN Open ELSE Num(s * r.n, r.e)

\* --------------------------------------------------------------- sequences
RECURSIVE SeqLess(_, _)
SeqLess(a, b) ==           \* lexicographic order on integer sequences
  IF Len(b) = 0 THEN FALSE
  ELSE IF Len(a) = 0 THEN TRUE
  ELSE IF Head(a) # Head(b) THEN Head(a) < Head(b)
  ELSE SeqLess(Tail(a), Tail(b))

Last(s) == s[Len(s)]
Front(s) == SubSeq(s, 1, Len(s) - 1)
SeqRange(s) == {s[i] : i \in 1..Len(s)}
Rev(s) == [i \in 1..Len(s) |-> s[Len(s) + 1 - i]]
RECURSIVE Concat(_)
Concat(ss) == IF Len(ss) = 0 THEN <<>> ELSE Head(ss) \o Concat(Tail(ss))

\* ----------------------------------------------------------------- objects
RECURSIVE ObjFind(_, _)
ObjFind(o, k) ==           \* index of key k in member sequence o, or 0
  IF Len(o) = 0 THEN 0
  ELSE IF o[Len(o)].k = k THEN Len(o) ELSE ObjFind(Front(o), k)

ObjHas(v, k) == ObjFind(v.o, k) # 0
ObjGet(v, k) == LET i == ObjFind(v.o, k) IN IF i = 0 THEN Null ELSE v.o[i].v

RECURSIVE InsMem(_, _)
InsMem(o, m) ==            \* insert/replace member m in sorted member sequence o
  IF Len(o) = 0 THEN <<m>>
  ELSE IF Head(o).k = m.k THEN <<m>> \o Tail(o)
  ELSE IF SeqLess(m.k, Head(o).k) THEN <<m>> \o o
  ELSE <<Head(o)>> \o InsMem(Tail(o), m)

RECURSIVE ObjOfMems(_)
ObjOfMems(ms) ==           \* object from members in order; later duplicates win
  IF Len(ms) = 0 THEN <<>>
  ELSE InsMem(ObjOfMems(Front(ms)), Last(ms))

Obj(ms) == ObjRaw(ObjOfMems(ms))
ObjKeys(v) == [i \in 1..Len(v.o) |-> v.o[i].k]
ObjVals(v) == [i \in 1..Len(v.o) |-> v.o[i].v]

\* -------------------------------------------------------------- predicates
TypeName(v) == CASE v.t = "null" -> <<110,117,108,108>>
                 [] v.t = "bool" -> <<98,111,111,108,101,97,110>>
                 [] v.t = "num"  -> <<110,117,109,98,101,114>>
                 [] v.t = "str"  -> <<115,116,114,105,110,103>>
                 [] v.t = "arr"  -> <<97,114,114,97,121>>
                 [] v.t = "obj"  -> <<111,98,106,101,99,116>>

\* exactly five false-like shapes (zero is not one of them)
Truthy(v) == CASE v.t = "null" -> FALSE
               [] v.t = "bool" -> v.b
               [] v.t = "num"  -> TRUE
               [] v.t = "str"  -> Len(v.s) > 0
               [] v.t = "arr"  -> Len(v.a) > 0
               [] v.t = "obj"  -> Len(v.o) > 0

\* forget order marks (so that TLA+ equality is JSON equality: numbers are
\* normalised, objects are in canonical key order)
RECURSIVE Strip(_)
Strip(v) == CASE v.t = "arr" -> Arr([i \in 1..Len(v.a) |-> Strip(v.a[i])])
              [] v.t = "obj" -> ObjRaw([i \in 1..Len(v.o) |-> Mem(v.o[i].k, Strip(v.o[i].v))])
              [] OTHER -> v

RECURSIVE HasU(_)
HasU(v) == CASE v.t = "arr" -> v.u \/ \E i \in 1..Len(v.a) : HasU(v.a[i])
             [] v.t = "obj" -> \E i \in 1..Len(v.o) : HasU(v.o[i].v)
             [] OTHER -> FALSE

\* deep, type-strict equality (property C20)
JEq(x, y) == Strip(x) = Strip(y)

\* equality up to the order of arrays marked unordered on either side
RECURSIVE EqU(_, _)
EqU(x, y) ==
  IF x.t # y.t THEN FALSE
  ELSE CASE x.t = "arr" ->
              /\ Len(x.a) = Len(y.a)
              /\ IF x.u \/ y.u
                 THEN \A i \in 1..Len(x.a) :
                        Cardinality({j \in 1..Len(x.a) : EqU(x.a[i], x.a[j])})
                          = Cardinality({j \in 1..Len(y.a) : EqU(x.a[i], y.a[j])})
                 ELSE \A i \in 1..Len(x.a) : EqU(x.a[i], y.a[i])
         [] x.t = "obj" ->
              /\ Len(x.o) = Len(y.o)
              /\ \A i \in 1..Len(x.o) : x.o[i].k = y.o[i].k /\ EqU(x.o[i].v, y.o[i].v)
         [] OTHER -> x = y

RECURSIVE IsJValue(_)
IsJValue(v) ==
  /\ "t" \in DOMAIN v
  /\ CASE v.t = "null" -> DOMAIN v = {"t"}
       [] v.t = "bool" -> v.b \in BOOLEAN
       [] v.t = "num"  -> v.n \in Int /\ v.e \in Int /\ Num(v.n, v.e) = v
       [] v.t = "str"  -> \A i \in 1..Len(v.s) : v.s[i] \in 0..1114111
       [] v.t = "arr"  -> v.u \in BOOLEAN /\ \A i \in 1..Len(v.a) : IsJValue(v.a[i])
       [] v.t = "obj"  -> /\ \A i \in 1..Len(v.o) : IsJValue(v.o[i].v)
                          /\ \A i \in 1..(Len(v.o) - 1) : SeqLess(v.o[i].k, v.o[i + 1].k)
       [] OTHER -> FALSE

\* size of a value (number of nodes), used by cost bounds
RECURSIVE VSize(_)
RECURSIVE SumSizes(_, _)
SumSizes(s, i) == IF i > Len(s) THEN 0 ELSE VSize(s[i]) + SumSizes(s, i + 1)
VSize(v) == CASE v.t = "arr" -> 1 + SumSizes(v.a, 1)
              [] v.t = "obj" -> 1 + SumSizes(ObjVals(v), 1)
              [] v.t = "str" -> 1 + Len(v.s)
              [] OTHER -> 1
=============================================================================
