\* GENERATED from OpsS.json by lib/tlagen.py
---- MODULE DocsOpsS ----
EXTENDS JValue
PoolOpsS == <<
  \* {"x": "0", "y": "0", "z": "1"}
  Obj(<<Mem(<<120>>, JInt(0)), Mem(<<121>>, JInt(0)), Mem(<<122>>, JInt(1))>>),
  \* {"x": "0", "y": "1", "z": true}
  Obj(<<Mem(<<120>>, JInt(0)), Mem(<<121>>, JInt(1)), Mem(<<122>>, JTrue)>>),
  \* {"x": "0", "y": "2", "z": "0"}
  Obj(<<Mem(<<120>>, JInt(0)), Mem(<<121>>, JInt(2)), Mem(<<122>>, JInt(0))>>),
  \* {"x": "0", "y": null, "z": null}
  Obj(<<Mem(<<120>>, JInt(0)), Mem(<<121>>, Null), Mem(<<122>>, Null)>>),
  \* {"x": "0", "y": true, "z": "a"}
  Obj(<<Mem(<<120>>, JInt(0)), Mem(<<121>>, JTrue), Mem(<<122>>, Str(<<97>>))>>),
  \* {"x": "0", "y": [], "z": "2"}
  Obj(<<Mem(<<120>>, JInt(0)), Mem(<<121>>, Arr(<<>>)), Mem(<<122>>, JInt(2))>>),
  \* {"x": "0", "y": "a", "z": []}
  Obj(<<Mem(<<120>>, JInt(0)), Mem(<<121>>, Str(<<97>>)), Mem(<<122>>, Arr(<<>>))>>),
  \* {"x": "1", "y": "0", "z": null}
  Obj(<<Mem(<<120>>, JInt(1)), Mem(<<121>>, JInt(0)), Mem(<<122>>, Null)>>),
  \* {"x": "1", "y": "1", "z": "a"}
  Obj(<<Mem(<<120>>, JInt(1)), Mem(<<121>>, JInt(1)), Mem(<<122>>, Str(<<97>>))>>),
  \* {"x": "1", "y": "2", "z": "2"}
  Obj(<<Mem(<<120>>, JInt(1)), Mem(<<121>>, JInt(2)), Mem(<<122>>, JInt(2))>>),
  \* {"x": "1", "y": null, "z": []}
  Obj(<<Mem(<<120>>, JInt(1)), Mem(<<121>>, Null), Mem(<<122>>, Arr(<<>>))>>),
  \* {"x": "1", "y": true, "z": "1"}
  Obj(<<Mem(<<120>>, JInt(1)), Mem(<<121>>, JTrue), Mem(<<122>>, JInt(1))>>),
  \* {"x": "1", "y": [], "z": true}
  Obj(<<Mem(<<120>>, JInt(1)), Mem(<<121>>, Arr(<<>>)), Mem(<<122>>, JTrue)>>),
  \* {"x": "1", "y": "a", "z": "0"}
  Obj(<<Mem(<<120>>, JInt(1)), Mem(<<121>>, Str(<<97>>)), Mem(<<122>>, JInt(0))>>),
  \* {"x": "2", "y": "0", "z": []}
  Obj(<<Mem(<<120>>, JInt(2)), Mem(<<121>>, JInt(0)), Mem(<<122>>, Arr(<<>>))>>),
  \* {"x": "2", "y": "1", "z": "1"}
  Obj(<<Mem(<<120>>, JInt(2)), Mem(<<121>>, JInt(1)), Mem(<<122>>, JInt(1))>>),
  \* {"x": "2", "y": "2", "z": true}
  Obj(<<Mem(<<120>>, JInt(2)), Mem(<<121>>, JInt(2)), Mem(<<122>>, JTrue)>>),
  \* {"x": "2", "y": null, "z": "0"}
  Obj(<<Mem(<<120>>, JInt(2)), Mem(<<121>>, Null), Mem(<<122>>, JInt(0))>>),
  \* {"x": "2", "y": true, "z": null}
  Obj(<<Mem(<<120>>, JInt(2)), Mem(<<121>>, JTrue), Mem(<<122>>, Null)>>),
  \* {"x": "2", "y": [], "z": "a"}
  Obj(<<Mem(<<120>>, JInt(2)), Mem(<<121>>, Arr(<<>>)), Mem(<<122>>, Str(<<97>>))>>),
  \* {"x": "2", "y": "a", "z": "2"}
  Obj(<<Mem(<<120>>, JInt(2)), Mem(<<121>>, Str(<<97>>)), Mem(<<122>>, JInt(2))>>),
  \* {"x": null, "y": "0", "z": "0"}
  Obj(<<Mem(<<120>>, Null), Mem(<<121>>, JInt(0)), Mem(<<122>>, JInt(0))>>),
  \* {"x": null, "y": "1", "z": null}
  Obj(<<Mem(<<120>>, Null), Mem(<<121>>, JInt(1)), Mem(<<122>>, Null)>>),
  \* {"x": null, "y": "2", "z": "a"}
  Obj(<<Mem(<<120>>, Null), Mem(<<121>>, JInt(2)), Mem(<<122>>, Str(<<97>>))>>),
  \* {"x": null, "y": null, "z": "2"}
  Obj(<<Mem(<<120>>, Null), Mem(<<121>>, Null), Mem(<<122>>, JInt(2))>>),
  \* {"x": null, "y": true, "z": []}
  Obj(<<Mem(<<120>>, Null), Mem(<<121>>, JTrue), Mem(<<122>>, Arr(<<>>))>>),
  \* {"x": null, "y": [], "z": "1"}
  Obj(<<Mem(<<120>>, Null), Mem(<<121>>, Arr(<<>>)), Mem(<<122>>, JInt(1))>>),
  \* {"x": null, "y": "a", "z": true}
  Obj(<<Mem(<<120>>, Null), Mem(<<121>>, Str(<<97>>)), Mem(<<122>>, JTrue)>>),
  \* {"x": true, "y": "0", "z": "2"}
  Obj(<<Mem(<<120>>, JTrue), Mem(<<121>>, JInt(0)), Mem(<<122>>, JInt(2))>>),
  \* {"x": true, "y": "1", "z": []}
  Obj(<<Mem(<<120>>, JTrue), Mem(<<121>>, JInt(1)), Mem(<<122>>, Arr(<<>>))>>),
  \* {"x": true, "y": "2", "z": "1"}
  Obj(<<Mem(<<120>>, JTrue), Mem(<<121>>, JInt(2)), Mem(<<122>>, JInt(1))>>),
  \* {"x": true, "y": null, "z": true}
  Obj(<<Mem(<<120>>, JTrue), Mem(<<121>>, Null), Mem(<<122>>, JTrue)>>),
  \* {"x": true, "y": true, "z": "0"}
  Obj(<<Mem(<<120>>, JTrue), Mem(<<121>>, JTrue), Mem(<<122>>, JInt(0))>>),
  \* {"x": true, "y": [], "z": null}
  Obj(<<Mem(<<120>>, JTrue), Mem(<<121>>, Arr(<<>>)), Mem(<<122>>, Null)>>),
  \* {"x": true, "y": "a", "z": "a"}
  Obj(<<Mem(<<120>>, JTrue), Mem(<<121>>, Str(<<97>>)), Mem(<<122>>, Str(<<97>>))>>),
  \* {"x": [], "y": "0", "z": true}
  Obj(<<Mem(<<120>>, Arr(<<>>)), Mem(<<121>>, JInt(0)), Mem(<<122>>, JTrue)>>),
  \* {"x": [], "y": "1", "z": "0"}
  Obj(<<Mem(<<120>>, Arr(<<>>)), Mem(<<121>>, JInt(1)), Mem(<<122>>, JInt(0))>>),
  \* {"x": [], "y": "2", "z": null}
  Obj(<<Mem(<<120>>, Arr(<<>>)), Mem(<<121>>, JInt(2)), Mem(<<122>>, Null)>>),
  \* {"x": [], "y": null, "z": "a"}
  Obj(<<Mem(<<120>>, Arr(<<>>)), Mem(<<121>>, Null), Mem(<<122>>, Str(<<97>>))>>),
  \* {"x": [], "y": true, "z": "2"}
  Obj(<<Mem(<<120>>, Arr(<<>>)), Mem(<<121>>, JTrue), Mem(<<122>>, JInt(2))>>),
  \* {"x": [], "y": [], "z": []}
  Obj(<<Mem(<<120>>, Arr(<<>>)), Mem(<<121>>, Arr(<<>>)), Mem(<<122>>, Arr(<<>>))>>),
  \* {"x": [], "y": "a", "z": "1"}
  Obj(<<Mem(<<120>>, Arr(<<>>)), Mem(<<121>>, Str(<<97>>)), Mem(<<122>>, JInt(1))>>),
  \* {"x": "a", "y": "0", "z": "a"}
  Obj(<<Mem(<<120>>, Str(<<97>>)), Mem(<<121>>, JInt(0)), Mem(<<122>>, Str(<<97>>))>>),
  \* {"x": "a", "y": "1", "z": "2"}
  Obj(<<Mem(<<120>>, Str(<<97>>)), Mem(<<121>>, JInt(1)), Mem(<<122>>, JInt(2))>>),
  \* {"x": "a", "y": "2", "z": []}
  Obj(<<Mem(<<120>>, Str(<<97>>)), Mem(<<121>>, JInt(2)), Mem(<<122>>, Arr(<<>>))>>),
  \* {"x": "a", "y": null, "z": "1"}
  Obj(<<Mem(<<120>>, Str(<<97>>)), Mem(<<121>>, Null), Mem(<<122>>, JInt(1))>>),
  \* {"x": "a", "y": true, "z": true}
  Obj(<<Mem(<<120>>, Str(<<97>>)), Mem(<<121>>, JTrue), Mem(<<122>>, JTrue)>>),
  \* {"x": "a", "y": [], "z": "0"}
  Obj(<<Mem(<<120>>, Str(<<97>>)), Mem(<<121>>, Arr(<<>>)), Mem(<<122>>, JInt(0))>>),
  \* {"x": "a", "y": "a", "z": null}
  Obj(<<Mem(<<120>>, Str(<<97>>)), Mem(<<121>>, Str(<<97>>)), Mem(<<122>>, Null)>>),
  \* {"x": "8", "y": "4", "z": "2"}
  Obj(<<Mem(<<120>>, JInt(8)), Mem(<<121>>, JInt(4)), Mem(<<122>>, JInt(2))>>),
  \* {"x": "7", "y": "-2", "z": "3"}
  Obj(<<Mem(<<120>>, JInt(7)), Mem(<<121>>, JInt(-2)), Mem(<<122>>, JInt(3))>>),
  \* {"x": "1", "y": "2", "z": "3"}
  Obj(<<Mem(<<120>>, JInt(1)), Mem(<<121>>, JInt(2)), Mem(<<122>>, JInt(3))>>),
  \* {"x": "2", "y": "0", "z": "5"}
  Obj(<<Mem(<<120>>, JInt(2)), Mem(<<121>>, JInt(0)), Mem(<<122>>, JInt(5))>>),
  \* {"x": ["1"], "y": "a", "z": false}
  Obj(<<Mem(<<120>>, Arr(<<JInt(1)>>)), Mem(<<121>>, Str(<<97>>)), Mem(<<122>>, JFalse)>>)
>>
====
