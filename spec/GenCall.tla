\* GENERATED from GenCall.tla.in by bin/tlapp -- edit the .in file
----------------------------- MODULE GenCall -----------------------------
(***************************************************************************)
(* Built-in functions (property C02): every function name x every argument *)
(* count from 0 to max+1 x every tuple of pool values (and expression      *)
(* references in every position), written as literals.  Oracle: Static     *)
(* (arity, unknown function, reference position) and Builtins.             *)
(* Model check: the error category follows the signature table, restated   *)
(* here independently as a table of admissible argument types.             *)
(***************************************************************************)
EXTENDS JMES, Json, Toks, DocsCall, SequencesExt, CallTypes

CONSTANTS Emit, Prop, Small   \* Small: pool size used from the third argument on

Vals == PoolCall
NV == Len(Vals)
\* argument alternatives: 1..NV = pool value as a JSON literal; NV+1.. = expression references
Refs == << <<AmpT, CurT>>, <<AmpT, Id(<<97>>)>>, <<AmpT, LB, IntT(<<48>>), RB>> >>
NA == NV + Len(Refs)
ArgToks(i) == IF i <= NV THEN <<Json(EncJSON(Vals[i]))>> ELSE Refs[i - NV]

FnSeq == SetToSeq(FnNames \cup { <<110,111,115,117,99,104>> })
\* how many arguments are tried: 0 .. max + 1 (variadic: 0 .. 3)
MaxTry(f) == IF f \notin FnNames THEN 2 ELSE IF Sigs[f].max < 0 THEN 3 ELSE Sigs[f].max + 1

VARIABLES bucket, inst     \* bucket = <<fn index, nargs>>, inst = first argument alternative (0 if nargs = 0) or -1
Init == /\ bucket \in { <<fi, n>> : fi \in 1..Len(FnSeq), n \in 0..4 }
        /\ bucket[2] <= MaxTry(FnSeq[bucket[1]])
        /\ inst = 0 - 1
Next == /\ inst = 0 - 1
        /\ IF bucket[2] = 0 THEN inst' = 0 ELSE \E a \in 1..NA : inst' = a
        /\ UNCHANGED bucket
Spec == Init /\ [][Next]_<<bucket, inst>>

\* the tuples of argument alternatives that start with `first`
\* from the third argument on a reduced pool keeps the product small:
\* null 0 1 -1 1.5 "a" "ab" [1,2] "e-acute" (+ the rest when Small is larger) and one reference
SmallIdx == <<1, 3, 4, 5, 7, 9, 10, 13, 21, 2, 6, 8, 11, 12, 14, 15, 16, 17, 18, 19, 20, 22, 23>>
SmallSet == { SmallIdx[i] : i \in 1..Small } \cup {NV + 1}
RestPool(pos) == IF pos <= 2 THEN 1..NA ELSE SmallSet
Tuples(n, first) ==
  CASE n = 0 -> { <<>> }
    [] n = 1 -> { <<first>> }
    [] n = 2 -> { <<first, b>> : b \in RestPool(2) }
    [] n = 3 -> { <<first, b, c>> : b \in RestPool(2), c \in RestPool(3) }
    [] n = 4 -> { <<first, b, c, d>> : b \in SmallSet, c \in RestPool(3), d \in RestPool(4) }

RECURSIVE ArgsToks(_, _)
ArgsToks(tp, i) == IF i > Len(tp) THEN <<>>
                   ELSE (IF i > 1 THEN <<Comma>> ELSE <<>>) \o ArgToks(tp[i]) \o ArgsToks(tp, i + 1)
CallToks(f, tp) == <<Id(f), LP>> \o ArgsToks(tp, 1) \o <<RP>>

Check == inst >= 0 =>
  LET f  == FnSeq[bucket[1]]
      n  == bucket[2]
      tps == Tuples(n, inst)
      one(tp) == LET ts == CallToks(f, tp) IN [expr |-> Render(ts), adm |-> Admissible(ts, Null), tp |-> tp]
      cases == { one(tp) : tp \in tps }
      case == [p |-> Prop, kind |-> "search", doc |-> Null,
               multi |-> { [expr |-> c.expr, adm |-> c.adm] : c \in cases }]
      known == f \in FnNames
      arityOk == known /\ n >= Sigs[f].min /\ (Sigs[f].max < 0 \/ n <= Sigs[f].max)
  IN /\ Emit => PrintT("CASE " \o ToJson(case))
     /\ Named(~known => \A c \in cases : c.adm = {Err("unknown-function")}, "UnknownFunction")
     /\ Named((known /\ ~arityOk) => \A c \in cases : \A o \in c.adm : IsErr(o) /\ "invalid-arity" \in o.cs, "ArityIffOutOfRange")
     /\ Named(arityOk => \A c \in cases : \A o \in c.adm : ~(IsErr(o) /\ "invalid-arity" \in o.cs) \/ IsAny(o), "NoArityWhenInRange")
     \* a value argument whose type is outside the signature (or a reference
     \* where a value is expected and vice versa) gives invalid-type
     /\ Named(arityOk => \A c \in cases :
                 (\E i \in 1..n : IF c.tp[i] <= NV THEN (i \in Sigs[f].refs \/ Vals[c.tp[i]].t \notin ArgTypes(f, i))
                                                   ELSE i \notin Sigs[f].refs)
                 => \A o \in c.adm : IsAny(o) \/ (IsErr(o) /\ "invalid-type" \in o.cs), "TypeErrorIffOutsideSignature")
     \* a call that is well-typed at the top level never reports arity/unknown
     /\ Named(arityOk => \A c \in cases : \A o \in c.adm :
                 IsErr(o) => o.cs \subseteq {"invalid-type", "invalid-value", "not-a-number"}, "OnlyDynamicCategories")
=============================================================================
