\* GENERATED from GenCarrier.tla.in by bin/tlapp -- edit the .in file
---------------------------- MODULE GenCarrier ----------------------------
(***************************************************************************)
(* Number carriers (property C14).  The document {a: v1, b: v2,            *)
(* c: [v1, v2, v1]} is built by the harness with every assignment of Go    *)
(* numeric kinds to its number leaves (json.Number, the signed and         *)
(* unsigned integer kinds, float32/64, decimal; an assignment that cannot  *)
(* hold a value exactly is skipped by the harness).  In the specification  *)
(* the carrier is not an input of Eval at all, so the admissible outcome   *)
(* is the same for every assignment: that is the property.  Values and     *)
(* expressions are chosen so that every intermediate is exactly            *)
(* representable in every kind that can hold the operands.                 *)
(***************************************************************************)
EXTENDS JMES, Json, Toks, SequencesExt
CONSTANTS Emit, Prop, Big, KindsA, KindsB

Kinds == <<"json", "int", "int8", "int16", "int32", "int64", "uint", "uint8", "uint16", "uint32", "uint64",
           "float32", "float64", "decimal">>
Vals == IF Big THEN { JInt(0), JInt(1), JInt(0 - 1), JInt(2), JInt(3), JInt(0 - 7), Num(5, 0 - 1), Num(0 - 25, 0 - 1), JInt(100) }
        ELSE { JInt(0), JInt(1), JInt(2), JInt(0 - 7), Num(5, 0 - 1), Num(0 - 25, 0 - 1), JInt(100) }
ValSeq == SetToSeq(Vals)
DocOf(v1, v2) == Obj(<<Mem(<<97>>, v1), Mem(<<98>>, v2), Mem(<<99>>, Arr(<<v1, v2, v1>>))>>)

A == Id(<<97>>)  B == Id(<<98>>)  C == Id(<<99>>)
Fn(name, args) == <<Id(name), LP>> \o args \o <<RP>>
Exprs == {
  <<A, PlusT, B>>, <<A, MinusT, B>>, <<A, Star, B>>, <<A, DivT, B>>, <<A, IDivT, B>>, <<A, ModT, B>>,
  <<A, EqT, B>>, <<A, NeT, B>>, <<A, LtT, B>>, <<A, LeT, B>>, <<A, GtT, B>>, <<A, GeT, B>>,
  <<A, EqT, Json(<<96,49,96>>)>>, <<A, LtT, Json(<<96,48,46,53,96>>)>>,
  Fn(<<115,111,114,116>>, <<C>>), Fn(<<109,97,120>>, <<C>>), Fn(<<109,105,110>>, <<C>>), Fn(<<115,117,109>>, <<C>>), Fn(<<97,118,103>>, <<LB, A, Comma, B, RB>>),
  Fn(<<97,98,115>>, <<A>>), Fn(<<99,101,105,108>>, <<A>>), Fn(<<102,108,111,111,114>>, <<A>>), <<MinusT, A>>, <<PlusT, A>>, <<NotT, A>>,
  <<A, AndT, B>>, <<A, OrT, B>>, <<C, Filt, CurT, EqT, Json(<<96,49,96>>), RB>>, <<C, Filt, CurT, GtT, RootT, Dot, B, RB>>,
  <<C, Filt, CurT, RB>>, Fn(<<116,121,112,101>>, <<A>>), Fn(<<116,111,95,110,117,109,98,101,114>>, <<A>>), Fn(<<99,111,110,116,97,105,110,115>>, <<C, Comma, B>>),
  Fn(<<99,111,110,116,97,105,110,115>>, <<C, Comma, Json(<<96,49,46,48,96>>)>>), Fn(<<115,111,114,116,95,98,121>>, <<LB, LBr, Id(<<107>>), Colon, A, RBr, Comma, LBr, Id(<<107>>), Colon, B, RBr, RB, Comma, AmpT, Id(<<107>>)>>),
  Fn(<<109,97,120,95,98,121>>, <<LB, LBr, Id(<<107>>), Colon, A, RBr, Comma, LBr, Id(<<107>>), Colon, B, RBr, RB, Comma, AmpT, Id(<<107>>)>>),
  Fn(<<112,97,100,95,108,101,102,116>>, <<Raw(<<39,120,39>>), Comma, A>>), Fn(<<112,97,100,95,114,105,103,104,116>>, <<Raw(<<39,120,39>>), Comma, B, Comma, Raw(<<39,45,39>>)>>),
  Fn(<<102,105,110,100,95,102,105,114,115,116>>, <<Raw(<<39,97,98,99,97,98,99,39>>), Comma, Raw(<<39,98,39>>), Comma, A>>),
  Fn(<<102,105,110,100,95,108,97,115,116>>, <<Raw(<<39,97,98,99,97,98,99,39>>), Comma, Raw(<<39,98,39>>), Comma, Json(<<96,48,96>>), Comma, B>>),
  Fn(<<115,112,108,105,116>>, <<Raw(<<39,97,44,98,44,99,39>>), Comma, Raw(<<39,44,39>>), Comma, A>>),
  Fn(<<114,101,112,108,97,99,101>>, <<Raw(<<39,97,97,97,39>>), Comma, Raw(<<39,97,39>>), Comma, Raw(<<39,98,39>>), Comma, B>>),
  Fn(<<108,101,110,103,116,104>>, <<C>>) \o <<EqT, A>>, <<LB, A, Comma, B, RB>>, Fn(<<116,111,95,97,114,114,97,121>>, <<A>>), Fn(<<110,111,116,95,110,117,108,108>>, <<A, Comma, B>>),
  \* the TEXT of to_string on a number follows the carrier's spelling and is
  \* not pinned; its value is
  Fn(<<116,111,95,110,117,109,98,101,114>>, Fn(<<116,111,95,115,116,114,105,110,103>>, <<A>>)) \o <<EqT, A>>,
  Fn(<<122,105,112>>, <<C, Comma, C>>), Fn(<<114,101,118,101,114,115,101>>, <<C>>), <<C, LB, Colon, Colon, IntT(<<45,49>>), RB>>, Fn(<<109,101,114,103,101>>, <<LBr, Id(<<107>>), Colon, A, RBr, Comma, LBr, Id(<<106>>), Colon, B, RBr>>) }

VARIABLES bucket, idx
Init == bucket \in 1..Len(ValSeq) /\ idx = 0
Next == idx = 0 /\ \E j \in 1..Len(ValSeq) : idx' = j /\ UNCHANGED bucket
Spec == Init /\ [][Next]_<<bucket, idx>>

Check == idx > 0 =>
  LET v1 == ValSeq[bucket]  v2 == ValSeq[idx]
      doc == DocOf(v1, v2)
      \* leaves in pre-order of the canonical document: a, b, c[0], c[1], c[2]
      assigns == { <<ka, kb, ka, kb, kc>> : ka \in KindsA, kb \in KindsB, kc \in {"json", "float64", "int64"} }
      adm(e) == Admissible(e, doc)
      case == [p |-> Prop, kind |-> "search", doc |-> doc,
               multi |-> { [expr |-> Render(e), adm |-> adm(e), carriers |-> cr] : e \in Exprs, cr \in assigns }]
      \* Where the specification leaves the VALUE of // and % open (operands of opposite sign) the property still
      \* says that it does not depend on the carrier: all assignments must agree.  (Only these two: an open
      \* quotient such as 0.5 / -7 is not exactly representable, which C14 excludes -- demanding agreement there
      \* was a false alarm of the first version of this case.)
      agree == [p |-> Prop, kind |-> "search", doc |-> doc,
                multi |-> { [expr |-> Render(e), adm |-> adm(e), carriersets |-> SetToSeq(assigns)] :
                            e \in { x \in {<<A, IDivT, B>>, <<A, ModT, B>>} : Open \in adm(x) } }]
  IN /\ Emit => PrintT("CASE " \o ToJson(case))
     /\ (Emit /\ agree.multi # {}) => PrintT("CASE " \o ToJson(agree))
=============================================================================
