SPECIFICATION LexSpec
INVARIANTS
  LexAgrees
PROPERTIES
  LexProgress
CHECK_DEADLOCK FALSE
