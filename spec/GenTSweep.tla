\* GENERATED from GenTSweep.tla.in by bin/tlapp -- edit the .in file
---------------------------- MODULE GenTSweep ----------------------------
(***************************************************************************)
(* Templates swept over a size parameter n (properties C12, C19, C16,      *)
(* C01): the DOCUMENT, the EXPRESSION and the EXPECTED VALUE are all texts *)
(* with holes, instantiated for every n in a range,                        *)
(*      REP(body)   body repeated n times, IDX inside it = 0 .. n-1        *)
(*      NUM(a, b)   the number a*n + b in decimal                           *)
(* e.g. document {"s":"REP(a)é0123456789"}, expression s[NUM(1,1):],       *)
(* expected "0123456789": a multi-byte character at EVERY offset, the      *)
(* slice bound following it.  Or  let $z = `0` REP(, $vIDX = `IDX`) in ... *)
(* with n DISTINCT variable names.  TLC instantiates each family for       *)
(* n = From .. From + 3, decodes document and expected value with the      *)
(* specification's JSON decoder and checks them against the full semantics *)
(* (TemplateLemma); the harness instantiates the same templates for every  *)
(* n up to To (1100 quick / 9000 thorough) on the real code.               *)
(***************************************************************************)
EXTENDS JMES, Json, Toks, SequencesExt
CONSTANTS Emit, Prop, To

OPENR == 57360  CLOSER == 57361  IDXC == 57344  NUMBASE == 57600
REP(body) == <<OPENR>> \o body \o <<CLOSER>>
IDX == <<IDXC>>
NUM(a, b) == <<NUMBASE + 32 * a + b + 8>>          \* a in 0..3, b in -8..23

RECURSIVE DecCps(_)
DecCps(k) == IF k < 0 THEN <<45>> \o DecCps(0 - k) ELSE IF k < 10 THEN <<48 + k>> ELSE DecCps(k \div 10) \o <<48 + (k % 10)>>
RECURSIVE Subst(_, _, _, _)
Subst(s, j, n, i) ==
  IF j > Len(s) THEN <<>>
  ELSE (IF s[j] = IDXC THEN DecCps(i)
        ELSE IF s[j] >= NUMBASE /\ s[j] < NUMBASE + 128
             THEN LET a == (s[j] - NUMBASE) \div 32  b == ((s[j] - NUMBASE) % 32) - 8 IN DecCps(a * n + b)
             ELSE <<s[j]>>) \o Subst(s, j + 1, n, i)
RECURSIVE Times(_, _, _)
Times(body, n, i) == IF i >= n THEN <<>> ELSE Subst(body, 1, n, i) \o Times(body, n, i + 1)
RECURSIVE Inst(_, _)
Inst(t, n) ==
  IF \A j \in 1..Len(t) : t[j] # OPENR THEN Subst(t, 1, n, 0)
  ELSE LET o == CHOOSE j \in 1..Len(t) : t[j] = OPENR /\ \A k \in 1..(j - 1) : t[k] # OPENR
           c == CHOOSE j \in (o + 1)..Len(t) : t[j] = CLOSER /\ \A k \in (o + 1)..(j - 1) : t[k] # CLOSER
       IN Subst(SubSeq(t, 1, o - 1), 1, n, 0) \o Times(SubSeq(t, o + 1, c - 1), n, 0) \o Inst(SubSeq(t, c + 1, Len(t)), n)

ParseJ(cps) == LET r == JVal(cps, SkipJWs(cps, 1), FALSE) IN IF r.ok /\ ~r.big THEN r.v ELSE [t |-> "unparsed"]

F(f, from, doc, expr, exp) == [f |-> f, from |-> from, doc |-> doc, expr |-> expr, exp |-> exp]
Wide == << <<233>>, <<8364>>, <<128512>> >>
Families == UNION {
  \* ---- a multi-byte character after n ASCII letters: every string operation that counts code points
  UNION { LET w == Wide[k]  d == <<123,34,115,34,58,34>> \o REP(<<97>>) \o w \o <<48,49,50,51,52,53,54,55,56,57,34,125>>  nm == <<"e2", "e3", "e4">>[k] IN {
    F("sl-from-" \o nm, 0, d, <<115,91>> \o NUM(1, 1) \o <<58,93>>, <<34,48,49,50,51,52,53,54,55,56,57,34>>),
    F("sl-to-" \o nm, 0, d, <<115,91,58>> \o NUM(1, 1) \o <<93>>, <<34>> \o REP(<<97>>) \o w \o <<34>>),
    F("sl-mid-" \o nm, 0, d, <<115,91>> \o NUM(1, 0) \o <<58>> \o NUM(1, 2) \o <<93>>, <<34>> \o w \o <<48,34>>),
    F("sl-step-" \o nm, 0, d, <<115,91>> \o NUM(1, 1) \o <<58,58,50,93>>, <<34,48,50,52,54,56,34>>),
    F("sl-neg-" \o nm, 0, d, <<115,91,45,49,49,58,93>>, <<34>> \o w \o <<48,49,50,51,52,53,54,55,56,57,34>>),
    F("sl-rev-" \o nm, 0, d, <<114,101,118,101,114,115,101,40,115,41,91,58,49,49,93>>, <<34,57,56,55,54,53,52,51,50,49,48>> \o w \o <<34>>),
    F("sl-before-" \o nm, 1, d, <<115,91>> \o NUM(1, 0 - 1) \o <<58>> \o NUM(1, 1) \o <<93>>, <<34,97>> \o w \o <<34>>),
    F("len-" \o nm, 0, d, <<108,101,110,103,116,104,40,115,41>>, NUM(1, 11)),
    F("find-" \o nm, 0, d, <<102,105,110,100,95,102,105,114,115,116,40,115,44,32,39,48,39,41>>, NUM(1, 1)),
    F("findlast-" \o nm, 0, d, <<102,105,110,100,95,108,97,115,116,40,115,44,32,39>> \o w \o <<39,41>>, NUM(1, 0)),
    F("rev-" \o nm, 0, d, <<114,101,118,101,114,115,101,40,115,41>>, <<34,57,56,55,54,53,52,51,50,49,48>> \o w \o REP(<<97>>) \o <<34>>),
    F("padl-" \o nm, 0, d, <<112,97,100,95,108,101,102,116,40,115,44,32,96>> \o NUM(1, 13) \o <<96,44,32,39>> \o w \o <<39,41>>, <<34>> \o w \o w \o REP(<<97>>) \o w \o <<48,49,50,51,52,53,54,55,56,57,34>>),
    F("split-" \o nm, 0, d, <<115,112,108,105,116,40,115,44,32,39>> \o w \o <<39,41>>, <<91,34>> \o REP(<<97>>) \o <<34,44,34,48,49,50,51,52,53,54,55,56,57,34,93>>),
    F("repl-" \o nm, 0, d, <<114,101,112,108,97,99,101,40,115,44,32,39>> \o w \o <<39,44,32,39,45,39,41>>, <<34>> \o REP(<<97>>) \o <<45,48,49,50,51,52,53,54,55,56,57,34>>),
    F("ends-" \o nm, 0, d, <<101,110,100,115,95,119,105,116,104,40,115,44,32,39>> \o w \o <<48,49,50,51,52,53,54,55,56,57,39,41>>, <<116,114,117,101>>),
    F("two-" \o nm, 0, <<123,34,115,34,58,34>> \o REP(<<97>>) \o w \o REP(<<98>>) \o w \o <<120,121,122,34,125>>, <<115,91>> \o NUM(2, 2) \o <<58,93>>, <<34,120,121,122,34>>),
    F("two-mid-" \o nm, 0, <<123,34,115,34,58,34>> \o REP(<<97>>) \o w \o REP(<<98>>) \o w \o <<120,121,122,34,125>>, <<115,91>> \o NUM(1, 1) \o <<58>> \o NUM(2, 1) \o <<93>>, <<34>> \o REP(<<98>>) \o <<34>>) }
    : k \in 1..3 },
  \* ---- n DISTINCT names
  { F("wide-let", 0, <<123,34,113,34,58,49,125>>, <<108,101,116,32,36,122,32,61,32,96,48,96>> \o REP(<<44,32,36,118>> \o IDX \o <<32,61,32,96>> \o IDX \o <<96>>) \o <<32,105,110,32,91,36,122>> \o REP(<<44,32,36,118>> \o IDX) \o <<93>>,
      <<91,48>> \o REP(<<44>> \o IDX) \o <<93>>),
    F("nested-lets", 0, <<123,34,113,34,58,49,125>>, REP(<<108,101,116,32,36,118>> \o IDX \o <<32,61,32,96>> \o IDX \o <<96,32,105,110,32>>) \o <<91,96,48,96>> \o REP(<<44,32,36,118>> \o IDX) \o <<93>>,
      <<91,48>> \o REP(<<44>> \o IDX) \o <<93>>),
    F("last-var", 1, <<123,34,113,34,58,49,125>>, <<108,101,116,32,36,122,32,61,32,96,48,96>> \o REP(<<44,32,36,118>> \o IDX \o <<32,61,32,96>> \o IDX \o <<96>>) \o <<32,105,110,32,91,36,118>> \o NUM(1, 0 - 1) \o <<44,32,36,118,48,44,32,36,122,93>>,
      <<91>> \o NUM(1, 0 - 1) \o <<44,48,44,48,93>>),
    F("shadow-distinct", 2, <<123,34,113,34,58,49,125>>, REP(<<108,101,116,32,36,118>> \o IDX \o <<32,61,32,96>> \o IDX \o <<96,32,105,110,32>>) \o <<108,101,116,32,36,118,48,32,61,32,96,55,96,32,105,110,32,91,36,118,48,44,32,36,118>> \o NUM(1, 0 - 1) \o <<93>>,
      <<91,55,44>> \o NUM(1, 0 - 1) \o <<93>>),
    F("unbound-among-many", 0, <<123,34,113,34,58,49,125>>, <<108,101,116,32,36,122,32,61,32,96,48,96>> \o REP(<<44,32,36,118>> \o IDX \o <<32,61,32,96>> \o IDX \o <<96>>) \o <<32,105,110,32,36,119>>, <<83,89,78,84,65,88,58,117,110,100,101,102,105,110,101,100,45,118,97,114,105,97,98,108,101>>),
    F("fields", 0, <<123,34,122,34,58,48>> \o REP(<<44,34,102>> \o IDX \o <<34,58>> \o IDX) \o <<125>>, <<91,122>> \o REP(<<44,32,102>> \o IDX) \o <<93>>, <<91,48>> \o REP(<<44>> \o IDX) \o <<93>>),
    F("field-last", 1, <<123,34,122,34,58,48>> \o REP(<<44,34,102>> \o IDX \o <<34,58>> \o IDX) \o <<125>>, <<102>> \o NUM(1, 0 - 1), NUM(1, 0 - 1)),
    F("keys-count", 0, <<123,34,122,34,58,48>> \o REP(<<44,34,102>> \o IDX \o <<34,58>> \o IDX) \o <<125>>, <<108,101,110,103,116,104,40,107,101,121,115,40,64,41,41>>, NUM(1, 1)),
    F("hash-keys", 0, <<123,34,122,34,58,48>> \o REP(<<44,34,102>> \o IDX \o <<34,58>> \o IDX) \o <<125>>, <<123,122,58,32,122>> \o REP(<<44,32,107>> \o IDX \o <<58,32,102>> \o IDX) \o <<125>>,
      <<123,34,122,34,58,48>> \o REP(<<44,34,107>> \o IDX \o <<34,58>> \o IDX) \o <<125>>),
    F("merge-many", 0, <<123,34,113,34,58,49,125>>, <<109,101,114,103,101,40>> \o REP(<<96,123,34,107>> \o IDX \o <<34,58>> \o IDX \o <<125,96,44,32>>) \o <<96,123,34,122,122,34,58,49,125,96,41>>, <<123>> \o REP(<<34,107>> \o IDX \o <<34,58>> \o IDX \o <<44>>) \o <<34,122,122,34,58,49,125>>),
    F("args-many", 0, <<123,34,122,34,58,53,125>>, <<110,111,116,95,110,117,108,108,40>> \o REP(<<110,105,108>> \o IDX \o <<44,32>>) \o <<122,41>>, <<53>>),
    \* ---- arrays in the document
    F("elem-last", 1, <<123,34,120,34,58,91,48>> \o REP(<<44>> \o IDX) \o <<93,125>>, <<120,91>> \o NUM(1, 0) \o <<93>>, NUM(1, 0 - 1)),
    F("elem-neg", 0, <<123,34,120,34,58,91,48>> \o REP(<<44>> \o IDX) \o <<93,125>>, <<120,91,45>> \o NUM(1, 1) \o <<93>>, <<48>>),
    F("elem-beyond", 0, <<123,34,120,34,58,91,48>> \o REP(<<44>> \o IDX) \o <<93,125>>, <<120,91>> \o NUM(1, 1) \o <<93>>, <<110,117,108,108>>),
    F("arr-slice", 2, <<123,34,120,34,58,91,48>> \o REP(<<44>> \o IDX) \o <<93,125>>, <<120,91>> \o NUM(1, 0 - 1) \o <<58,93>>, <<91>> \o NUM(1, 0 - 2 + 0) \o <<44>> \o NUM(1, 0 - 1) \o <<93>>),
    F("arr-len", 0, <<123,34,120,34,58,91,48>> \o REP(<<44>> \o IDX) \o <<93,125>>, <<108,101,110,103,116,104,40,120,91,63,64,32,62,61,32,96,48,96,93,41>>, NUM(1, 1)),
    F("flatten", 0, <<123,34,120,34,58,91,91,48,93>> \o REP(<<44,91>> \o IDX \o <<93>>) \o <<93,125>>, <<120,91,93>>, <<91,48>> \o REP(<<44>> \o IDX) \o <<93>>),
    F("proj-field", 0, <<123,34,120,34,58,91,123,34,97,34,58,48,125>> \o REP(<<44,123,34,97,34,58>> \o IDX \o <<125>>) \o <<93,125>>, <<120,91,42,93,46,97>>, <<91,48>> \o REP(<<44>> \o IDX) \o <<93>>) } }

FamSeq == SetToSeq(Families)
VARIABLES bucket, idx
Init == bucket \in 1..Len(FamSeq) /\ idx = 0
Next == idx = 0 /\ idx' = 1 /\ UNCHANGED bucket
Spec == Init /\ [][Next]_<<bucket, idx>>

IsErrExp(e) == Len(e) > 7 /\ SubSeq(e, 1, 7) = <<83,89,78,84,65,88,58>>
Check == idx > 0 =>
  LET fm == FamSeq[bucket]
      case == [p |-> Prop, kind |-> "tsweep", family |-> fm.f, from |-> fm.from, to |-> To, doc |-> fm.doc, expr |-> fm.expr, exp |-> fm.exp]
      ok(n) == LET doc == ParseJ(Inst(fm.doc, n))
                   adm == AdmissibleText(Inst(fm.expr, n), doc)
               IN doc.t # "unparsed" /\
                  (IF IsErrExp(fm.exp) THEN adm = {Err("undefined-variable")}
                   ELSE LET want == ParseJ(Inst(fm.exp, n)) IN want.t # "unparsed" /\ adm = {want})
  IN /\ Emit => PrintT("CASE " \o ToJson(case))
     /\ Named(\A n \in fm.from..(fm.from + 3) : ok(n) \/ ~PrintT(<<"TEMPLATE", fm.f, n, Inst(fm.expr, n), AdmissibleText(Inst(fm.expr, n), ParseJ(Inst(fm.doc, n)))>>), "TemplateLemma")
=============================================================================
