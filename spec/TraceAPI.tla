\* GENERATED from TraceAPI.tla.in by bin/tlapp -- edit the .in file
----------------------------- MODULE TraceAPI -----------------------------
(***************************************************************************)
(* Trace specification for recorded API histories (direction B for         *)
(* properties C06, C08, C18).  The harness drives the real library with    *)
(* randomly chosen histories -- Compile, MustCompile, Search,              *)
(* Expression.Search, and results fed back as documents -- and logs one    *)
(* event per public call at its return.  This module consumes the log      *)
(* line by line with the actions of the API machine: an event is           *)
(* explainable iff it is an enabled action whose logged outcome lies in    *)
(* the admissible set computed from the texts and documents the SPEC has   *)
(* accumulated so far (not from anything the log claims about them).       *)
(* Events that are not explainable are collected in `bad`; acceptance is   *)
(* by POSTCONDITION: every line consumed and bad empty.                    *)
(***************************************************************************)
EXTENDS JMES, Json

CONSTANT File
Trace == ndJsonDeserialize(File)

VARIABLES l, hs, docs, outs, bad
vars == <<l, hs, docs, outs, bad>>

Init == l = 1 /\ hs = <<>> /\ docs = <<>> /\ outs = <<>> /\ bad = {}
ev == Trace[l]
Out(e) == IF e.out.t = "err" THEN ErrS(SeqRange(e.out.cs)) ELSE e.out
NoOut == [t |-> "none"]

StaticOk(text, e) ==
  LET S == StaticAdmissibleText(text) IN
  IF e.ok THEN \E o \in S : o.ok
  ELSE \E o \in S : ~o.ok /\ SeqRange(e.out.cs) \subseteq o.cs

Step(ok, newhs, newdocs, out) ==
  /\ l' = l + 1
  /\ hs' = newhs /\ docs' = newdocs
  /\ outs' = Append(outs, out)
  /\ bad' = IF ok THEN bad ELSE bad \cup {ev.seq}

Reset    == ev.op = "reset" /\ l' = l + 1 /\ hs' = <<>> /\ docs' = ev.docs /\ outs' = <<>> /\ bad' = bad
Compile1 == ev.op = "compile" /\ Step(StaticOk(ev.expr, ev), IF ev.ok THEN Append(hs, ev.expr) ELSE hs, docs, NoOut)
\* MustCompile panics exactly when the text has a static fault
Must1    == ev.op = "mustcompile" /\ Step(StaticOk(ev.expr, [ev EXCEPT !.ok = ~ev.panicked]) \/ (ev.panicked /\ \E o \in StaticAdmissibleText(ev.expr) : ~o.ok),
                                         hs, docs, NoOut)
\* an event that refers to a document / handle / call the specification does
\* not have (because an earlier event was wrong) is itself unexplainable
Search1  == ev.op = "search"
            /\ IF ev.d <= Len(docs)
               THEN Step(Admits(AdmissibleText(ev.expr, docs[ev.d]), Out(ev)), hs, docs, Out(ev))
               ELSE Step(FALSE, hs, docs, NoOut)
ExprS1   == ev.op = "exprsearch"
            /\ IF ev.d <= Len(docs) /\ ev.h <= Len(hs)
               THEN Step(Admits(AdmissibleText(hs[ev.h], docs[ev.d]), Out(ev)), hs, docs, Out(ev))
               ELSE Step(FALSE, hs, docs, NoOut)
\* the value returned by call c (as the spec saw it) becomes a document
Feed1    == ev.op = "feedback"
            /\ IF ev.c <= Len(outs) /\ IsVal(outs[ev.c])
               THEN Step(TRUE, hs, Append(docs, outs[ev.c]), NoOut)
               ELSE Step(FALSE, hs, docs, NoOut)

Next == l <= Len(Trace) /\ (Reset \/ Compile1 \/ Must1 \/ Search1 \/ ExprS1 \/ Feed1)
Spec == Init /\ [][Next]_vars

\* documents and handles only grow inside one history
Immutable == [][ ev.op # "reset" => (/\ \A d \in 1..Len(docs) : docs'[d] = docs[d]
                                      /\ \A h \in 1..Len(hs) : hs'[h] = hs[h]) ]_vars
Report == (l = Len(Trace) + 1) => PrintT(<<"TRACE-END", Len(Trace), bad>>)
Accepted == TLCGet("stats").diameter - 1 = Len(Trace)
=============================================================================
