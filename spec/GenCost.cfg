SPECIFICATION Spec
CONSTANTS
  Emit = FALSE
  Prop = "C09"
INVARIANTS
  Check
CHECK_DEADLOCK FALSE
