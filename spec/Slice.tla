\* GENERATED from Slice.tla.in by bin/tlapp -- edit the .in file
------------------------------ MODULE Slice ------------------------------
(***************************************************************************)
(* The slice walk  x[start:stop:step]  (property C12), defined twice:      *)
(*   SliceIdx   the standard's clamp-and-walk algorithm                    *)
(*   SliceSet   the set-comprehension definition (Python's semantics)      *)
(* TLC checks that they agree and that any |x| > n behaves like n + 1      *)
(* (SliceLemmas.cfg), which is what justifies the Huge sentinel used for   *)
(* 64-bit magnitudes.                                                      *)
(* A slice part is [p |-> present, v |-> integer].  Indices are 0-based.   *)
(***************************************************************************)
EXTENDS Integers, Sequences, FiniteSets, SliceCap

\* Cap (the clamp of an explicit bound) lives in SliceCap.tla, where TLAPS proves its properties for all integers
StepOf(sl) == IF sl[3].p THEN sl[3].v ELSE 1
StartOf(len, sl) == LET st == StepOf(sl) IN
  IF sl[1].p THEN Cap(len, sl[1].v, st) ELSE IF st < 0 THEN len - 1 ELSE 0
StopOf(len, sl) == LET st == StepOf(sl) IN
  IF sl[2].p THEN Cap(len, sl[2].v, st) ELSE IF st < 0 THEN 0 - 1 ELSE len

\* the walk, as the sequence of visited 0-based indices (step # 0)
RECURSIVE Walk(_, _, _)
Walk(i, stop, step) ==
  IF Visits(i, stop, step)
  THEN <<i>> \o Walk(i + step, stop, step) ELSE <<>>

SliceIdx(len, sl) == Walk(StartOf(len, sl), StopOf(len, sl), StepOf(sl))

\* independent definition: { start + k*step } inside the clamped interval
SliceSet(len, sl) ==
  LET st == StepOf(sl)  a == StartOf(len, sl)  b == StopOf(len, sl) IN
  { i \in 0..(len - 1) :
      /\ (st > 0 => i >= a /\ i < b) /\ (st < 0 => i <= a /\ i > b)
      /\ (i - a) % (IF st < 0 THEN 0 - st ELSE st) = 0 }

\* elements of sequence s selected by the slice, in walk order
SliceSeq(s, sl) == LET ix == SliceIdx(Len(s), sl) IN [j \in 1..Len(ix) |-> s[ix[j] + 1]]

\* ---- lemmas checked by TLC on small instances ---------------------------
SeqToSet(q) == {q[i] : i \in 1..Len(q)}
Monotone(q, st) == \A i \in 1..(Len(q) - 1) : IF st > 0 THEN q[i] < q[i + 1] ELSE q[i] > q[i + 1]
AgreeLemma(len, sl) == StepOf(sl) # 0 =>
  LET q == SliceIdx(len, sl) IN
    /\ SeqToSet(q) = SliceSet(len, sl)
    /\ Monotone(q, StepOf(sl))
    /\ Len(q) = Cardinality(SliceSet(len, sl))
\* any magnitude beyond the length behaves like length + 1
ClampV(len, p) == IF ~p.p THEN p
                  ELSE IF p.v > len + 1 THEN [p |-> TRUE, v |-> len + 1]
                  ELSE IF p.v < 0 - (len + 1) THEN [p |-> TRUE, v |-> 0 - (len + 1)]
                  ELSE p
HugeLemma(len, sl) == StepOf(sl) # 0 =>
  SliceIdx(len, sl) = SliceIdx(len, <<ClampV(len, sl[1]), ClampV(len, sl[2]), ClampV(len, sl[3])>>)
=============================================================================
