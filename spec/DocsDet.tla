\* GENERATED from Det.json by lib/tlagen.py
---- MODULE DocsDet ----
EXTENDS JValue
PoolDet == <<
  \* {"x": {"c": "3", "a": "1", "b": "2"}, "a": {"z": ["1", "2"], "y": {"q": "1", "p": "2"}, "x": null}, "b": [{"k": "u", "v": "1"}, {"k": "t", "v": "2"}, {"k": "u", "v": "3"}]}
  Obj(<<Mem(<<97>>, Obj(<<Mem(<<120>>, Null), Mem(<<121>>, Obj(<<Mem(<<112>>, JInt(2)), Mem(<<113>>, JInt(1))>>)), Mem(<<122>>, Arr(<<JInt(1), JInt(2)>>))>>)), Mem(<<98>>, Arr(<<Obj(<<Mem(<<107>>, Str(<<117>>)), Mem(<<118>>, JInt(1))>>), Obj(<<Mem(<<107>>, Str(<<116>>)), Mem(<<118>>, JInt(2))>>), Obj(<<Mem(<<107>>, Str(<<117>>)), Mem(<<118>>, JInt(3))>>)>>)), Mem(<<120>>, Obj(<<Mem(<<97>>, JInt(1)), Mem(<<98>>, JInt(2)), Mem(<<99>>, JInt(3))>>))>>),
  \* {"x": [{"b": "2", "a": "1"}, {"a": "3", "c": "4", "b": "5"}], "a": {"m": {"b": "1", "a": "2"}, "n": {"a": "3"}}, "b": {"a": ["3", "1"], "b": ["2"]}}
  Obj(<<Mem(<<97>>, Obj(<<Mem(<<109>>, Obj(<<Mem(<<97>>, JInt(2)), Mem(<<98>>, JInt(1))>>)), Mem(<<110>>, Obj(<<Mem(<<97>>, JInt(3))>>))>>)), Mem(<<98>>, Obj(<<Mem(<<97>>, Arr(<<JInt(3), JInt(1)>>)), Mem(<<98>>, Arr(<<JInt(2)>>))>>)), Mem(<<120>>, Arr(<<Obj(<<Mem(<<97>>, JInt(1)), Mem(<<98>>, JInt(2))>>), Obj(<<Mem(<<97>>, JInt(3)), Mem(<<98>>, JInt(5)), Mem(<<99>>, JInt(4))>>)>>))>>),
  \* {"x": {"k3": {"a": "1"}, "k1": {"a": "2"}, "k2": {"a": "3"}}, "a": "1", "b": "2"}
  Obj(<<Mem(<<97>>, JInt(1)), Mem(<<98>>, JInt(2)), Mem(<<120>>, Obj(<<Mem(<<107, 49>>, Obj(<<Mem(<<97>>, JInt(2))>>)), Mem(<<107, 50>>, Obj(<<Mem(<<97>>, JInt(3))>>)), Mem(<<107, 51>>, Obj(<<Mem(<<97>>, JInt(1))>>))>>))>>)
>>
====
