\* GENERATED from GenBigStr.tla.in by bin/tlapp -- edit the .in file
---------------------------- MODULE GenBigStr ----------------------------
(***************************************************************************)
(* Ordering of LARGE arrays of strings of mixed encoded width (properties  *)
(* C11, C13): n strings  s_i = G[(7 i) mod 10] . dddd  (a leading glyph of *)
(* 1-4 bytes, then the index in four digits), in index order.  Evaluating  *)
(* the specification's sort on 500+ elements is beyond TLC, so the sorted  *)
(* array is given in closed form -- glyph classes in code point order,     *)
(* indices ascending inside a class -- and the closed form is checked      *)
(* against Eval / Builtins for n = 10, 20, 30 (ClosedFormIsTheSort).       *)
(***************************************************************************)
EXTENDS JMES, Json, Toks, SequencesExt
CONSTANTS Emit, Prop, Sizes          \* Sizes: multiples of 10

G == << <<36>>, <<97>>, <<127>>, <<233>>, <<2048>>, <<65535>>, <<65536>>, <<128512>>, <<97, 97>>, <<97, 233>> >>
Pad4(i) == <<48 + ((i \div 1000) % 10), 48 + ((i \div 100) % 10), 48 + ((i \div 10) % 10), 48 + (i % 10)>>
GlyphOf(i) == (7 * i) % 10                       \* 0-based glyph number of element i (0-based)
Elem(i) == Str(G[GlyphOf(i) + 1] \o Pad4(i))
XArr(n) == Arr([k \in 1..n |-> Elem(k - 1)])
DocOf(n) == Obj(<<Mem(<<120>>, XArr(n))>>)
\* rank of a glyph among the ten when a digit follows (code point order)
Before(a, b) == SeqLess(G[a + 1] \o <<48>>, G[b + 1] \o <<48>>)
RankOf(g) == Cardinality({ h \in 0..9 : Before(h, g) })
AtRank(r) == CHOOSE g \in 0..9 : RankOf(g) = r
\* elements with glyph g are i = c, c + 10, c + 20, ... with 7 c = g (mod 10), c = 3 g mod 10
SortedIdx(n) == LET m == n \div 10 IN
  [k \in 1..n |-> LET r == (k - 1) \div m  j == (k - 1) % m  g == AtRank(r) IN ((3 * g) % 10) + 10 * j]
Sorted(n) == LET si == SortedIdx(n) IN [k \in 1..n |-> Elem(si[k])]
FirstEven(n) == LET si == SortedIdx(n)
                    kk == CHOOSE q \in 1..n : si[q] % 2 = 0 /\ \A k2 \in 1..(q - 1) : si[k2] % 2 = 1
                IN Elem(si[kk])

X == Id(<<120>>)
Fn(name, args) == <<Id(name), LP>> \o args \o <<RP>>
Expect(n) == LET s == Sorted(n) IN <<
  [e |-> Fn(<<115,111,114,116>>, <<X>>), v |-> Arr(s)],
  [e |-> Fn(<<115,111,114,116,95,98,121>>, <<X, Comma, AmpT, CurT>>), v |-> Arr(s)],
  [e |-> Fn(<<114,101,118,101,114,115,101>>, Fn(<<115,111,114,116>>, <<X>>)), v |-> Arr(Rev(s))],
  [e |-> Fn(<<115,111,114,116>>, Fn(<<114,101,118,101,114,115,101>>, <<X>>)), v |-> Arr(s)],
  [e |-> Fn(<<109,97,120>>, <<X>>), v |-> s[n]],
  [e |-> Fn(<<109,105,110>>, <<X>>), v |-> s[1]],
  [e |-> Fn(<<109,97,120,95,98,121>>, <<X, Comma, AmpT, CurT>>), v |-> s[n]],
  [e |-> Fn(<<109,105,110,95,98,121>>, <<X, Comma, AmpT, CurT>>), v |-> s[1]],
  [e |-> Fn(<<115,111,114,116>>, <<X>>) \o <<EqT>> \o Fn(<<115,111,114,116>>, Fn(<<114,101,118,101,114,115,101>>, <<X>>)), v |-> JTrue],
  [e |-> Fn(<<115,111,114,116>>, <<X>>) \o <<EqT>> \o Fn(<<115,111,114,116,95,98,121>>, <<X, Comma, AmpT, CurT>>), v |-> JTrue],
  [e |-> Fn(<<108,101,110,103,116,104>>, Fn(<<115,111,114,116>>, <<X>>)), v |-> JInt(n)],
  [e |-> Fn(<<115,111,114,116>>, <<X, LB, Colon, Colon, IntT(<<50>>), RB>>) \o <<LB, IntT(<<48>>), RB>>,
   v |-> FirstEven(n)] >>

SizeSeq == SetToSeq(Sizes)
VARIABLES bucket, idx
Init == bucket \in 1..Len(SizeSeq) /\ idx = 0
Next == idx = 0 /\ idx' = 1 /\ UNCHANGED bucket
Spec == Init /\ [][Next]_<<bucket, idx>>

Check == idx > 0 =>
  LET n == SizeSeq[bucket]  ex == Expect(n)  doc == DocOf(n)
      case == [p |-> Prop, kind |-> "search", doc |-> doc,
               multi |-> { [expr |-> Render(ex[i].e), adm |-> {ex[i].v}] : i \in 1..Len(ex) }]
  IN /\ Emit => PrintT("CASE " \o ToJson(case))
     /\ Named(bucket # 1 \/ \A m \in {10, 20, 30} : LET e2 == Expect(m) IN
                 \A i \in 1..Len(e2) : Admissible(e2[i].e, DocOf(m)) = {e2[i].v}, "ClosedFormIsTheSort")
     /\ Named(\A g \in 0..9 : \E r \in 0..9 : AtRank(r) = g, "RanksAreAPermutation")
=============================================================================
