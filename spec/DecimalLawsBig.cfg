SPECIFICATION Spec
INVARIANTS
  BigLaws
CHECK_DEADLOCK FALSE
