SPECIFICATION Spec
CONSTANTS
  Emit = FALSE
  Prop = "C16"
INVARIANTS
  Check
CHECK_DEADLOCK FALSE
