\* GENERATED from GenChars.tla.in by bin/tlapp -- edit the .in file
----------------------------- MODULE GenChars -----------------------------
(***************************************************************************)
(* The language accepted by Compile (property C04): all concatenations of  *)
(* at most MaxLen lexemes of an alphabet.  The state is the sequence of    *)
(* lexeme indices; the text is their concatenation (no separators, so      *)
(* lexemes fuse exactly as characters do).                                 *)
(* For every text the specification computes the admissible STATIC         *)
(* outcomes over all readings.  Only texts whose outcome is not the plain  *)
(* {syntax error} are emitted -- the harness enumerates the same           *)
(* alphabet itself and requires a syntax error for every text that was not *)
(* emitted (so both "member rejected" and "non-member accepted" are        *)
(* caught without printing millions of rejected strings).                  *)
(* Model checks on every text: the lexer state machine's result is Lex     *)
(* (see LexMachine), rendering tokens and lexing again is the identity,    *)
(* and inserting a blank between two tokens of an accepted text keeps it   *)
(* accepted with the same AST.                                             *)
(***************************************************************************)
EXTENDS JMES, Json, Alphabets

CONSTANTS Emit, Prop, MaxLen, Alpha, AlphaName

VARIABLE s
Init == s = <<>>
Next == Len(s) < MaxLen /\ \E c \in 1..Len(Alpha) : s' = Append(s, c)
Spec == Init /\ [][Next]_s

RECURSIVE TextOf(_, _)
TextOf(q, i) == IF i > Len(q) THEN <<>> ELSE Alpha[q[i]] \o TextOf(q, i + 1)
Named(ok, name) == ok \/ ~PrintT("MODELFAIL " \o name)

PlainSyntax == {[ok |-> FALSE, cs |-> {"syntax"}]}

Check ==
  LET text == TextOf(s, 1)
      l    == Lex(text)
      sadm == StaticAdmissibleText(text)
      case == [p |-> Prop, kind |-> "static", alpha |-> AlphaName, expr |-> text, sadm |-> sadm]
      okAll == \A o \in sadm : o.ok
      \* blanks between tokens never matter for an accepted text
      spaced == [i \in 1..Len(l.ts) |-> [l.ts[i] EXCEPT !.sp = TRUE]]
  IN /\ (Emit /\ sadm # PlainSyntax) => PrintT("CASE " \o ToJson(case))
     /\ Named(l.ok => (LET r == Lex(Render(l.ts)) IN r.ok /\ r.ts = NormSp(l.ts)), "RenderLexRoundTrip")
     /\ Named((l.ok /\ okAll /\ ~HasWsComposite(spaced)) =>
                 Compile(spaced, DefaultMode).ok, "BlanksBetweenTokensNeutral")
=============================================================================
