------------------------------ MODULE Outcome ------------------------------
(* Outcomes shared by the language layer (JValue.tla) and the bignum layer    *)
(* (Decimal.tla): a failure carrying the set of error categories present, or *)
(* Open = not pinned by the standard or its corpus.                          *)
Err(c)    == [t |-> "err", cs |-> {c}]
ErrS(cs)  == [t |-> "err", cs |-> cs]
Open      == [t |-> "any"]
IsErr(x)  == x.t = "err"
IsAny(x)  == x.t = "any"
IsVal(x)  == x.t \notin {"err", "any"}
=============================================================================
