\* GENERATED from GenBigArr.tla.in by bin/tlapp -- edit the .in file
---------------------------- MODULE GenBigArr ----------------------------
(***************************************************************************)
(* Numeric functions on arrays far larger than TLC can enumerate           *)
(* (properties C05, C13, C14).  The array is not written out in the model: *)
(* x = [base + n - 1, ..., base + 1, base] (n consecutive integers,        *)
(* descending), built by the harness with a given Go carrier, and the      *)
(* expected results are closed forms computed with Decimal.tla:            *)
(*    sum = n*base + n(n-1)/2,  avg = sum / n,  max = base + n - 1, ...    *)
(* The closed forms are checked against Eval on small instances            *)
(* (FormulasAgreeWithEval).  n crosses the thresholds 127/128/129, 1000    *)
(* and 10^4; base puts the values around 2^53 (where float64 stops being   *)
(* exact) and at 15 digits (where 10^4 of them overflow 64 bits).          *)
(***************************************************************************)
EXTENDS JMES, Decimal, Json, Toks, SequencesExt
CONSTANTS Emit, Prop, Sizes

RECURSIVE NatDs(_)
NatDs(n) == IF n = 0 THEN <<>> ELSE NatDs(n \div 10) \o <<n % 10>>
DNat(n) == Norm(FALSE, NatDs(n), 0)
Bases == << DZero, Norm(FALSE, <<9, 0, 0, 7, 1, 9, 9, 2, 5, 4, 7, 4, 0, 9, 2, 8>>, 0),     \* 2^53 - 64
            Norm(FALSE, <<9, 9, 9, 9, 9, 9, 9, 9, 9, 9, 8, 0, 0, 0, 0>>, 0),               \* 10^15 - 20000: 15 digits throughout
            Norm(TRUE, <<9, 9, 9, 9, 9, 9, 9, 9, 9, 9, 9, 9, 9, 9, 9>>, 0),                \* -(10^15 - 1) upwards
            Norm(FALSE, <<9, 9, 9, 9, 9, 9, 9, 9, 9, 9, 9, 9, 0, 0, 0>>, 0),               \* crossing 10^15
            Norm(TRUE, <<9, 0, 0, 7, 1, 9, 9, 2, 5, 4, 7, 5, 0, 0, 0, 0>>, 0),             \* -(2^53 + 8)
            Norm(FALSE, <<9, 2, 2, 3, 3, 7, 2, 0, 3, 6, 8, 5, 4, 7, 7, 5, 7, 4, 4>>, 0),   \* 2^63 - 64: crosses the int64 limit
            Norm(FALSE, <<1, 8, 4, 4, 6, 7, 4, 4, 0, 7, 3, 7, 0, 9, 5, 3, 1, 6, 1, 6>>, 0), \* 2^64 - 20000: up to the uint64 limit
            Norm(TRUE, <<9, 2, 2, 3, 3, 7, 2, 0, 3, 6, 8, 5, 4, 7, 7, 5, 8, 0, 8>>, 0) >>   \* -2^63 upwards
Carriers == <<"json", "int64", "uint64", "decimal", "float64", "int">>

VARIABLES bucket, idx
SizeSeq == SetToSeq(Sizes)
Init == bucket \in 1..Len(SizeSeq) /\ idx = 0
Next == idx = 0 /\ \E b \in 1..Len(Bases) : idx' = b /\ UNCHANGED bucket
Spec == Init /\ [][Next]_<<bucket, idx>>

Plus(d, k) == ExactAdd(d, IF k < 0 THEN Negate(DNat(0 - k)) ELSE DNat(k))
SumOf(n, base) == ExactAdd(ExactMul(DNat(n), base), DNat((n * (n - 1)) \div 2))
X == Id(<<120>>)
Fn(name, args) == <<Id(name), LP>> \o args \o <<RP>>
NI(k) == IntT((IF k < 0 THEN <<45>> ELSE <<>>) \o NatCps(IF k < 0 THEN 0 - k ELSE k))
\* (expression, admissible outcomes) for an array holding base .. base + n - 1, each
\* times 10^sc; desc: in descending order (otherwise shuffled: element i is
\* base + (7 i mod n), or any other order -- the entries below marked ~desc do
\* not depend on it)
Sc(d, sc) == IF IsZero(d) THEN d ELSE [d EXCEPT !.e = @ + sc]
Expect(n, base, desc, sc) == LET R(d) == Round(Sc(d, sc)) IN <<
  [e |-> Fn(<<115,117,109>>, <<X>>), adm |-> R(SumOf(n, base))],
  [e |-> Fn(<<97,118,103>>, <<X>>), adm |-> Quot(Sc(SumOf(n, base), sc), DNat(n))],
  [e |-> Fn(<<109,97,120>>, <<X>>), adm |-> R(Plus(base, n - 1))],
  [e |-> Fn(<<109,105,110>>, <<X>>), adm |-> R(base)],
  [e |-> Fn(<<115,111,114,116>>, <<X>>) \o <<LB, NI(0), RB>>, adm |-> R(base)],
  [e |-> Fn(<<115,111,114,116>>, <<X>>) \o <<LB, NI(1), RB>>, adm |-> R(Plus(base, 1))],
  [e |-> Fn(<<115,111,114,116>>, <<X>>) \o <<LB, NI(0 - 1), RB>>, adm |-> R(Plus(base, n - 1))],
  [e |-> Fn(<<115,111,114,116>>, <<X>>) \o <<LB, NI(n \div 2), RB>>, adm |-> R(Plus(base, n \div 2))],
  [e |-> Fn(<<115,111,114,116>>, <<X>>) \o <<EqT>> \o Fn(<<114,101,118,101,114,115,101>>, <<X>>), adm |-> IF desc THEN {JTrue} ELSE {}],
  [e |-> Fn(<<115,111,114,116>>, <<X>>) \o <<EqT>> \o Fn(<<115,111,114,116>>, Fn(<<114,101,118,101,114,115,101>>, <<X>>)), adm |-> {JTrue}],
  [e |-> Fn(<<115,117,109>>, <<X>>) \o <<EqT>> \o Fn(<<115,117,109>>, Fn(<<115,111,114,116>>, <<X>>)), adm |-> {JTrue}],
  [e |-> Fn(<<115,117,109>>, <<X>>) \o <<EqT>> \o Fn(<<115,117,109>>, Fn(<<114,101,118,101,114,115,101>>, <<X>>)), adm |-> {JTrue}],
  [e |-> Fn(<<115,111,114,116,95,98,121>>, <<X, Comma, AmpT, CurT>>) \o <<LB, NI(2), RB>>, adm |-> R(Plus(base, 2))],
  [e |-> Fn(<<109,97,120,95,98,121>>, <<X, Comma, AmpT, CurT>>), adm |-> R(Plus(base, n - 1))],
  [e |-> Fn(<<108,101,110,103,116,104>>, <<X>>), adm |-> {JInt(n)}],
  [e |-> <<X, LB, NI(0), RB, MinusT, X, LB, NI(0 - 1), RB>>, adm |-> IF desc /\ sc = 0 THEN {JInt(n - 1)} ELSE {}],
  [e |-> Fn(<<99,111,110,116,97,105,110,115>>, <<X, Comma, X, LB, NI(n \div 2), RB>>), adm |-> {JTrue}],
  [e |-> Fn(<<108,101,110,103,116,104>>, <<X, Filt, CurT, GtT, RootT, Dot, X, LB, NI(n \div 2), RB, RB>>), adm |-> IF desc THEN {JInt(n \div 2)} ELSE {}],
  [e |-> Fn(<<115,111,114,116>>, <<X>>) \o <<LB, NI(1), RB, GtT>> \o Fn(<<115,111,114,116>>, <<X>>) \o <<LB, NI(0), RB>>, adm |-> {JTrue}],
  [e |-> Fn(<<115,117,109>>, <<X, LB, Colon, NI(2), RB>>), adm |-> IF desc THEN R(ExactAdd(Plus(base, n - 1), Plus(base, n - 2))) ELSE {}] >>

\* small-instance cross-check of the closed forms against the language layer
ToJ(v) == IF v.t = "num" /\ "ds" \in DOMAIN v
          THEN LET RECURSIVE NV(_) NV(q) == IF q = <<>> THEN 0 ELSE NV(SubSeq(q, 1, Len(q) - 1)) * 10 + q[Len(q)]
               IN Num((IF v.neg THEN 0 - 1 ELSE 1) * NV(v.ds), v.e)
          ELSE v
SmallCheck ==
  \A n \in {3, 4, 5, 6, 9}, b \in {0, 7, 0 - 3} :
     LET base == IF b < 0 THEN Negate(DNat(0 - b)) ELSE DNat(b)
         doc == Obj(<<Mem(<<120>>, Arr([i \in 1..n |-> JInt(b + n - i)]))>>)
         shuf == Obj(<<Mem(<<120>>, Arr([i \in 1..n |-> Num(b + ((7 * (i - 1)) % n), 0 - 2)]))>>)
         ex == Expect(n, base, TRUE, 0)
         ex2 == Expect(n, base, FALSE, 0 - 2)
     IN /\ \A i \in 1..Len(ex) : ex[i].adm = {} \/ { ToJ(o) : o \in ex[i].adm } = Admissible(ex[i].e, doc)
        /\ \A i \in 1..Len(ex2) : ex2[i].adm = {} \/ { ToJ(o) : o \in ex2[i].adm } = Admissible(ex2[i].e, shuf)

Check == idx > 0 =>
  LET n == SizeSeq[bucket]  base == Bases[idx]
      ex == SelectSeq(Expect(n, base, TRUE, 0), LAMBDA r : r.adm # {})
      case == [p |-> Prop, kind |-> "bigarr", n |-> n, base |-> NumV(base), carriers |-> Carriers, mult |-> 1, scale |-> 0,
               multi |-> { [expr |-> Render(ex[i].e), adm |-> ex[i].adm] : i \in 1..Len(ex) }]
      \* shuffled, scaled by 10^-2, carriers uniform or cycling element by element
      ex2 == SelectSeq(Expect(n, base, FALSE, 0 - 2), LAMBDA r : r.adm # {})
      case2 == [p |-> Prop, kind |-> "bigarr", n |-> n, base |-> NumV(base), carriers |-> <<"json", "decimal", "cycle">>, mult |-> 7, scale |-> 0 - 2,
                multi |-> { [expr |-> Render(ex2[i].e), adm |-> ex2[i].adm] : i \in 1..Len(ex2) }]
      ex3 == SelectSeq(Expect(n, base, FALSE, 0), LAMBDA r : r.adm # {})
      case3 == [p |-> Prop, kind |-> "bigarr", n |-> n, base |-> NumV(base), carriers |-> Carriers \o <<"cycle">>, mult |-> 7, scale |-> 0,
                multi |-> { [expr |-> Render(ex3[i].e), adm |-> ex3[i].adm] : i \in 1..Len(ex3) }]
  IN /\ Emit => PrintT("CASE " \o ToJson(case))
     /\ (Emit /\ n % 7 # 0) => PrintT("CASE " \o ToJson(case2)) /\ PrintT("CASE " \o ToJson(case3))
     /\ Named(bucket # 1 \/ idx # 1 \/ SmallCheck, "FormulasAgreeWithEval")
=============================================================================
