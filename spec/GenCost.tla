\* GENERATED from GenCost.tla.in by bin/tlapp -- edit the .in file
------------------------------ MODULE GenCost ------------------------------
(***************************************************************************)
(* Bounded cost (property C09).  Running time is not a property of the     *)
(* model; the specification contributes                                    *)
(*  (a) the inputs: every integer parameter position the grammar and the   *)
(*      function table expose, instantiated with a magnitude M at the      *)
(*      64-bit limits and with its "twin" 1000 (beyond every length used), *)
(*      nesting families parameterised by a depth the harness scales;      *)
(*  (b) the expected outcome -- equal for M and for the twin by the        *)
(*      huge-magnitude lemma of Slice.tla -- so a wrong fast path is       *)
(*      caught as well;                                                    *)
(*  (c) the lemma that n nested parentheses / brackets / negations mean    *)
(*      what the specification says for every small n (NestLemma).         *)
(* The harness measures the real code: wall time, allocation and           *)
(* evaluator steps (hook) of the M-instance against its twin.              *)
(***************************************************************************)
EXTENDS JMES, Json, Toks, SequencesExt
CONSTANTS Emit, Prop

\* s, x, u: short subjects.  l, t, y: subjects beyond the sizes an implementation may treat specially (a string
\* of 40 code points of mixed width in no regular order, 70 ASCII letters, 70 elements) -- the magnitude of a
\* parameter must not matter for ANY subject, and a short-subject fast path would hide the general path
LongCps == [i \in 1..40 |-> IF i % 7 = 3 THEN 233 ELSE IF i % 11 = 5 THEN 8364 ELSE IF i % 13 = 0 THEN 128512 ELSE 97 + (i % 3)]
Doc == Obj(<<Mem(<<108>>, Str(LongCps)), Mem(<<115>>, Str(<<97,98,99,97,98,99>>)), Mem(<<116>>, Str([i \in 1..70 |-> 97 + (i % 3)])),
             Mem(<<117>>, Str(<<233, 97, 8364, 98, 128512, 99>>)), Mem(<<120>>, Arr([i \in 1..6 |-> JInt(i)])), Mem(<<121>>, Arr([i \in 1..70 |-> JInt(i)]))>>)
\* 64-bit limits, and the boundaries of every narrower integer width (an
\* index or count stored in a small field must not wrap)
Mags == << <<57,50,50,51,51,55,50,48,51,54,56,53,52,55,55,53,56,48,55>>, <<49,48,48,48,48,48,48,48,48,48,48,48,48,48,48,48,48,48,48>>, <<52,54,49,49,54,56,54,48,49,56,52,50,55,51,56,55,57,48,52>>, <<50,49,52,55,52,56,51,54,52,56>>, <<49,48,48,48,48,48,48>>,
           <<49,50,55>>, <<49,50,56>>, <<50,53,53>>, <<50,53,54>>, <<51,50,55,54,55>>, <<51,50,55,54,56>>, <<54,53,53,51,53>>, <<54,53,53,51,54>>, <<50,49,52,55,52,56,51,54,52,55>>, <<52,50,57,52,57,54,55,50,57,53>>, <<52,50,57,52,57,54,55,50,57,54>> >>
Twin == <<49,48,48,48>>
Minus(m) == <<45>> \o m
S == Id(<<115>>)  X == Id(<<120>>)  U == Id(<<117>>)  LL == Id(<<108>>)  TT == Id(<<116>>)  YY == Id(<<121>>)
Fn(name, args) == <<Id(name), LP>> \o args \o <<RP>>
NumLit(m) == Json(<<96>> \o m \o <<96>>)

\* expression templates with a hole for the magnitude (integer token or JSON
\* literal), as a SEQUENCE so that the i-th template of two magnitudes match
ForVar(v, m) == <<
  <<v, LB, IntT(m), Colon, RB>>, <<v, LB, Colon, IntT(m), RB>>, <<v, LB, Colon, Colon, IntT(m), RB>>,
  <<v, LB, IntT(Minus(m)), Colon, RB>>, <<v, LB, Colon, IntT(Minus(m)), RB>>, <<v, LB, Colon, Colon, IntT(Minus(m)), RB>>,
  <<v, LB, IntT(m), Colon, IntT(m), Colon, IntT(m), RB>>, <<v, LB, IntT(Minus(m)), Colon, IntT(m), Colon, IntT(Minus(m)), RB>>,
  <<v, LB, IntT(<<49>>), Colon, IntT(m), Colon, IntT(m), RB>>, <<v, LB, IntT(m), Colon, Colon, IntT(<<45,49>>), RB>>,
  <<v, LB, IntT(m), RB>>, <<v, LB, IntT(Minus(m)), RB>>,
  <<v, PipeT, LB, IntT(m), RB>>, <<v, PipeT, LB, IntT(Minus(m)), RB>>, <<LP, v, RP, LB, IntT(m), RB>>,
  <<v, Dot, LB, LB, IntT(m), RB, Comma, LB, IntT(Minus(m)), Colon, RB, RB>>, <<v, PipeT, LB, IntT(m), Colon, RB>> >>
ForStr(v, m) == <<
  Fn(<<102,105,110,100,95,102,105,114,115,116>>, <<v, Comma, Raw(<<39,98,39>>), Comma, NumLit(m)>>),
  Fn(<<102,105,110,100,95,102,105,114,115,116>>, <<v, Comma, Raw(<<39,98,39>>), Comma, NumLit(<<48>>), Comma, NumLit(m)>>),
  Fn(<<102,105,110,100,95,108,97,115,116>>, <<v, Comma, Raw(<<39,98,39>>), Comma, NumLit(Minus(m))>>),
  Fn(<<102,105,110,100,95,108,97,115,116>>, <<v, Comma, Raw(<<39,98,39>>), Comma, NumLit(m), Comma, NumLit(m)>>),
  Fn(<<102,105,110,100,95,102,105,114,115,116>>, <<v, Comma, Raw(<<39,98,39>>), Comma, NumLit(Minus(m)), Comma, NumLit(m)>>),
  Fn(<<114,101,112,108,97,99,101>>, <<v, Comma, Raw(<<39,97,39>>), Comma, Raw(<<39,122,39>>), Comma, NumLit(m)>>),
  Fn(<<115,112,108,105,116>>, <<v, Comma, Raw(<<39,98,39>>), Comma, NumLit(m)>>), Fn(<<115,112,108,105,116>>, <<v, Comma, Raw(<<39,39>>), Comma, NumLit(m)>>),
  Fn(<<112,97,100,95,108,101,102,116>>, <<v, Comma, NumLit(Minus(m))>>), Fn(<<112,97,100,95,114,105,103,104,116>>, <<v, Comma, NumLit(Minus(m))>>) >>
TemplateSeq(m) == ForVar(S, m) \o ForVar(X, m) \o ForVar(U, m) \o ForStr(S, m) \o ForStr(U, m)
                  \o ForVar(LL, m) \o ForVar(TT, m) \o ForVar(YY, m) \o ForStr(LL, m) \o ForStr(TT, m)

VARIABLES bucket, idx
Init == bucket \in 1..Len(Mags) /\ idx = 0
Next == idx = 0 /\ idx' = 1 /\ UNCHANGED bucket
Spec == Init /\ [][Next]_<<bucket, idx>>

\* nesting families: the text for depth n, and what it means
RECURSIVE Rep(_, _)
Rep(ts, n) == IF n = 0 THEN <<>> ELSE ts \o Rep(ts, n - 1)
Families == <<
  [f |-> "paren",   pre |-> <<LP>>,   core |-> <<X, LB, IntT(<<48>>), RB>>, post |-> <<RP>>],
  [f |-> "not",     pre |-> <<NotT, NotT>>, core |-> <<X>>, post |-> <<>>],
  [f |-> "index",   pre |-> <<>>,     core |-> <<X>>, post |-> <<LB, IntT(<<48>>), RB>>],
  [f |-> "flatten", pre |-> <<>>,     core |-> <<X>>, post |-> <<Flat>>],
  [f |-> "pipe",    pre |-> <<>>,     core |-> <<X>>, post |-> <<PipeT, CurT>>],
  [f |-> "mslist",  pre |-> <<LB>>,   core |-> <<X, LB, IntT(<<48>>), RB>>, post |-> <<RB>>],
  [f |-> "neg",     pre |-> <<MinusT, MinusT>>, core |-> <<X, LB, IntT(<<48>>), RB>>, post |-> <<>>],
  [f |-> "or",      pre |-> <<>>,     core |-> <<X, LB, IntT(<<48>>), RB>>, post |-> <<OrT, X, LB, IntT(<<48>>), RB>>],
  \* functions that take an expression reference, nested inside each other's reference:
  \* over a ONE-element array the key of each call is evaluated once, whatever the depth (over k elements
  \* the nest costs k^depth by its meaning, in the specification as in any implementation)
  [f |-> "sortbynest", pre |-> <<Id(<<115,111,114,116,95,98,121>>), LP, RootT, Dot, X, LB, Colon, IntT(<<49>>), RB, Comma, AmpT>>, core |-> <<CurT>>, post |-> <<RP, LB, IntT(<<48>>), RB>>],
  [f |-> "mapnest",    pre |-> <<Id(<<109,97,112>>), LP, AmpT>>, core |-> <<CurT>>, post |-> <<Comma, RootT, Dot, X, LB, Colon, IntT(<<49>>), RB, RP, LB, IntT(<<48>>), RB>>],
  [f |-> "mixnest",    pre |-> <<Id(<<115,111,114,116,95,98,121>>), LP, RootT, Dot, X, LB, Colon, IntT(<<49>>), RB, Comma, AmpT, Id(<<109,97,112>>), LP, AmpT>>, core |-> <<CurT>>,
                       post |-> <<Comma, RootT, Dot, X, LB, Colon, IntT(<<49>>), RB, RP, LB, IntT(<<48>>), RB, RP, LB, IntT(<<48>>), RB>>],
  [f |-> "filternest", pre |-> <<RootT, Dot, X, LB, Colon, IntT(<<49>>), RB, Filt>>, core |-> <<CurT>>, post |-> <<RB, LB, IntT(<<48>>), RB>>],
  \* flat repetitions: the text grows, the syntactic nesting does not
  [f |-> "addneg",  pre |-> <<>>,     core |-> <<X, LB, IntT(<<48>>), RB>>, post |-> <<OrT, MinusT, X, LB, IntT(<<48>>), RB>>],
  [f |-> "ornot",   pre |-> <<>>,     core |-> <<X, LB, IntT(<<48>>), RB>>, post |-> <<OrT, NotT, NotT, X, LB, IntT(<<48>>), RB>>],
  [f |-> "orparen", pre |-> <<>>,     core |-> <<X, LB, IntT(<<48>>), RB>>, post |-> <<OrT, LP, X, LB, IntT(<<48>>), RB, RP>>],
  [f |-> "orlist",  pre |-> <<>>,     core |-> <<X, LB, IntT(<<48>>), RB>>, post |-> <<OrT, LB, X, RB, LB, IntT(<<48>>), RB, LB, IntT(<<48>>), RB>>] >>
\* nesting families that need a fixed context around the repetition
Wrapped == <<
  \* shadowing must end with the inner let, however deep the nesting: [1, 0]
  [f |-> "letshadow", head |-> <<LetT, VarT(<<36,118>>), AssignT, NumLit(<<48>>), InT, LB>>, pre |-> <<LetT, VarT(<<36,118>>), AssignT, NumLit(<<49>>), InT>>,
   core |-> <<VarT(<<36,118>>)>>, post |-> <<>>, tail |-> <<Comma, VarT(<<36,118>>), RB>>],
  \* a chain of bindings each defined from the one outside it
  [f |-> "letchain", head |-> <<LetT, VarT(<<36,111>>), AssignT, X, LB, IntT(<<48>>), RB, InT, LB>>, pre |-> <<LetT, VarT(<<36,111>>), AssignT, VarT(<<36,111>>), InT>>,
   core |-> <<VarT(<<36,111>>)>>, post |-> <<>>, tail |-> <<Comma, VarT(<<36,111>>), Comma, X, LB, IntT(<<49>>), RB, RB>>],
  \* a binding that exists only inside must not be visible to the sibling: undefined-variable
  [f |-> "letleak", head |-> <<LB>>, pre |-> <<LetT, VarT(<<36,105>>), AssignT, X, InT>>,
   core |-> <<VarT(<<36,105>>), LB, IntT(<<48>>), RB>>, post |-> <<>>, tail |-> <<Comma, VarT(<<36,105>>), RB>>] >>
\* nesting families that ALTERNATE two constructs: each wrapper puts something before and / or after its operand;
\* the pair (w1, w2) nests w1(w2(w1(w2( ... x ... )))) -- e.g. (paren, slice) is (((x[:])[:])[:]), a slice
\* projection whose SUBJECT contains a slice projection, which no family of one construct produces.  Every
\* wrapper uses its operand once, so the meaning stays linear in the depth; what is checked on the real code is
\* the cost (growth when the depth doubles, 64 .. 8192) and that nothing crashes, not the value
Wrappers == <<
  [w |-> "paren",   pre |-> <<LP>>, post |-> <<RP>>],
  [w |-> "slice",   pre |-> <<>>,   post |-> <<LB, Colon, RB>>],
  [w |-> "index",   pre |-> <<>>,   post |-> <<LB, IntT(<<48>>), RB>>],
  [w |-> "flatten", pre |-> <<>>,   post |-> <<Flat>>],
  [w |-> "star",    pre |-> <<>>,   post |-> <<LB, Star, RB>>],
  [w |-> "filter",  pre |-> <<>>,   post |-> <<Filt, CurT, RB>>],
  [w |-> "mslist",  pre |-> <<LB>>, post |-> <<RB>>],
  [w |-> "call",    pre |-> <<Id(<<116,111,95,97,114,114,97,121>>), LP>>, post |-> <<RP>>],
  [w |-> "pipe",    pre |-> <<>>,   post |-> <<PipeT, CurT>>],
  [w |-> "dotms",   pre |-> <<>>,   post |-> <<Dot, LB, CurT, RB>>] >>
PairOf(i, j) == [f |-> Wrappers[i].w \o "-" \o Wrappers[j].w, pre |-> Wrappers[i].pre \o Wrappers[j].pre, core |-> <<X>>,
                 post |-> Wrappers[j].post \o Wrappers[i].post]
PairFams == { PairOf(p[1], p[2]) : p \in { q \in (1..Len(Wrappers)) \X (1..Len(Wrappers)) : q[1] # q[2] } }
WText(fm, n) == fm.head \o Rep(fm.pre, n) \o fm.core \o Rep(fm.post, n) \o fm.tail
FamText(fm, n) == Rep(fm.pre, n) \o fm.core \o Rep(fm.post, n)
\* families whose meaning does not depend on the depth (for n >= 1)
Stable == {"paren", "not", "pipe", "neg", "or", "addneg", "ornot", "orparen", "orlist", "sortbynest", "mapnest", "mixnest", "filternest"}
RefNest == {"sortbynest", "mapnest", "mixnest", "filternest"}
FlatFam == {"or", "addneg", "ornot", "orparen", "orlist", "pipe", "index", "flatten"}

\* families whose value is the repetition count (as text: head rep^n tail)
CountFams == <<
  [f |-> "rawesc",  head |-> <<108,101,110,103,116,104,40,39>>, rep |-> <<92,39>>, tail |-> <<39,41>>, plus |-> 0],
  [f |-> "rawbs",   head |-> <<108,101,110,103,116,104,40,39>>, rep |-> <<92,92>>, tail |-> <<39,41>>, plus |-> 0],
  [f |-> "jsonesc", head |-> <<108,101,110,103,116,104,40,96,34>>, rep |-> <<92,110>>, tail |-> <<34,96,41>>, plus |-> 0],
  [f |-> "jsonu",   head |-> <<108,101,110,103,116,104,40,96,34>>, rep |-> <<92,117,48,48,101,57>>, tail |-> <<34,96,41>>, plus |-> 0],
  [f |-> "qidesc",  head |-> <<108,101,110,103,116,104,40,107,101,121,115,40,123,34>>, rep |-> <<92,116>>, tail |-> <<34,58,32,96,49,96,125,41,91,48,93,41>>, plus |-> 0],
  [f |-> "rawlen",  head |-> <<108,101,110,103,116,104,40,39>>, rep |-> <<233>>, tail |-> <<39,41>>, plus |-> 0],
  [f |-> "mslist",  head |-> <<108,101,110,103,116,104,40,91>>, rep |-> <<120,44>>, tail |-> <<120,93,41>>, plus |-> 1],
  [f |-> "jsonarr", head |-> <<108,101,110,103,116,104,40,96,91>>, rep |-> <<49,44>>, tail |-> <<49,93,96,41>>, plus |-> 1],
  [f |-> "zipargs", head |-> <<108,101,110,103,116,104,40,122,105,112,40>>, rep |-> <<120,44>>, tail |-> <<120,41,91,48,93,41>>, plus |-> 1] >>

\* deep DOCUMENTS: [[[ ... 1 ... ]]] nested d levels; expressions whose outcome
\* does not depend on d (checked for d = 2..6 by DepthLemma) and is a scalar
RECURSIVE Nest(_)
Nest(d) == IF d = 0 THEN JInt(1) ELSE Arr(<<Nest(d - 1)>>)
DocExprs == << <<CurT, EqT, CurT>>, <<CurT, NeT, CurT>>, Fn(<<108,101,110,103,116,104>>, <<CurT>>), Fn(<<116,121,112,101>>, <<CurT>>),
               Fn(<<99,111,110,116,97,105,110,115>>, <<CurT, Comma, CurT>>), Fn(<<99,111,110,116,97,105,110,115>>, <<CurT, Comma, NumLit(<<49>>)>>),
               <<LB, IntT(<<48>>), RB, EqT, CurT>>, Fn(<<116,121,112,101>>, Fn(<<110,111,116,95,110,117,108,108>>, <<CurT>>)),
               Fn(<<108,101,110,103,116,104>>, Fn(<<116,111,95,97,114,114,97,121>>, <<CurT>>)), <<NotT, CurT>>, Fn(<<116,121,112,101>>, <<CurT, Flat>>),
               Fn(<<108,101,110,103,116,104>>, <<CurT, LB, Star, RB>>), <<CurT, LB, IntT(<<48>>), RB, LB, IntT(<<48>>), RB, EqT, CurT, LB, IntT(<<48>>), RB>> >>

\* deep documents in PAIRS: {a, b, c: arrays nested d levels around the number 1; o, p: objects nested d levels
\* around it}.  In the specification the five hold the same number; the harness spells / carries it differently
\* (a: 1, b: 1.0, c: float64, o: 1, p: 1e0), so that equality far below the surface still has to compare numbers
\* by value (C20) -- the depth and the spelling are two dimensions that were only exercised apart
RECURSIVE NestO(_)
NestO(d) == IF d = 0 THEN JInt(1) ELSE Obj(<<Mem(<<107>>, NestO(d - 1))>>)
PairDoc(d) == Obj(<<Mem(<<97>>, Nest(d)), Mem(<<98>>, Nest(d)), Mem(<<99>>, Nest(d)), Mem(<<111>>, NestO(d)), Mem(<<112>>, NestO(d))>>)
Fa == Id(<<97>>)  Fb == Id(<<98>>)  Fc == Id(<<99>>)  Fo == Id(<<111>>)  Fp == Id(<<112>>)
PairExprs == << <<Fa, EqT, Fb>>, <<Fa, NeT, Fb>>, <<Fb, EqT, Fa>>, <<Fa, EqT, Fc>>, <<Fc, NeT, Fb>>, <<Fo, EqT, Fp>>, <<Fo, NeT, Fp>>, <<Fa, EqT, Fo>>,
               Fn(<<99,111,110,116,97,105,110,115>>, <<LB, Fa, RB, Comma, Fb>>), Fn(<<99,111,110,116,97,105,110,115>>, <<LB, Fo, Comma, Fa, RB, Comma, Fp>>),
               Fn(<<108,101,110,103,116,104>>, <<LB, Fa, Comma, Fc, Comma, Fo, RB, Filt, CurT, EqT, RootT, Dot, Fb, RB>>),
               <<LB, Fa, RB, EqT, LB, Fb, RB>>, <<LBr, Id(<<107>>), Colon, Fo, RBr, EqT, LBr, Id(<<107>>), Colon, Fp, RBr>>,
               <<Fa, EqT, Fb, AndT, Fb, EqT, Fc, AndT, Fa, EqT, Fc>> >>

Check == idx > 0 =>
  LET m   == Mags[bucket]
      big == TemplateSeq(m)
      tw  == TemplateSeq(Twin)
      cases == { [expr |-> Render(big[i]), expr2 |-> Render(tw[i]),
                  adm |-> Admissible(big[i], Doc), adm2 |-> Admissible(tw[i], Doc)] : i \in 1..Len(big) }
      case == [p |-> Prop, kind |-> "cost", doc |-> Doc, multi |-> cases]
      scale == [p |-> Prop, kind |-> "scale", doc |-> Doc,
                multi |-> { [family |-> Families[i].f,
                             pre |-> Render(Families[i].pre), core |-> Render(Families[i].core), post |-> Render(Families[i].post),
                             adm |-> Admissible(FamText(Families[i], 3), Doc),
                             stable |-> Families[i].f \in Stable, flat |-> Families[i].f \in FlatFam] :
                            \* the reference-nesting families belong to the robustness and cost properties only
                            i \in { k \in 1..Len(Families) : Families[k].f \notin RefNest \/ Prop \in {"C03", "C09"} } }]
      wscale == [p |-> Prop, kind |-> "scale", doc |-> Doc,
                 multi |-> { [family |-> Wrapped[i].f, head |-> Render(Wrapped[i].head), tail |-> Render(Wrapped[i].tail),
                              pre |-> Render(Wrapped[i].pre) \o <<32>>, core |-> Render(Wrapped[i].core), post |-> Render(Wrapped[i].post),
                              adm |-> Admissible(WText(Wrapped[i], 3), Doc), stable |-> TRUE, flat |-> FALSE] : i \in 1..Len(Wrapped) }]
      \* repetition COUNTS at the boundaries of 8- and 16-bit counters; the
      \* expected value is a function of the count (checked for small counts by CountLemma)
      counts == <<255, 256, 257, 65535, 65536, 65537>>
      count == [p |-> Prop, kind |-> "count", doc |-> Doc,
                multi |-> { [family |-> CountFams[i].f, head |-> CountFams[i].head, rep |-> CountFams[i].rep, tail |-> CountFams[i].tail,
                             counts |-> [j \in 1..Len(counts) |-> [n |-> counts[j], adm |-> {JInt(counts[j] + CountFams[i].plus)}]]] : i \in 1..Len(CountFams) }]
      docscale == [p |-> Prop, kind |-> "docscale",
                   multi |-> { [expr |-> Render(DocExprs[i]), adm |-> Admissible(DocExprs[i], Nest(4))] : i \in 1..Len(DocExprs) }]
      docpair == [p |-> Prop, kind |-> "docscale",
                  multi |-> { [expr |-> Render(PairExprs[i]), variant |-> "pair", adm |-> Admissible(PairExprs[i], PairDoc(4))] : i \in 1..Len(PairExprs) }]
      pscale == [p |-> Prop, kind |-> "scale", doc |-> Doc,
                 multi |-> { [family |-> fm.f, pre |-> Render(fm.pre), core |-> Render(fm.core), post |-> Render(fm.post),
                              adm |-> Admissible(FamText(fm, 2), Doc), stable |-> FALSE, flat |-> FALSE] : fm \in PairFams }]
  IN /\ Emit => PrintT("CASE " \o ToJson(case))
     /\ (Emit /\ bucket = 2 /\ Prop \in {"C09", "C03"}) => PrintT("CASE " \o ToJson(pscale))
     /\ Named(bucket # 2 \/ \A fm \in PairFams : \A n \in 1..3 : \A o \in Admissible(FamText(fm, n), Doc) : ~IsErr(o), "PairFamiliesEvaluate")
     /\ (Emit /\ bucket = 1) => PrintT("CASE " \o ToJson(scale))
     /\ (Emit /\ bucket = 1) => PrintT("CASE " \o ToJson(docscale))
     /\ (Emit /\ bucket = 3) => PrintT("CASE " \o ToJson(docpair))
     /\ Named(bucket # 3 \/ \A i \in 1..Len(PairExprs) : \A d \in 1..5 :
                 Admissible(PairExprs[i], PairDoc(d)) = Admissible(PairExprs[i], PairDoc(4)), "PairDepthLemma")
     /\ (Emit /\ bucket = 1) => PrintT("CASE " \o ToJson(wscale))
     /\ (Emit /\ bucket = 1) => PrintT("CASE " \o ToJson(count))
     /\ Named(bucket # 1 \/ \A i \in 1..Len(Wrapped) : \A n \in 1..5 :
                 Admissible(WText(Wrapped[i], n), Doc) = Admissible(WText(Wrapped[i], 3), Doc), "WrappedNestLemma")
     /\ Named(bucket # 1 \/ \A i \in 1..Len(CountFams) : \A n \in 0..4 :
                 AdmissibleText(CountFams[i].head \o Rep(CountFams[i].rep, n) \o CountFams[i].tail, Doc) = {JInt(n + CountFams[i].plus)}, "CountLemma")
     /\ Named(bucket # 1 \/ \A i \in 1..Len(DocExprs) : \A d \in 3..6 :
                 Admissible(DocExprs[i], Nest(d)) = Admissible(DocExprs[i], Nest(4)), "DepthLemma")
     \* magnitude independence in the specification: once beyond every length
     \* the outcome equals that of the twin
     \* (a JSON number literal of more than 8 digits is outside the small-
     \* decimal model and Open here; for those the harness demands that the
     \* real outcome equals the real outcome of the twin)
     /\ Named(\A c \in cases : c.adm = c.adm2 \/ Open \in c.adm, "MagnitudeIndependent")
     /\ Named(\A i \in 1..Len(Families) : Families[i].f \in Stable =>
                \A n \in 1..5 : Admissible(FamText(Families[i], n), Doc) = Admissible(FamText(Families[i], 1), Doc), "NestLemma")
=============================================================================
