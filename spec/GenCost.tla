\* GENERATED from GenCost.tla.in by bin/tlapp -- edit the .in file
------------------------------ MODULE GenCost ------------------------------
(***************************************************************************)
(* Bounded cost (property C09).  Running time is not a property of the     *)
(* model; the specification contributes                                    *)
(*  (a) the inputs: every integer parameter position the grammar and the   *)
(*      function table expose, instantiated with a magnitude M at the      *)
(*      64-bit limits and with its "twin" 1000 (beyond every length used), *)
(*      nesting families parameterised by a depth the harness scales;      *)
(*  (b) the expected outcome -- equal for M and for the twin by the        *)
(*      huge-magnitude lemma of Slice.tla -- so a wrong fast path is       *)
(*      caught as well;                                                    *)
(*  (c) the lemma that n nested parentheses / brackets / negations mean    *)
(*      what the specification says for every small n (NestLemma).         *)
(* The harness measures the real code: wall time, allocation and           *)
(* evaluator steps (hook) of the M-instance against its twin.              *)
(***************************************************************************)
EXTENDS JMES, Json, Toks, SequencesExt
CONSTANTS Emit, Prop

Doc == Obj(<<Mem(<<115>>, Str(<<97,98,99,97,98,99>>)), Mem(<<120>>, Arr([i \in 1..6 |-> JInt(i)])), Mem(<<117>>, Str(<<233, 97, 8364, 98, 128512, 99>>))>>)
\* 64-bit limits, and the boundaries of every narrower integer width (an
\* index or count stored in a small field must not wrap)
Mags == << <<57,50,50,51,51,55,50,48,51,54,56,53,52,55,55,53,56,48,55>>, <<49,48,48,48,48,48,48,48,48,48,48,48,48,48,48,48,48,48,48>>, <<52,54,49,49,54,56,54,48,49,56,52,50,55,51,56,55,57,48,52>>, <<50,49,52,55,52,56,51,54,52,56>>, <<49,48,48,48,48,48,48>>,
           <<49,50,55>>, <<49,50,56>>, <<50,53,53>>, <<50,53,54>>, <<51,50,55,54,55>>, <<51,50,55,54,56>>, <<54,53,53,51,53>>, <<54,53,53,51,54>>, <<50,49,52,55,52,56,51,54,52,55>>, <<52,50,57,52,57,54,55,50,57,53>>, <<52,50,57,52,57,54,55,50,57,54>> >>
Twin == <<49,48,48,48>>
Minus(m) == <<45>> \o m
S == Id(<<115>>)  X == Id(<<120>>)  U == Id(<<117>>)
Fn(name, args) == <<Id(name), LP>> \o args \o <<RP>>
NumLit(m) == Json(<<96>> \o m \o <<96>>)

\* expression templates with a hole for the magnitude (integer token or JSON
\* literal), as a SEQUENCE so that the i-th template of two magnitudes match
ForVar(v, m) == <<
  <<v, LB, IntT(m), Colon, RB>>, <<v, LB, Colon, IntT(m), RB>>, <<v, LB, Colon, Colon, IntT(m), RB>>,
  <<v, LB, IntT(Minus(m)), Colon, RB>>, <<v, LB, Colon, IntT(Minus(m)), RB>>, <<v, LB, Colon, Colon, IntT(Minus(m)), RB>>,
  <<v, LB, IntT(m), Colon, IntT(m), Colon, IntT(m), RB>>, <<v, LB, IntT(Minus(m)), Colon, IntT(m), Colon, IntT(Minus(m)), RB>>,
  <<v, LB, IntT(<<49>>), Colon, IntT(m), Colon, IntT(m), RB>>, <<v, LB, IntT(m), Colon, Colon, IntT(<<45,49>>), RB>>,
  <<v, LB, IntT(m), RB>>, <<v, LB, IntT(Minus(m)), RB>>,
  <<v, PipeT, LB, IntT(m), RB>>, <<v, PipeT, LB, IntT(Minus(m)), RB>>, <<LP, v, RP, LB, IntT(m), RB>>,
  <<v, Dot, LB, LB, IntT(m), RB, Comma, LB, IntT(Minus(m)), Colon, RB, RB>>, <<v, PipeT, LB, IntT(m), Colon, RB>> >>
ForStr(v, m) == <<
  Fn(<<102,105,110,100,95,102,105,114,115,116>>, <<v, Comma, Raw(<<39,98,39>>), Comma, NumLit(m)>>),
  Fn(<<102,105,110,100,95,102,105,114,115,116>>, <<v, Comma, Raw(<<39,98,39>>), Comma, NumLit(<<48>>), Comma, NumLit(m)>>),
  Fn(<<102,105,110,100,95,108,97,115,116>>, <<v, Comma, Raw(<<39,98,39>>), Comma, NumLit(Minus(m))>>),
  Fn(<<102,105,110,100,95,108,97,115,116>>, <<v, Comma, Raw(<<39,98,39>>), Comma, NumLit(m), Comma, NumLit(m)>>),
  Fn(<<102,105,110,100,95,102,105,114,115,116>>, <<v, Comma, Raw(<<39,98,39>>), Comma, NumLit(Minus(m)), Comma, NumLit(m)>>),
  Fn(<<114,101,112,108,97,99,101>>, <<v, Comma, Raw(<<39,97,39>>), Comma, Raw(<<39,122,39>>), Comma, NumLit(m)>>),
  Fn(<<115,112,108,105,116>>, <<v, Comma, Raw(<<39,98,39>>), Comma, NumLit(m)>>), Fn(<<115,112,108,105,116>>, <<v, Comma, Raw(<<39,39>>), Comma, NumLit(m)>>),
  Fn(<<112,97,100,95,108,101,102,116>>, <<v, Comma, NumLit(Minus(m))>>), Fn(<<112,97,100,95,114,105,103,104,116>>, <<v, Comma, NumLit(Minus(m))>>) >>
TemplateSeq(m) == ForVar(S, m) \o ForVar(X, m) \o ForVar(U, m) \o ForStr(S, m) \o ForStr(U, m)

VARIABLES bucket, idx
Init == bucket \in 1..Len(Mags) /\ idx = 0
Next == idx = 0 /\ idx' = 1 /\ UNCHANGED bucket
Spec == Init /\ [][Next]_<<bucket, idx>>

\* nesting families: the text for depth n, and what it means
RECURSIVE Rep(_, _)
Rep(ts, n) == IF n = 0 THEN <<>> ELSE ts \o Rep(ts, n - 1)
Families == <<
  [f |-> "paren",   pre |-> <<LP>>,   core |-> <<X, LB, IntT(<<48>>), RB>>, post |-> <<RP>>],
  [f |-> "not",     pre |-> <<NotT, NotT>>, core |-> <<X>>, post |-> <<>>],
  [f |-> "index",   pre |-> <<>>,     core |-> <<X>>, post |-> <<LB, IntT(<<48>>), RB>>],
  [f |-> "flatten", pre |-> <<>>,     core |-> <<X>>, post |-> <<Flat>>],
  [f |-> "pipe",    pre |-> <<>>,     core |-> <<X>>, post |-> <<PipeT, CurT>>],
  [f |-> "mslist",  pre |-> <<LB>>,   core |-> <<X, LB, IntT(<<48>>), RB>>, post |-> <<RB>>],
  [f |-> "neg",     pre |-> <<MinusT, MinusT>>, core |-> <<X, LB, IntT(<<48>>), RB>>, post |-> <<>>],
  [f |-> "or",      pre |-> <<>>,     core |-> <<X, LB, IntT(<<48>>), RB>>, post |-> <<OrT, X, LB, IntT(<<48>>), RB>>],
  \* flat repetitions: the text grows, the syntactic nesting does not
  [f |-> "addneg",  pre |-> <<>>,     core |-> <<X, LB, IntT(<<48>>), RB>>, post |-> <<OrT, MinusT, X, LB, IntT(<<48>>), RB>>],
  [f |-> "ornot",   pre |-> <<>>,     core |-> <<X, LB, IntT(<<48>>), RB>>, post |-> <<OrT, NotT, NotT, X, LB, IntT(<<48>>), RB>>],
  [f |-> "orparen", pre |-> <<>>,     core |-> <<X, LB, IntT(<<48>>), RB>>, post |-> <<OrT, LP, X, LB, IntT(<<48>>), RB, RP>>],
  [f |-> "orlist",  pre |-> <<>>,     core |-> <<X, LB, IntT(<<48>>), RB>>, post |-> <<OrT, LB, X, RB, LB, IntT(<<48>>), RB, LB, IntT(<<48>>), RB>>] >>
FamText(fm, n) == Rep(fm.pre, n) \o fm.core \o Rep(fm.post, n)
\* families whose meaning does not depend on the depth (for n >= 1)
Stable == {"paren", "not", "pipe", "neg", "or", "addneg", "ornot", "orparen", "orlist"}
FlatFam == {"or", "addneg", "ornot", "orparen", "orlist", "pipe", "index", "flatten"}

\* deep DOCUMENTS: [[[ ... 1 ... ]]] nested d levels; expressions whose outcome
\* does not depend on d (checked for d = 2..6 by DepthLemma) and is a scalar
RECURSIVE Nest(_)
Nest(d) == IF d = 0 THEN JInt(1) ELSE Arr(<<Nest(d - 1)>>)
DocExprs == << <<CurT, EqT, CurT>>, <<CurT, NeT, CurT>>, Fn(<<108,101,110,103,116,104>>, <<CurT>>), Fn(<<116,121,112,101>>, <<CurT>>),
               Fn(<<99,111,110,116,97,105,110,115>>, <<CurT, Comma, CurT>>), Fn(<<99,111,110,116,97,105,110,115>>, <<CurT, Comma, NumLit(<<49>>)>>),
               <<LB, IntT(<<48>>), RB, EqT, CurT>>, Fn(<<116,121,112,101>>, Fn(<<110,111,116,95,110,117,108,108>>, <<CurT>>)),
               Fn(<<108,101,110,103,116,104>>, Fn(<<116,111,95,97,114,114,97,121>>, <<CurT>>)), <<NotT, CurT>>, Fn(<<116,121,112,101>>, <<CurT, Flat>>),
               Fn(<<108,101,110,103,116,104>>, <<CurT, LB, Star, RB>>), <<CurT, LB, IntT(<<48>>), RB, LB, IntT(<<48>>), RB, EqT, CurT, LB, IntT(<<48>>), RB>> >>

Check == idx > 0 =>
  LET m   == Mags[bucket]
      big == TemplateSeq(m)
      tw  == TemplateSeq(Twin)
      cases == { [expr |-> Render(big[i]), expr2 |-> Render(tw[i]),
                  adm |-> Admissible(big[i], Doc), adm2 |-> Admissible(tw[i], Doc)] : i \in 1..Len(big) }
      case == [p |-> Prop, kind |-> "cost", doc |-> Doc, multi |-> cases]
      scale == [p |-> Prop, kind |-> "scale", doc |-> Doc,
                multi |-> { [family |-> Families[i].f,
                             pre |-> Render(Families[i].pre), core |-> Render(Families[i].core), post |-> Render(Families[i].post),
                             adm |-> Admissible(FamText(Families[i], 3), Doc),
                             stable |-> Families[i].f \in Stable, flat |-> Families[i].f \in FlatFam] : i \in 1..Len(Families) }]
      docscale == [p |-> Prop, kind |-> "docscale",
                   multi |-> { [expr |-> Render(DocExprs[i]), adm |-> Admissible(DocExprs[i], Nest(4))] : i \in 1..Len(DocExprs) }]
  IN /\ Emit => PrintT("CASE " \o ToJson(case))
     /\ (Emit /\ bucket = 1) => PrintT("CASE " \o ToJson(scale))
     /\ (Emit /\ bucket = 1) => PrintT("CASE " \o ToJson(docscale))
     /\ Named(bucket # 1 \/ \A i \in 1..Len(DocExprs) : \A d \in 3..6 :
                 Admissible(DocExprs[i], Nest(d)) = Admissible(DocExprs[i], Nest(4)), "DepthLemma")
     \* magnitude independence in the specification: once beyond every length
     \* the outcome equals that of the twin
     \* (a JSON number literal of more than 8 digits is outside the small-
     \* decimal model and Open here; for those the harness demands that the
     \* real outcome equals the real outcome of the twin)
     /\ Named(\A c \in cases : c.adm = c.adm2 \/ Open \in c.adm, "MagnitudeIndependent")
     /\ Named(\A i \in 1..Len(Families) : Families[i].f \in Stable =>
                \A n \in 1..5 : Admissible(FamText(Families[i], n), Doc) = Admissible(FamText(Families[i], 1), Doc), "NestLemma")
=============================================================================
