\* GENERATED from Literals.tla.in by bin/tlapp -- edit the .in file
---------------------------- MODULE Literals ----------------------------
(***************************************************************************)
(* The three literal syntaxes of JMESPath, each defined twice: decoding    *)
(* (lexeme -> string / value) and encoding (string -> lexeme), with the    *)
(* TLC-checked theorem Dec(Enc(s)) = s (property C16).                     *)
(*                                                                         *)
(*   raw string        'it\'s'      only \' and \\ are escapes; a backslash*)
(*                                  before any other character stays       *)
(*   quoted identifier "a\né"  a JSON string                          *)
(*   JSON literal      `{"a": 1}`   any JSON text, backticks written \`    *)
(*                                                                         *)
(* `lenient` selects between the two readings the standard admits for      *)
(* things RFC 8259 leaves to implementations: an unpaired surrogate escape *)
(* (error, or U+FFFD) and raw control characters inside a JSON string      *)
(* (error, or kept).  Both readings are admissible; see Grammar.tla.       *)
(***************************************************************************)
EXTENDS JValue

Inner(lex) == SubSeq(lex, 2, Len(lex) - 1)     \* strip the delimiters

\* ------------------------------------------------------------ raw strings
RECURSIVE DecRawFrom(_, _)
DecRawFrom(s, i) ==
  IF i > Len(s) THEN <<>>
  ELSE IF s[i] = 92 /\ i < Len(s) /\ s[i + 1] \in {39, 92}
       THEN <<s[i + 1]>> \o DecRawFrom(s, i + 2)
  ELSE IF s[i] = 92 /\ i < Len(s)
       THEN <<92, s[i + 1]>> \o DecRawFrom(s, i + 2)     \* kept verbatim
  ELSE <<s[i]>> \o DecRawFrom(s, i + 1)
DecRaw(lex) == DecRawFrom(Inner(lex), 1)

RECURSIVE EncRawFrom(_, _)
EncRawFrom(s, i) ==
  IF i > Len(s) THEN <<>>
  ELSE IF s[i] = 39 THEN <<92, 39>> \o EncRawFrom(s, i + 1)
  ELSE IF s[i] = 92 /\ (i = Len(s) \/ s[i + 1] \in {39, 92})
       THEN <<92, 92>> \o EncRawFrom(s, i + 1)            \* must be escaped
  ELSE <<s[i]>> \o EncRawFrom(s, i + 1)                   \* a lone backslash may stay
EncRaw(s) == <<39>> \o EncRawFrom(s, 1) \o <<39>>
\* the other legal spelling: every backslash doubled
RECURSIVE EncRawAllFrom(_, _)
EncRawAllFrom(s, i) ==
  IF i > Len(s) THEN <<>>
  ELSE IF s[i] = 39 THEN <<92, 39>> \o EncRawAllFrom(s, i + 1)
  ELSE IF s[i] = 92 THEN <<92, 92>> \o EncRawAllFrom(s, i + 1)
  ELSE <<s[i]>> \o EncRawAllFrom(s, i + 1)
EncRawAll(s) == <<39>> \o EncRawAllFrom(s, 1) \o <<39>>

\* ----------------------------------------------------------- JSON strings
HexVal(c) == IF c >= 48 /\ c <= 57 THEN c - 48
             ELSE IF c >= 97 /\ c <= 102 THEN c - 87
             ELSE IF c >= 65 /\ c <= 70 THEN c - 55
             ELSE 0 - 1
IsHex4(s, i) == i + 3 <= Len(s) /\ \A j \in i..(i + 3) : HexVal(s[j]) >= 0
Hex4(s, i) == ((HexVal(s[i]) * 16 + HexVal(s[i + 1])) * 16 + HexVal(s[i + 2])) * 16 + HexVal(s[i + 3])
IsHi(u) == u >= 55296 /\ u <= 56319
IsLo(u) == u >= 56320 /\ u <= 57343
FFFD == 65533

\* Body of a JSON string starting at s[i] (after the opening quote) up to the
\* closing quote.  Result [ok, s (decoded), i (index after closing quote)].
RECURSIVE DecJStr(_, _, _, _)
DecJStr(s, i, acc, lenient) ==
  IF i > Len(s) THEN [ok |-> FALSE, s |-> <<>>, i |-> 0]
  ELSE LET c == s[i] IN
    IF c = 34 THEN [ok |-> TRUE, s |-> acc, i |-> i + 1]
    \* a raw control character is outside unescaped-char (%x20-21 / %x23-5B / %x5D-10FFFF), in
    \* quoted identifiers as in JSON strings: never admitted, under no reading
    ELSE IF c < 32 THEN [ok |-> FALSE, s |-> <<>>, i |-> 0]
    ELSE IF c # 92 THEN DecJStr(s, i + 1, Append(acc, c), lenient)
    ELSE IF i + 1 > Len(s) THEN [ok |-> FALSE, s |-> <<>>, i |-> 0]
    ELSE LET d == s[i + 1] IN
      CASE d = 34  -> DecJStr(s, i + 2, Append(acc, 34), lenient)
        [] d = 92  -> DecJStr(s, i + 2, Append(acc, 92), lenient)
        [] d = 47  -> DecJStr(s, i + 2, Append(acc, 47), lenient)
        [] d = 98  -> DecJStr(s, i + 2, Append(acc, 8), lenient)
        [] d = 102 -> DecJStr(s, i + 2, Append(acc, 12), lenient)
        [] d = 110 -> DecJStr(s, i + 2, Append(acc, 10), lenient)
        [] d = 114 -> DecJStr(s, i + 2, Append(acc, 13), lenient)
        [] d = 116 -> DecJStr(s, i + 2, Append(acc, 9), lenient)
        [] d = 117 ->
             IF ~IsHex4(s, i + 2) THEN [ok |-> FALSE, s |-> <<>>, i |-> 0]
             ELSE LET u == Hex4(s, i + 2) IN
               IF IsHi(u) /\ i + 7 <= Len(s) /\ s[i + 6] = 92 /\ s[i + 7] = 117
                          /\ IsHex4(s, i + 8) /\ IsLo(Hex4(s, i + 8))
               THEN DecJStr(s, i + 12,
                            Append(acc, 65536 + (u - 55296) * 1024 + (Hex4(s, i + 8) - 56320)), lenient)
               ELSE IF IsHi(u) \/ IsLo(u)
               THEN (IF lenient THEN DecJStr(s, i + 6, Append(acc, FFFD), lenient)
                     ELSE [ok |-> FALSE, s |-> <<>>, i |-> 0])
               ELSE DecJStr(s, i + 6, Append(acc, u), lenient)
        [] OTHER -> [ok |-> FALSE, s |-> <<>>, i |-> 0]

\* quoted identifier: the whole lexeme must be exactly one JSON string
DecQuoted(lex, lenient) ==
  LET r == DecJStr(lex, 2, <<>>, lenient)
  IN IF r.ok /\ r.i = Len(lex) + 1 THEN [ok |-> TRUE, s |-> r.s] ELSE [ok |-> FALSE, s |-> <<>>]

\* does the lexeme contain something whose treatment the standard leaves open?
RECURSIVE HasOpenJStr(_, _)
HasOpenJStr(s, i) ==
  IF i > Len(s) THEN FALSE
  ELSE IF s[i] >= 0 /\ s[i] < 32 THEN TRUE
  ELSE IF s[i] = 92 /\ i < Len(s) /\ s[i + 1] = 117 /\ IsHex4(s, i + 2)
          /\ (IsHi(Hex4(s, i + 2)) \/ IsLo(Hex4(s, i + 2))) THEN TRUE
  ELSE IF s[i] = 92 THEN HasOpenJStr(s, i + 2)
  ELSE HasOpenJStr(s, i + 1)

HexDigit(v) == IF v < 10 THEN 48 + v ELSE 87 + v
HexEsc(u) == <<92, 117, HexDigit(u \div 4096), HexDigit((u \div 256) % 16),
               HexDigit((u \div 16) % 16), HexDigit(u % 16)>>
\* minimal escaping
EncJChar(c) == CASE c = 34 -> <<92, 34>>
                 [] c = 92 -> <<92, 92>>
                 [] c = 10 -> <<92, 110>>
                 [] c = 13 -> <<92, 114>>
                 [] c = 9  -> <<92, 116>>
                 [] c = 8  -> <<92, 98>>
                 [] c = 12 -> <<92, 102>>
                 [] c < 32 -> HexEsc(c)
                 [] OTHER  -> <<c>>
\* everything as \uXXXX (surrogate pairs above the BMP)
EncJCharU(c) == IF c < 65536 THEN HexEsc(c)
                ELSE HexEsc(55296 + ((c - 65536) \div 1024)) \o HexEsc(56320 + ((c - 65536) % 1024))
RECURSIVE EncJBody(_, _, _)
EncJBody(s, i, allU) ==
  IF i > Len(s) THEN <<>>
  ELSE (IF allU THEN EncJCharU(s[i]) ELSE EncJChar(s[i])) \o EncJBody(s, i + 1, allU)
EncQuoted(s, allU) == <<34>> \o EncJBody(s, 1, allU) \o <<34>>

\* ------------------------------------------------------------- JSON texts
IsJWs(c) == c \in {32, 9, 10, 13}
RECURSIVE SkipJWs(_, _)
SkipJWs(s, i) == IF i <= Len(s) /\ IsJWs(s[i]) THEN SkipJWs(s, i + 1) ELSE i
IsD(c) == c >= 48 /\ c <= 57
RECURSIVE RunD(_, _)
RunD(s, i) == IF i <= Len(s) /\ IsD(s[i]) THEN RunD(s, i + 1) ELSE i

RECURSIVE DigitsVal(_, _, _)
DigitsVal(s, i, j) == IF i >= j THEN 0 ELSE DigitsVal(s, i, j - 1) * 10 + (s[j - 1] - 48)
RECURSIVE SkipZeros(_, _, _)
SkipZeros(s, i, j) == IF i < j /\ s[i] = 48 THEN SkipZeros(s, i + 1, j) ELSE i

Fail == [ok |-> FALSE, v |-> Null, big |-> FALSE, i |-> 0]
Ok(v, i) == [ok |-> TRUE, v |-> v, big |-> FALSE, i |-> i]

\* JSON number at s[i].  big = TRUE when it is outside the small-decimal
\* model (more than 8 significant digits or a long exponent); the value is
\* then not computed here.
JNumber(s, i) ==
  LET neg == i <= Len(s) /\ s[i] = 45
      a   == IF neg THEN i + 1 ELSE i
      b   == RunD(s, a)                                   \* integer part [a, b)
      intOk == b > a /\ (s[a] # 48 \/ b = a + 1)
      hasF == b <= Len(s) /\ s[b] = 46
      c   == IF hasF THEN RunD(s, b + 1) ELSE b           \* fraction (b, c)
      fOk == ~hasF \/ c > b + 1
      hasE == c <= Len(s) /\ s[c] \in {101, 69}
      sg  == IF hasE /\ c + 1 <= Len(s) /\ s[c + 1] \in {43, 45} THEN c + 2 ELSE c + 1
      d   == IF hasE THEN RunD(s, sg) ELSE c              \* exponent digits [sg, d)
      eOk == ~hasE \/ d > sg
      eNeg == hasE /\ s[c + 1] = 45
  IN IF ~(intOk /\ fOk /\ eOk) THEN Fail
     ELSE LET nf  == IF hasF THEN c - (b + 1) ELSE 0      \* fraction digits
              ds  == SubSeq(s, a, b - 1) \o (IF hasF THEN SubSeq(s, b + 1, c - 1) ELSE <<>>)
              z   == SkipZeros(ds, 1, Len(ds) + 1)
              sig == Len(ds) + 1 - z
              ez  == IF hasE THEN SkipZeros(s, sg, d) ELSE 0
              big == sig > 8 \/ (hasE /\ d - ez > 3)
          IN IF big THEN [ok |-> TRUE, v |-> Null, big |-> TRUE, i |-> d]
             ELSE LET n  == DigitsVal(ds, 1, Len(ds) + 1)
                      ex == IF hasE THEN DigitsVal(s, sg, d) ELSE 0
                  IN Ok(Num(IF neg THEN 0 - n ELSE n, (IF eNeg THEN 0 - ex ELSE ex) - nf), d)

IsWord(s, i, w) == i + Len(w) - 1 <= Len(s) /\ SubSeq(s, i, i + Len(w) - 1) = w

RECURSIVE JVal(_, _, _)
RECURSIVE JArrRest(_, _, _, _, _)
RECURSIVE JObjRest(_, _, _, _, _)
\* elements after "[" ; acc = elements so far, big = some number was big
JArrRest(s, i, acc, big, lenient) ==
  LET r == JVal(s, i, lenient) IN
  IF ~r.ok THEN Fail
  ELSE LET j == SkipJWs(s, r.i) IN
    IF j > Len(s) THEN Fail
    ELSE IF s[j] = 44 THEN JArrRest(s, SkipJWs(s, j + 1), Append(acc, r.v), big \/ r.big, lenient)
    ELSE IF s[j] = 93 THEN [ok |-> TRUE, v |-> Arr(Append(acc, r.v)), big |-> big \/ r.big, i |-> j + 1]
    ELSE Fail
JObjRest(s, i, acc, big, lenient) ==
  IF i > Len(s) \/ s[i] # 34 THEN Fail
  ELSE LET k == DecJStr(s, i + 1, <<>>, lenient) IN
    IF ~k.ok THEN Fail
    ELSE LET c == SkipJWs(s, k.i) IN
      IF c > Len(s) \/ s[c] # 58 THEN Fail
      ELSE LET r == JVal(s, SkipJWs(s, c + 1), lenient) IN
        IF ~r.ok THEN Fail
        ELSE LET j == SkipJWs(s, r.i) IN
          IF j > Len(s) THEN Fail
          ELSE IF s[j] = 44 THEN JObjRest(s, SkipJWs(s, j + 1), Append(acc, Mem(k.s, r.v)), big \/ r.big, lenient)
          ELSE IF s[j] = 125 THEN [ok |-> TRUE, v |-> Obj(Append(acc, Mem(k.s, r.v))), big |-> big \/ r.big, i |-> j + 1]
          ELSE Fail
JVal(s, i, lenient) ==
  IF i > Len(s) THEN Fail
  ELSE LET c == s[i] IN
    CASE c = 110 -> IF IsWord(s, i, <<110,117,108,108>>) THEN Ok(Null, i + 4) ELSE Fail
      [] c = 116 -> IF IsWord(s, i, <<116,114,117,101>>) THEN Ok(JTrue, i + 4) ELSE Fail
      [] c = 102 -> IF IsWord(s, i, <<102,97,108,115,101>>) THEN Ok(JFalse, i + 5) ELSE Fail
      [] c = 34  -> LET r == DecJStr(s, i + 1, <<>>, lenient) IN IF r.ok THEN Ok(Str(r.s), r.i) ELSE Fail
      [] c = 91  -> LET j == SkipJWs(s, i + 1) IN
                      IF j <= Len(s) /\ s[j] = 93 THEN Ok(Arr(<<>>), j + 1)
                      ELSE JArrRest(s, j, <<>>, FALSE, lenient)
      [] c = 123 -> LET j == SkipJWs(s, i + 1) IN
                      IF j <= Len(s) /\ s[j] = 125 THEN Ok(Obj(<<>>), j + 1)
                      ELSE JObjRest(s, j, <<>>, FALSE, lenient)
      [] c = 45 \/ IsD(c) -> JNumber(s, i)
      [] OTHER -> Fail

\* `...` : unescape \` then exactly one JSON value with optional blanks around
RECURSIVE UnTick(_, _)
UnTick(s, i) == IF i > Len(s) THEN <<>>
                ELSE IF s[i] = 92 /\ i < Len(s) /\ s[i + 1] = 96 THEN <<96>> \o UnTick(s, i + 2)
                ELSE <<s[i]>> \o UnTick(s, i + 1)
DecJSON(lex, lenient) ==
  LET s == UnTick(Inner(lex), 1)
      r == JVal(s, SkipJWs(s, 1), lenient)
  IN IF r.ok /\ SkipJWs(s, r.i) = Len(s) + 1 THEN r ELSE Fail

\* ---- encoding of values as JSON text (canonical, no blanks) --------------
RECURSIVE IntDigits(_)
IntDigits(n) == IF n < 10 THEN <<48 + n>> ELSE IntDigits(n \div 10) \o <<48 + (n % 10)>>
EncNum(x) == (IF x.n < 0 THEN <<45>> ELSE <<>>) \o IntDigits(AbsI(x.n))
             \o (IF x.e = 0 THEN <<>> ELSE <<101>> \o (IF x.e < 0 THEN <<45>> ELSE <<>>) \o IntDigits(AbsI(x.e)))
RECURSIVE EncJSONText(_)
RECURSIVE EncElems(_, _)
RECURSIVE EncMems(_, _)
EncElems(a, i) == IF i > Len(a) THEN <<>>
                  ELSE (IF i > 1 THEN <<44>> ELSE <<>>) \o EncJSONText(a[i]) \o EncElems(a, i + 1)
EncMems(o, i) == IF i > Len(o) THEN <<>>
                 ELSE (IF i > 1 THEN <<44>> ELSE <<>>) \o EncQuoted(o[i].k, FALSE) \o <<58>>
                      \o EncJSONText(o[i].v) \o EncMems(o, i + 1)
EncJSONText(v) == CASE v.t = "null" -> <<110,117,108,108>>
                    [] v.t = "bool" -> IF v.b THEN <<116,114,117,101>> ELSE <<102,97,108,115,101>>
                    [] v.t = "num"  -> EncNum(v)
                    [] v.t = "str"  -> EncQuoted(v.s, FALSE)
                    [] v.t = "arr"  -> <<91>> \o EncElems(v.a, 1) \o <<93>>
                    [] v.t = "obj"  -> <<123>> \o EncMems(v.o, 1) \o <<125>>
RECURSIVE Tick(_, _)
Tick(s, i) == IF i > Len(s) THEN <<>>
              ELSE IF s[i] = 96 THEN <<92, 96>> \o Tick(s, i + 1)
              ELSE <<s[i]>> \o Tick(s, i + 1)
EncJSON(v) == <<96>> \o Tick(EncJSONText(v), 1) \o <<96>>
\* JSON literal of a string with a chosen escaping style
EncJSONStr(s, allU) == <<96>> \o Tick(EncQuoted(s, allU), 1) \o <<96>>
=============================================================================
