#!/usr/bin/env python3
"""Regenerate MANIFEST.json from the table below (kept in one place so that
it always validates)."""
import json, os
ROOT = os.path.dirname(os.path.dirname(os.path.abspath(__file__)))

CHECKS = {
 'C01': dict(
   level='model_checking', ref='DESIGN.md 6 (C01), 3.3-3.6',
   technique='TLA+ reference semantics (Grammar/Eval) + TLC-enumerated surface expressions replayed into the Go library',
   text='TLC enumerates every expression the surface-production machine GenSurface reaches within the depth bound '
        '(and random walks beyond it), the TLA+ specification computes the admissible outcomes on a pool of documents, '
        'and every case is replayed into Search/Compile/Expression.Search built from the working tree. Exhaustive inside '
        'the bound; the specification itself is calibrated against the compliance corpus on every run.',
   note='Trusts the TLA+ reading of the standard (the uniform selector-chain rule that C01 states; the alternative readings once admitted were removed, DESIGN 3.3 / 8.17), TLC, and the '
        'tagged-value projection shared by spec and harness.'),
 'C02': dict(
   level='model_checking', ref='DESIGN.md 6 (C02), 3.4',
   technique='TLA+ signature table and Builtins operators; TLC enumerates every function x argument count x pool tuple, replayed into the Go library',
   text='GenCall enumerates every built-in (and an unknown name) with 0..max+1 arguments drawn from a pool of JSON values and '
        'expression references in every position; Static.tla/Builtins.tla give the admissible outcome; TLC also checks that the '
        'error category follows an independently stated table of argument types. Every call is replayed into the real library.',
   note='Trusts the TLA+ reading of the function specifications (edge cases the standard leaves open are Open in the spec and counted as unpinned).'),
 'C10': dict(
   level='model_checking', ref='DESIGN.md 6 (C10)',
   technique='TLC checks the Pratt grammar of the spec against an independent precedence-level rule; all operator pairs replayed with and without explicit parentheses',
   text='GenOps builds x op1 y op2 z for all 18x18 operator spellings (and unary prefixes); TLC checks on the model that Grammar groups '
        'exactly as the precedence levels dictate, that unary operators bind tighter, and that full parenthesisation is neutral; every '
        'expression and its fully parenthesised form are evaluated on the real code over all assignments of pool values to x, y, z; '
        'operator triples (four operands) and, from GenChain, runs of up to 65 (thorough 257) operands of one operator or two alternating '
        'operators of a level are compared with their left-nested parenthesised text, also on documents where grouping changes rounding. '
        'GenOpForms repeats the operator pairs with one operand at a time written as a call, parenthesised field, @.x, $.x, indexed multi-select, '
        'selected hash, quoted identifier, ... against the text with the grouping of the precedence levels written out (FormsGroupByTable); '
        'expressions of the type-directed recorder are validated by TLC.',
   note='Trusts TLC and the level table written from the standard; documents are bounded to the value pool.'),
 'C12': dict(
   level='model_checking', ref='DESIGN.md 6 (C12), 3.4',
   technique='Slice.tla (two definitions cross-checked by TLC) as oracle; exhaustive small-scope enumeration of (n,start,stop,step) replayed into the Go library',
   text='SliceLemmas checks clamp-and-walk against the set definition and the huge-magnitude lemma on every small instance; GenSlice '
        'enumerates every start/stop/step (absent, -n-2..n+2, 64-bit limits, step 0) on arrays and mixed-width strings of length <= n, '
        'alone and followed by selectors, and the harness replays each; integer literals in unusual spellings (010, -0) and, from GenAlign, '
        'string slices with a multi-byte character at every byte offset 0..26 are added.',
   note='Exhaustive only up to the length bound; magnitudes beyond it are represented by the 64-bit limit literals (justified by HugeLemma).'),
 'C17': dict(
   level='model_checking', ref='DESIGN.md 6 (C17)',
   technique='identity schemata as TLA+ instance sets; TLC checks the spec implies each identity; both sides replayed into the Go library and compared',
   text='GenIdent instantiates the schemata S1,S2,S4,S5,S7 over pools of bases, projections and selector chains; TLC checks that the '
        'specification implies each instance on every pool document; the harness evaluates both sides on the real code, compares each '
        'with the specification and (where pinned) with each other. GenSurface adds the fused-node forms (and S6).',
   note='Where the two admissible readings of selector chains differ the identity is not demanded (counted as unpinned).'),
 'C19': dict(
   level='model_checking', ref='DESIGN.md 6 (C19)',
   technique='two let semantics in TLA+ (environment, substitution) cross-checked by TLC; generated let nestings replayed into the Go library',
   text='GenLet generates let-expressions with shadowing, sibling bindings, duplicate names and references under every context-changing '
        'construct; TLC checks environment semantics = capture-avoiding substitution on all of them; the harness replays each on 6 documents.',
   note='Nesting depth bounded; expression pools are fixed.'),
 'C20': dict(
   level='model_checking', ref='DESIGN.md 6 (C20)',
   technique='TLC checks equivalence-relation laws of the spec equality on all pairs/triples of a value pool; the pair matrix is replayed into the Go library',
   text='GenEq takes all ordered pairs of a 30-value pool through ==, !=, contains, !, &&, ||, filters and algebraic combinations; TLC '
        'checks reflexivity, symmetry, transitivity, type-strictness, != as negation, contains as exists-==, the five false-like shapes and '
        'operand-returning &&/|| on the model; number literals in 15 spellings are compared pairwise.',
   note='Pool-bounded.'),
 'C04': dict(
   level='model_checking', ref='DESIGN.md 6 (C04), 3.3',
   technique='TLA+ lexer+grammar as language recogniser; TLC enumerates all lexeme concatenations up to length k, accept sets compared with Compile',
   text='GenChars enumerates every concatenation of at most k lexemes over five alphabets (structural characters, literal characters and '
        'escapes, operator spellings, keywords/functions, hash syntax); the specification decides the static outcome of each and TLC '
        'prints the non-rejected ones; the harness enumerates the same strings, compiles each with the real library and requires a syntax '
        'error exactly for the rest (both directions: member rejected, non-member accepted), and MustCompile panics iff Compile fails. '
        'GenSweep adds 40 token families (literals of every kind, well- and ill-formed) at every length 0..1100 (thorough 9000), the outcome being a function of the length checked by TLC on the small members.',
   note='Exhaustive only up to k lexemes per alphabet; texts whose treatment the standard leaves open (blanks inside [*], let/in as names, unpaired surrogates) admit both verdicts.'),
 'C05': dict(
   level='model_checking', ref='DESIGN.md 6 (C05), 3.2',
   technique='bignum decimal arithmetic written in TLA+ (checked by TLC against integer arithmetic and algebraic laws) as oracle; operand-pool products replayed into the Go library',
   text='Decimal.tla computes exact results on digit sequences; DecimalLaws checks it against TLC integers on all pairs of small scaled '
        'integers (and algebraic laws on 34-digit operands in the thorough tier); GenArith takes every ordered pair of the operand pool '
        'through + - * / // %, six comparisons, sum, avg, abs, ceil, floor, unary signs and to_number, with operands as literals, JSON '
        'text and decimal values; results of more than 34 digits must lie within one unit of the 34th digit. GenBigArr describes arrays of '
        '127..10000 consecutive integers (around 0, 2^53, 10^15; six Go carriers) and computes sum/avg/max/min/sort results as closed forms '
        'with Decimal.tla (cross-checked against Eval on small instances).',
   note='The oracle is my own bignum code (trusted after the law checks). // and % are Open for operands of opposite sign, results below the normal range are Open.'),
 'C11': dict(
   level='model_checking', ref='DESIGN.md 6 (C11)',
   technique='strings are code-point sequences in the TLA+ spec; TLC enumerates all strings over a mixed-width alphabet x string operations, replayed into the Go library',
   text='GenStr builds every string of length <= n over {a, e-acute, U+0301, euro, U+FFFD, emoji} and evaluates ~170 string operations '
        '(length, slices, reverse, find_*, pad_*, split, sort/max/min/sort_by, starts/ends_with, contains, join, replace, trim) on each; '
        'TLC checks the renaming homomorphism on the model; the harness compares the real results and checks every result string is valid UTF-8. '
        'GenAlign moves one multi-byte character through every offset of a longer ASCII string; recorded string operations on random strings are validated by TLC.',
   note='Alphabet and length bounded; case mapping and default trim on non-ASCII text are Open.'),
 'C13': dict(
   level='model_checking', ref='DESIGN.md 6 (C13)',
   technique='stable insertion sort in TLA+ with its defining predicate checked by TLC; parameterised arrays (lengths around and beyond the small-array threshold) replayed into the Go library',
   text='GenSort builds arrays of records with unique payloads from (length, key pattern, key kind, seed); TLC checks that the spec sort is a '
        'permutation, ordered, and keeps ties in input order; the harness replays sort_by, max_by, min_by, sort, max, min and the '
        'invalid-type cases and compares exactly (stability is visible through the payloads); sorts nested inside sort keys (re-entrancy); '
        'sort operations recorded from the real code on random arrays of up to 200 elements are validated by TLC against the specification sort.',
   note='Lengths up to 20 (quick) / 64 (thorough); extremal elements with tied keys are Open.'),
 'C16': dict(
   level='model_checking', ref='DESIGN.md 6 (C16), 3.3',
   technique='decoders and encoders of the three literal syntaxes in TLA+ with Dec(Enc(s))=s checked by TLC; all short strings over the delimiter/escape alphabet replayed into the Go library',
   text='GenLit builds every string of length <= n over the characters that matter to literals, encodes it as raw string (2 spellings), '
        'JSON literal and quoted identifier (minimal and all-\\uXXXX escapes, surrogate pairs), and requires the real code to evaluate '
        'each to the string / select the member named by it; plus JSON values between backticks, preserved raw-string escapes and '
        'ill-formed surrogate escapes.',
   note='Length bounded; numbers inside JSON literals are small here (C05 covers long ones).'),
 'C03': dict(
   level='model_checking', ref='DESIGN.md 6 (C03)',
   technique='every TLC-generated case doubles as a no-panic case (a panic is outside every admissible set); dedicated hostile-value, byte-level and nesting generators; child-process isolation attributes crashes and hangs',
   text='GenHostile puts 33 kinds of non-JSON / non-finite Go values at every leaf position under 81 expressions; GenChars over a byte-level '
        'alphabet (invalid UTF-8, NUL, quotes, backslashes, multi-byte characters) compiles every short concatenation; nesting families are '
        'scaled to 10^5 (quick) / 5x10^6 (thorough) levels; GenCall and GenCost add every function argument tuple and 64-bit magnitudes. '
        'All cases run in worker processes with a watchdog so that a fatal runtime error or a hang is attributed to its input.',
   note='"All Go values" and "any length" are sampled by representative kinds and depths.'),
 'C06': dict(
   level='model_checking', ref='DESIGN.md 6 (C06), 3.7',
   technique='API.tla state machine (Compile/MustCompile/Search/Expression.Search/FeedBack) explored by TLC; every history replayed into the real API with deep snapshots',
   text='TLC enumerates every history of the API machine within the bound (and random longer ones), checks Immutable (action property), Pure, '
        'StaticAtCompile, StaticIgnoresDoc and Closed on the model, and the harness replays each history: snapshots of all documents '
        '(including spare slice capacity) and all earlier results are compared after every call; Expression.Search is compared with the '
        'specification and with a fresh one-shot Search; MustCompile must panic exactly when Compile fails. In the other direction random '
        'histories recorded from the real API are validated by TLC against TraceAPI.tla (the actions of API.tla).',
   note='Histories bounded to 3 calls exhaustively (8 by simulation) over a fixed pool of 16 texts and 3 documents.'),
 'C07': dict(
   level='model_checking', ref='DESIGN.md 6 (C07), 4.5',
   technique='APIConc.tla interleavings enumerated by TLC and replayed into real goroutines gated by the evaluate-entry hook; the same call sets ungated under the Go race detector',
   text='APIConc splits every call into gate-delimited segments and TLC enumerates all interleavings of the goroutines; each complete schedule is '
        'replayed with the verif step hook as scheduler gate and every outcome is compared with the outcome the call has alone; the call sets '
        'also run ungated from 8 goroutines in a -race build (a race report is a violation); in the same build every expression of GenApply and '
        'GenCall is compiled afresh and first evaluated by 4 goroutines released together on one shared document.',
   note='Schedule control is at evaluate-entry granularity; data races are found only on code the chosen call sets execute.'),
 'C08': dict(
   level='model_checking', ref='DESIGN.md 6 (C08)',
   technique='single-fault catalogue and generated failing calls with spec-computed categories; API machine checks static faults at Compile only; harness checks nil result / exactly one sentinel',
   text='GenFault holds one template per static fault class and per run-time fault site (TLC checks each has a single admissible category '
        'and that static ones ignore the document); every template runs on every pool document; GenCall contributes all failing calls and '
        'API.tla the Compile / Expression.Search split. On every failure the harness requires a nil result, exactly one matching exported '
        'category, the specified category, and a formattable error. 304 further templates raise each run-time fault only at the k-th element of an iterating construct.',
   note='Multi-fault expressions admit every category present.'),
 'C09': dict(
   level='exploration', ref='DESIGN.md 6 (C09), 8',
   technique='model-derived inputs (integer parameter positions x 64-bit magnitudes, nesting families) with expected outcomes; time, allocation and evaluator steps measured on the real code against a twin input',
   text='Running time is not a model property. GenCost supplies every integer parameter position at magnitudes up to 2^63-1 together with the '
        'twin magnitude 1000 (same outcome by the TLC-checked huge-magnitude lemma); the harness requires equal evaluator steps and time / '
        'allocation within a generous factor of the twin, scales 8 nesting families (plus flat, let-wrapped, document-depth and count families) and requires at most ~quadratic growth, and runs all of it '
        'under a per-case watchdog. LexMachine checks strict progress of the tokeniser on the model.',
   note='Measurement-based: thresholds are generous to avoid flakiness (50x time, 8x allocation); a timeout counts only if it reproduces in a fresh process.'),
 'C14': dict(
   level='model_checking', ref='DESIGN.md 6 (C14)',
   technique='carrier-independence is structural in the spec (Eval has no carrier input); TLC enumerates values x carrier assignments x expressions, replayed with each Go numeric kind',
   text='GenCarrier emits, for every pair of pool values and every assignment of 16 number carriers (json.Number in three spellings, all integer '
        'kinds, float32/64, decimal) to the number leaves, 53 expressions (arithmetic, comparison, sorting, truthiness, type, integer-argument '
        'positions) with the one outcome the specification assigns; the harness builds the document with those Go types and compares. GenArith '
        '(mixed carriers up to 34 digits), GenIntArg (integer arguments in 32 numeric spellings) and GenBigArr (large arrays around 2^53) run too.',
   note='Values are chosen so that every intermediate is exactly representable; assignments that cannot hold a value are skipped and counted.'),
 'C15': dict(
   level='model_checking', ref='DESIGN.md 6 (C15), 3.5',
   technique='order marks on arrays obtained from object members in the spec; generated cases re-evaluated repeatedly on rebuilt maps with fresh compilations',
   text='The specification marks arrays whose order is unspecified and makes order-sensitive uses of them Open; every case of GenSurface (on '
        'documents with 2-3-member objects), GenCall and GenLet is evaluated 8 (quick) / 64 (thorough) times with independently rebuilt maps '
        'and fresh compilations; all outcomes must be equal, as multisets only at marked arrays.',
   note='Unpinned (Open) cases are exempt, since the property permits their variation.'),
 'C18': dict(
   level='model_checking', ref='DESIGN.md 6 (C18)',
   technique='pipe law checked on the model; result of e1 fed back as Go value into e2 and compared with (e1)|(e2) and the spec; JSON type walk and encoding/json round trip on every result',
   text='GenPipe pairs 29 result-producing expressions with 24 consumers on 15 documents; the harness searches e1, requires plain JSON data that '
        'survives json.Marshal/decode unchanged, feeds the Go value itself into e2 and compares with (e1) | (e2) and with the specification; '
        'API.tla histories add FeedBack of results as documents of later calls; recorded histories with fed-back results are validated by TraceAPI.tla.',
   note='Pool-bounded.'),
}

ALL = ['C%02d' % i for i in range(1, 21)]

def main():
    checks = []
    for pid in ALL:
        c = CHECKS.get(pid)
        if not c:
            continue
        checks.append({
            'property_id': pid,
            'quick_cmd': 'bin/check %s --tier quick' % pid,
            'thorough_cmd': 'bin/check %s --tier thorough' % pid,
            'evidence_file': 'evidence/%s.json' % pid,
            'replay_cmd_template': 'bin/check %s --replay {path}' % pid,
            'engine': 'tlc+harness',
            'level_claimed': {'category': c['level'], 'text': c['text'], 'design_ref': c['ref']},
            'level_note': c['note'],
            'technique': c['technique'],
        })
    na = [{'property_id': pid, 'reason': 'check not built yet in this round (planned with the same TLA+ specification; see DESIGN.md section 6)'}
          for pid in ALL if pid not in CHECKS]
    m = {
        'version': 1,
        'setup_cmd': 'bin/setup',
        'hooks': {
            'guard': 'verif (Go build tag)',
            'enable': 'go build -tags verif (the harness module replaces github.com/woodsbury/jmespath with /repo)',
            'baseline_off_cmd': 'cd /repo && GOFLAGS=-mod=mod GOPROXY=off GOTOOLCHAIN=local go1.26 test -vet=off -count=1 ./...',
            'source_commits': ['a9302a9'],
            'add_only': True,
        },
        'engines': [{'name': 'tlc+harness', 'path': 'bin/check',
                     'serves_properties': [c['property_id'] for c in checks],
                     'kind_free_text': 'TLA+ specification checked and enumerated by TLC; behaviours replayed into the Go library by harness/, recorded traces validated by TLC'}],
        'checks': checks,
        'not_applicable': na,
        'notes': 'exit 2 from a check means the check itself is broken (TLC error, spec/corpus disagreement, build failure), never a violation',
    }
    with open(os.path.join(ROOT, 'MANIFEST.json'), 'w') as f:
        json.dump(m, f, indent=1)

if __name__ == '__main__':
    main()
