#!/usr/bin/env python3
"""Regenerate MANIFEST.json from the table below (kept in one place so that
it always validates)."""
import json, os
ROOT = os.path.dirname(os.path.dirname(os.path.abspath(__file__)))

CHECKS = {
 'C01': dict(
   level='model_checking', ref='DESIGN.md 6 (C01), 3.3-3.6',
   technique='TLA+ reference semantics (Grammar/Eval) + TLC-enumerated surface expressions replayed into the Go library',
   text='TLC enumerates every expression the surface-production machine GenSurface reaches within the depth bound '
        '(and random walks beyond it), the TLA+ specification computes the admissible outcomes on a pool of documents, '
        'and every case is replayed into Search/Compile/Expression.Search built from the working tree. Exhaustive inside '
        'the bound; the specification itself is calibrated against the compliance corpus on every run.',
   note='Trusts the TLA+ reading of the standard (both selector-chain readings are admitted, DESIGN app. A), TLC, and the '
        'tagged-value projection shared by spec and harness.'),
}

ALL = ['C%02d' % i for i in range(1, 21)]

def main():
    checks = []
    for pid in ALL:
        c = CHECKS.get(pid)
        if not c:
            continue
        checks.append({
            'property_id': pid,
            'quick_cmd': 'bin/check %s --tier quick' % pid,
            'thorough_cmd': 'bin/check %s --tier thorough' % pid,
            'evidence_file': 'evidence/%s.json' % pid,
            'replay_cmd_template': 'bin/check %s --replay {path}' % pid,
            'engine': 'tlc+harness',
            'level_claimed': {'category': c['level'], 'text': c['text'], 'design_ref': c['ref']},
            'level_note': c['note'],
            'technique': c['technique'],
        })
    na = [{'property_id': pid, 'reason': 'check not built yet in this round (planned with the same TLA+ specification; see DESIGN.md section 6)'}
          for pid in ALL if pid not in CHECKS]
    m = {
        'version': 1,
        'setup_cmd': 'bin/setup',
        'hooks': {
            'guard': 'verif (Go build tag)',
            'enable': 'go build -tags verif (the harness module replaces github.com/woodsbury/jmespath with /repo)',
            'baseline_off_cmd': 'cd /repo && GOFLAGS=-mod=mod GOPROXY=off GOTOOLCHAIN=local go1.26 test -vet=off -count=1 ./...',
            'source_commits': ['a9302a9'],
            'add_only': True,
        },
        'engines': [{'name': 'tlc+harness', 'path': 'bin/check',
                     'serves_properties': [c['property_id'] for c in checks],
                     'kind_free_text': 'TLA+ specification checked and enumerated by TLC; behaviours replayed into the Go library by harness/, recorded traces validated by TLC'}],
        'checks': checks,
        'not_applicable': na,
        'notes': 'exit 2 from a check means the check itself is broken (TLC error, spec/corpus disagreement, build failure), never a violation',
    }
    with open(os.path.join(ROOT, 'MANIFEST.json'), 'w') as f:
        json.dump(m, f, indent=1)

if __name__ == '__main__':
    main()
