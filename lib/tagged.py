"""Conversion between JSON text / Python values and the tagged value format
shared by the TLA+ specification (JValue.tla), the Go harness and the driver.

  {"t":"null"} {"t":"bool","b":true} {"t":"num","n":15,"e":-1}
  {"t":"str","s":[97,98]} {"t":"arr","a":[...],"u":false}
  {"t":"obj","o":[{"k":[97],"v":...}, ...]}   members sorted by key code points

Numbers outside the specification's small-decimal model (more than 8
significant digits, or |exponent| > 999) raise BigNumber.
"""
import json, re
from decimal import Decimal


class BigNumber(Exception):
    pass


class NumText(str):
    """JSON number kept as its source text."""


def loads_keep_numbers(text):
    return json.loads(text, parse_float=NumText, parse_int=NumText)


def cps(s):
    return [ord(c) for c in s]


def num_to_ne(text):
    d = Decimal(text)
    sign, digits, exp = d.as_tuple()
    n = int(''.join(map(str, digits)))
    if n == 0:
        return 0, 0
    while n % 10 == 0:
        n //= 10
        exp += 1
    if len(str(n)) > 8 or abs(exp) > 999:
        raise BigNumber(text)
    return (-n if sign else n), exp


def tag(v):
    if v is None:
        return {"t": "null"}
    if isinstance(v, bool):
        return {"t": "bool", "b": v}
    if isinstance(v, NumText):
        n, e = num_to_ne(str(v))
        return {"t": "num", "n": n, "e": e}
    if isinstance(v, (int, float)):
        n, e = num_to_ne(repr(v))
        return {"t": "num", "n": n, "e": e}
    if isinstance(v, str):
        return {"t": "str", "s": cps(v)}
    if isinstance(v, list):
        return {"t": "arr", "a": [tag(x) for x in v], "u": False}
    if isinstance(v, dict):
        ms = [{"k": cps(k), "v": tag(x)} for k, x in v.items()]
        ms.sort(key=lambda m: m["k"])
        return {"t": "obj", "o": ms}
    raise TypeError(type(v))


def untag(t):
    k = t["t"]
    if k == "null":
        return None
    if k == "bool":
        return t["b"]
    if k == "num":
        return Decimal(t["n"]).scaleb(t["e"])
    if k == "str":
        return ''.join(chr(c) for c in t["s"])
    if k == "arr":
        return [untag(x) for x in t["a"]]
    if k == "obj":
        return {''.join(chr(c) for c in m["k"]): untag(m["v"]) for m in t["o"]}
    raise ValueError(k)


def show(t):
    """Readable rendering of a tagged value or outcome (for evidence samples)."""
    k = t.get("t")
    if k == "err":
        return "error:" + "|".join(sorted(t["cs"]))
    if k == "any":
        return "<unpinned>"
    def enc(v):
        if isinstance(v, Decimal):
            return format(v, 'f') if -20 < v.adjusted() < 20 else str(v)
        if isinstance(v, list):
            return '[' + ','.join(enc(x) for x in v) + ']'
        if isinstance(v, dict):
            return '{' + ','.join(json.dumps(a) + ':' + enc(b) for a, b in v.items()) + '}'
        return json.dumps(v, ensure_ascii=False)
    return enc(untag(t))
