"""Per-property check plans.  A plan is a function(ctx, api) that runs the
TLC stages of one property and returns
   {'violations': [...], 'coverage': {...}, 'level': ..., 'assumptions': [...]}
The oracle is always the TLA+ specification; plans only choose bounds."""
import os, json

PLANS = {}


def plan(pid, need_race=False):
    def deco(f):
        f.need_race = need_race
        PLANS[pid] = f
        return f
    return deco


class Acc:
    """accumulates TLC statistics and harness summaries over several stages"""

    def __init__(self):
        self.states = 0
        self.transitions = 0
        self.cases = 0
        self.pinned = 0
        self.distinct_lines = 0
        self.violations = []
        self.violations_total = 0
        self.classes = {}
        self.samples = []
        self.stages = []
        self.traces = 0
        self.unconfirmed = 0
        self.steps = 0
        self.node_kinds = set()
        self.exhaustive = True
        self.not_run = 0

    def add(self, name, st, summ, exhaustive=True):
        self.states += st.get('distinct', 0)
        self.transitions += st.get('generated', 0)
        if summ is not None:
            self.cases += summ['cases']
            self.pinned += summ['pinned']
            self.distinct_lines += summ.get('distinct_lines', 0)
            self.violations += summ['kept'] or []
            self.violations_total += summ['violations']
            self.unconfirmed += summ.get('unconfirmed', 0)
            self.steps += summ.get('steps', 0)
            self.not_run += summ.get('not_run', 0)
            self.node_kinds |= set(summ.get('node_kinds') or [])
            for k, v in summ['classes'].items():
                self.classes[k] = self.classes.get(k, 0) + v
            for s in summ['samples'] or []:
                if len(self.samples) < 8:
                    self.samples.append(s)
        self.exhaustive = self.exhaustive and exhaustive
        self.stages.append({'stage': name, 'tlc_states_generated': st.get('generated', 0),
                            'tlc_distinct_states': st.get('distinct', 0), 'tlc_wall_s': st.get('wall_s'),
                            'cases_replayed': summ['cases'] if summ else 0,
                            'pinned_cases': summ['pinned'] if summ else 0,
                            'violations': summ['violations'] if summ else 0,
                            'exhaustive_within_bounds': exhaustive})

    def add_traces(self, name, tv):
        self.states += tv['st'].get('distinct', 0)
        self.transitions += tv['st'].get('generated', 0)
        self.traces += tv['accepted']
        self.cases += tv['events']
        self.pinned += tv['pinned']
        self.violations += tv['violations']
        self.violations_total += len(tv['violations'])
        self.exhaustive = False
        self.stages.append({'stage': name, 'events_recorded_from_real_code': tv['events'],
                            'events_accepted_by_tlc': tv['accepted'], 'events_rejected': len(tv['violations']),
                            'events_skipped_outside_small_decimal_model': tv['skipped'],
                            'tlc_distinct_states': tv['st'].get('distinct', 0), 'tlc_wall_s': tv['st'].get('wall_s')})

    def result(self, rule, extra=None, level='model_checking', assumptions=None):
        cov = {
            'states': self.states, 'transitions': self.transitions,
            'traces_validated_against_impl': self.traces,
            'evaluations': self.cases, 'distinct_nontrivial': self.pinned,
            'rule': rule, 'samples': self.samples, 'exhaustive': self.exhaustive,
            'stages': self.stages, 'violation_classes': self.classes,
            'unpinned_cases': self.cases - self.pinned,
            'unconfirmed_timeouts_or_crashes': self.unconfirmed,
            'evaluator_steps_observed': self.steps,
            'cases_not_run_after_repeated_hangs': self.not_run,
        }
        if self.node_kinds:
            cov['ast_node_kinds_executed'] = sorted(self.node_kinds)
        if extra:
            cov.update(extra)
        return {'violations': self.violations, 'violations_total': self.violations_total, 'coverage': cov,
                'level': level, 'assumptions': assumptions or []}


def cfg(spec='Spec', constants=None, invariants=('Check',), extra=''):
    lines = ['SPECIFICATION ' + spec, 'CONSTANTS']
    for k, v in (constants or {}).items():
        lines.append('  %s = %s' % (k, v))
    lines.append('INVARIANTS')
    for i in invariants:
        lines.append('  ' + i)
    lines.append('CHECK_DEADLOCK FALSE')
    if extra:
        lines.append(extra)
    return '\n'.join(lines) + '\n'


def tb(b):
    return 'TRUE' if b else 'FALSE'


def api_cfg(consts, sel='AllSel', extra='', npool=4):
    text = cfg(constants=dict(consts, NPool=npool), extra=extra)
    return text.replace('CONSTANTS\n', 'CONSTANTS\n  TextSel <- %s\n' % sel)


def surface_cfg(depth, prop, pool='Core'):
    text = cfg(constants={'MaxDepth': depth, 'Emit': 'TRUE', 'Prop': '"%s"' % prop, 'PoolName': '"%s"' % pool})
    return text.replace('CONSTANTS\n', 'CONSTANTS\n  Docs <- Pool%s\n' % pool)


RULE_PINNED = ('cases are the distinct reachable states of the TLA+ generator machine(s) (one case per state and '
               'pool document); a case is non-trivial when the specification pins it: its admissible set is a '
               'single value or a single error category (not Open); duplicates produced by -simulate are dropped '
               'by hash before they are counted')


def typed_traces(ctx, api, acc, n, seed):
    """direction B with the type-directed grower (harness/typed.go)"""
    tv = api['run_trace_validation'](ctx, 'typed-traces', n, seed, corpus=False, mode='typed')
    acc.add_traces('trace validation, type-directed grower: expressions grown along a schema of the document (selector chains after every kind of '
                   'projection, filters over element types, by-functions with keys over the element type, lets with sibling and shadowing bindings, '
                   '34 call shapes, operators between typed operands) on documents that deviate from the schema at random places; every recorded '
                   'outcome checked by TLC against Admissible(expr, doc)', tv)


# --------------------------------------------------------------------- C01
@plan('C01')
def c01(ctx, api):
    acc = Acc()
    thorough = ctx['tier'] == 'thorough'
    depth = 3 if thorough else 2
    st, summ = api['run_tlc_to_harness'](ctx, 'surface-bfs', 'GenSurface',
                                         surface_cfg(depth, 'C01'),
                                         timeout=3000 if thorough else 600)
    acc.add('GenSurface BFS depth %d' % depth, st, summ)
    sim = {'num': 12 if thorough else 3, 'depth': 7, 'seed': ctx['seed']}
    st, summ = api['run_tlc_to_harness'](ctx, 'surface-sim', 'GenSurface',
                                         surface_cfg(6, 'C01'),
                                         simulate=sim, timeout=1200)
    acc.add('GenSurface -simulate depth<=6', st, summ, exhaustive=False)
    st, summ = api['run_tlc_to_harness'](ctx, 'spellings', 'GenSlice', cfg(constants={'Emit': 'TRUE', 'Prop': '"C01"', 'MaxN': 1}), timeout=1500)
    acc.add('GenSlice (n <= 1) with the integer-literal spelling family (leading zeros, -0) on 12-element arrays and strings', st, summ)
    tv = api['run_trace_validation'](ctx, 'traces', 6000 if thorough else 1500, ctx['seed'])
    acc.add_traces('trace validation: the compliance corpus and randomly grown expressions/documents run through the real Search, '
                   'every recorded outcome checked by TLC against Admissible(expr, doc)', tv)
    typed_traces(ctx, api, acc, 40000 if thorough else 6000, ctx['seed'] + 11)
    st, summ = api['run_tlc_to_harness'](ctx, 'tsweep', 'GenTSweep', cfg(constants={'Emit': 'TRUE', 'Prop': '"C01"', 'Only': '{}', 'To': 9000 if thorough else 1100}),
                                         timeout=1500, harness_args=['-timeout', '600s'])
    acc.add('GenTSweep: 120 template families (document, expression and expected value with REP / IDX / NUM holes) instantiated for every n = 0..%d: '
            'a 2/3/4-byte character after n letters under 17 string operations, n distinct variables / fields / arguments / hash keys, every array / object / string function on inputs of size n, '
            'arrays of n elements; checked against the full specification for 4 values of n (TemplateLemma)' % (9000 if thorough else 1100), st, summ)
    st, summ = api['run_tlc_to_harness'](ctx, 'names', 'GenNames', cfg(constants={'Emit': 'TRUE', 'Prop': '"C01"'}), timeout=1500)
    acc.add('GenNames: 31 member names that look like syntax ("x.y", "x[0]", "*", "a|b", "", "0", "let" ...) in 17 positions, each paired with its '
            'piped spelling, on documents that also hold what a name split at dots or brackets would find', st, summ)
    st, summ = api['run_tlc_to_harness'](ctx, 'let', 'GenLet', cfg(constants={'Emit': 'TRUE', 'Prop': '"C01"', 'Depth': 2}), timeout=3000)
    acc.add('GenLet: projections, filters and pipes whose sub-expressions read variables, incl. correlated sub-queries (a let inside an iteration '
            'binding part of the element, used by a filter rooted at $)', st, summ)
    st, summ = api['run_tlc_to_harness'](ctx, 'probe', 'GenProbe', cfg(constants={'Emit': 'TRUE', 'Prop': '"C01"'}), timeout=1500, harness_args=['-timeout', '60s'])
    acc.add('GenProbe: single inputs with a pinned outcome from the audit rounds', st, summ)
    return acc.result(RULE_PINNED, extra={'bounds': {'bfs_depth': depth, 'pool_documents': 15}})


# --------------------------------------------------------------------- C17
@plan('C17')
def c17(ctx, api):
    acc = Acc()
    thorough = ctx['tier'] == 'thorough'
    typed_traces(ctx, api, acc, 20000 if thorough else 3000, ctx['seed'] + 117)
    st, summ = api['run_tlc_to_harness'](ctx, 'ident', 'GenIdent',
                                         cfg(constants={'Emit': 'TRUE', 'Prop': '"C17"', 'Big': tb(thorough)}),
                                         timeout=3000)
    acc.add('GenIdent schemata S1,S2,S4,S5,S7 (%s selector pool)' % ('large' if thorough else 'small'), st, summ)
    # the fused AST nodes behind the identities (and the S6 forms) through the surface generator
    depth = 3 if thorough else 2
    st, summ = api['run_tlc_to_harness'](ctx, 'surface-bfs', 'GenSurface',
                                         surface_cfg(depth, 'C17'),
                                         timeout=3000)
    acc.add('GenSurface BFS depth %d' % depth, st, summ)
    if thorough:
        st, text = api['run_tlc_only'](ctx, 'ident-s6', 'GenIdent',
                                       cfg(constants={'Emit': 'FALSE', 'Prop': '"C17"', 'Big': 'FALSE'},
                                           invariants=('S6',)), timeout=1200)
        if st['errors'] or st['rc'] != 0:
            raise api['Broken']('S6 model check failed: %s' % st['errors'][:3])
        acc.add('S6 (multi-select list = concatenation) on the model', st, None)
    st, summ = api['run_tlc_to_harness'](ctx, 'names', 'GenNames', cfg(constants={'Emit': 'TRUE', 'Prop': '"C17"'}), timeout=1500)
    acc.add('GenNames: 31 member names that look like syntax ("x.y", "x[0]", "*", "a|b", "", "0", "let" ...) in 17 positions, each paired with its '
            'piped spelling, on documents that also hold what a name split at dots or brackets would find', st, summ)
    st, summ = api['run_tlc_to_harness'](ctx, 'probe', 'GenProbe', cfg(constants={'Emit': 'TRUE', 'Prop': '"C17"'}), timeout=1500, harness_args=['-timeout', '60s'])
    acc.add('GenProbe: single inputs with a pinned outcome from the audit rounds', st, summ)
    st, summ = api['run_tlc_to_harness'](ctx, 'tsweep', 'GenTSweep', cfg(constants={'Emit': 'TRUE', 'Prop': '"C17"', 'Only': '{"pidx-", "a-", "arr-", "elem-", "flatten", "proj-"}', 'To': 9000 if thorough else 1100}),
                                         timeout=1500, harness_args=['-timeout', '600s'])
    acc.add('GenTSweep valid-index families: the last element of an array of n + 1 elements reached through a filter / wildcard / flatten / slice projection '
            'ended by a pipe or parentheses, through sort, sort_by, map, a multi-select, for every n = 0..%d (the index crosses every integer-width boundary '
            'while it is still a VALID index); plus the array families' % (9000 if thorough else 1100), st, summ)
    return acc.result(RULE_PINNED + '; a pair case is non-trivial when both sides have one common pinned outcome, '
                      'in which case the harness also demands that the two real results are equal',
                      extra={'schemata': ['S1 P sels = P | [*] sels', 'S2 x[*].e = map(&e,x)[*]', 'S4 a.b = a | b',
                                          'S5 (P).s = P | s', 'S6 [e1,e2] = [e1] ++ [e2]', 'S7 {k:e}.k = e']})


# --------------------------------------------------------------------- C10
@plan('C10')
def c10(ctx, api):
    acc = Acc()
    thorough = ctx['tier'] == 'thorough'
    typed_traces(ctx, api, acc, 20000 if thorough else 3000, ctx['seed'] + 110)
    consts = {'Emit': 'TRUE', 'Prop': '"C10"', 'Triples': tb(thorough), 'Quads': '"all"' if thorough else '"rep"',
              'Pool <- ' + ('PoolOpsBig' if thorough else 'PoolOps'): None,
              'NDocs': 1000 if thorough else 343}
    text = cfg(constants={k: v for k, v in consts.items() if v is not None})
    text = text.replace('CONSTANTS\n', 'CONSTANTS\n  Pool <- %s\n' % ('PoolOpsBig' if thorough else 'PoolOps'))
    st, summ = api['run_tlc_to_harness'](ctx, 'ops', 'GenOps', text, timeout=3000)
    acc.add('GenOps: all ordered pairs of the 18 operator spellings%s x %d documents; operator triples (%s) x 256 documents'
            % (' with every unary prefix placement' if thorough else ' (+ every single operator with unary prefixes)',
               1000 if thorough else 343, '15^3, one spelling per operator' if thorough else '6^3, one operator per precedence level'), st, summ)
    opset = '{' + ', '.join(str(i) for i in range(1, 19)) + '}' if thorough else '{1, 2, 3, 4, 6, 10, 11, 13, 15, 17, 18, 5, 7, 8, 9}'
    st, summ = api['run_tlc_to_harness'](ctx, 'opforms', 'GenOpForms', cfg(constants={'Emit': 'TRUE', 'Prop': '"C10"', 'OpSet': opset}), timeout=3000)
    acc.add('GenOpForms: e1 op1 e2 [op2 e3] over every ordered pair of %s operators, one operand at a time written in one of 11 other forms '
            '(a call, a parenthesised field, @.x, $.x, an indexed multi-select list, a selected multi-select hash, a quoted identifier, a two-argument '
            'call, a by-function, a call followed by an index, a call followed by .call), against the text with the grouping of the precedence levels '
            'written out, on 54 documents (FormsGroupByTable on the model)' % ('18' if thorough else '15'), st, summ)
    lens = '{2, 3, 4, 15, 16, 17, 31, 32, 33, 63, 64, 65, 127, 128, 129, 257}' if thorough else '{2, 3, 31, 32, 33, 65}'
    st, summ = api['run_tlc_to_harness'](ctx, 'chain', 'GenChain', cfg(constants={'Emit': 'TRUE', 'Prop': '"C10"', 'Lens': lens}), timeout=1500)
    acc.add('GenChain: runs of %s operands joined by one operator (18 spellings) or two alternating operators of one level (14 pairs), '
            'against the left-nested parenthesised text, on 5 small documents (outcome from Eval) and 8 documents where the grouping '
            'changes rounding (float64 1e16 + 1, 34-digit decimals; the two texts must agree)' % lens, st, summ)
    st, summ = api['run_tlc_to_harness'](ctx, 'tsweep', 'GenTSweep', cfg(constants={'Emit': 'TRUE', 'Prop': '"C10"', 'Only': '{"chain-"}', 'To': 9000 if thorough else 1100}),
                                         timeout=1500, harness_args=['-timeout', '600s'])
    acc.add('GenTSweep chain families: runs of n = 0..%d operands of one operator whose first / last / middle operand is an expression of another '
            'precedence level (and-then-ors, parenthesised-or-then-ands, mul-then-adds, left-nested subtraction and division, comparison-then-ands, '
            'not-then-ors, pipes after or); the value is a closed form of n checked against the specification for 4 values of n (TemplateLemma)'
            % (9000 if thorough else 1100), st, summ)
    return acc.result(RULE_PINNED + '; each case also carries the fully parenthesised text, which must give the same result on the real code',
                      extra={'model_checks': ['GroupsByTable', 'TemplateLemma', 'UnaryTighterThanBinary', 'ParenNeutral', 'AllParse', 'ChainLeftNested', 'SameOutcomeInModel']})


# --------------------------------------------------------------------- C12
@plan('C12')
def c12(ctx, api):
    acc = Acc()
    thorough = ctx['tier'] == 'thorough'
    st, text = api['run_tlc_only'](ctx, 'slice-lemmas', 'SliceLemmas',
                                   cfg(constants={'MaxLen': 5 if thorough else 4, 'Range': 8 if thorough else 7},
                                       invariants=('Lemmas',)), timeout=1500)
    if st['errors'] or st['rc'] != 0:
        raise api['Broken']('slice lemmas failed on the model: %s' % st['errors'][:3])
    acc.add('SliceLemmas: clamp-and-walk = set definition; huge magnitudes behave as length+1', st, None)
    st = api['run_tlapm'](ctx, 'slice-proofs', 'SliceProofs')
    acc.add('SliceProofs (TLAPS, %d obligations): for EVERY length and EVERY integer start / stop / step the clamp lies in -1..len, a bound beyond '
            '+-(len+1) clamps like +-(len+1), a step beyond +-(len+1) ends the walk after its first index, every visited index is an index of the '
            'array, and the walk visits at most len indices -- the unbounded counterpart of HugeLemma, about the same Cap / Visits operators '
            '(SliceCap.tla) that Slice.tla evaluates' % st['obligations'], st, None)
    maxn = 6 if thorough else 4
    st, summ = api['run_tlc_to_harness'](ctx, 'slices', 'GenSlice',
                                         cfg(constants={'Emit': 'TRUE', 'Prop': '"C12"', 'MaxN': maxn}), timeout=3000)
    acc.add('GenSlice: n<=%d, every (start,stop,step) in absent/[-n-2,n+2]/64-bit limits, arrays and strings, 3 followers' % maxn,
            st, summ)
    st, summ = api['run_tlc_to_harness'](ctx, 'align', 'GenAlign', cfg(constants={'Emit': 'TRUE', 'Prop': '"C12"', 'MaxK': 34 if thorough else 26}), timeout=1500)
    acc.add('GenAlign: slices (and other position-sensitive operations) on strings with one 2/3/4-byte character after k = 0..%d ASCII letters' % (34 if thorough else 26), st, summ)
    st, summ = api['run_tlc_to_harness'](ctx, 'tsweep', 'GenTSweep', cfg(constants={'Emit': 'TRUE', 'Prop': '"C12"', 'Only': '{}', 'To': 9000 if thorough else 1100}),
                                         timeout=1500, harness_args=['-timeout', '600s'])
    acc.add('GenTSweep: 120 template families (document, expression and expected value with REP / IDX / NUM holes) instantiated for every n = 0..%d: '
            'a 2/3/4-byte character after n letters under 17 string operations, n distinct variables / fields / arguments / hash keys, every array / object / string function on inputs of size n, '
            'arrays of n elements; checked against the full specification for 4 values of n (TemplateLemma)' % (9000 if thorough else 1100), st, summ)
    return acc.result(RULE_PINNED, extra={'bounds': {'max_length': maxn}})


# --------------------------------------------------------------------- C20
@plan('C20')
def c20(ctx, api):
    acc = Acc()
    typed_traces(ctx, api, acc, 20000 if ctx['tier'] == 'thorough' else 3000, ctx['seed'] + 120)
    st, summ = api['run_tlc_to_harness'](ctx, 'eq', 'GenEq', cfg(constants={'Emit': 'TRUE', 'Prop': '"C20"'}), timeout=1500)
    acc.add('GenEq: all ordered pairs of a 30-value pool x 16 expressions; 15 number spellings pairwise', st, summ)
    if ctx['tier'] == 'thorough':
        # the same relations reached through the operator generator's documents
        text = cfg(constants={'Emit': 'TRUE', 'Prop': '"C20"', 'Triples': 'FALSE', 'NDocs': 1000, 'Quads': '"none"'})
        text = text.replace('CONSTANTS\n', 'CONSTANTS\n  Pool <- PoolOpsBig\n')
        st, summ = api['run_tlc_to_harness'](ctx, 'ops', 'GenOps', text, timeout=3000)
        acc.add('GenOps operator pairs on 1000 documents (boolean combinations)', st, summ)
    st, summ = api['run_tlc_to_harness'](ctx, 'arith', 'GenArith',
                                         cfg(constants={'Emit': 'TRUE', 'Prop': '"C20"', 'Big': tb(ctx['tier'] == 'thorough')}), timeout=3000)
    acc.add('GenArith: == != < <= > >= and contains on operands up to 34 digits (2^53, 2^53+1, 2^63 ...) carried as json.Number, decimal, '
            'int64, uint64, float64 in mixed pairs (oracle: Decimal.tla)', st, summ)
    st, summ = api['run_tlc_to_harness'](ctx, 'docdepth', 'GenCost', cfg(constants={'Emit': 'TRUE', 'Prop': '"C20"'}), timeout=1500,
                                         harness_args=['-only', 'docscale', '-timeout', '120s', '-workers', '8'])
    acc.add('equality and containment on documents nested 64 .. 8192 and 100000 levels deep (same outcome at every depth: DepthLemma)', st, summ)
    st, summ = api['run_tlc_to_harness'](ctx, 'probe', 'GenProbe', cfg(constants={'Emit': 'TRUE', 'Prop': '"C20"'}), timeout=1500, harness_args=['-timeout', '30s'])
    acc.add('GenProbe: single inputs with a pinned outcome from the audit round (recorded findings, re-observed on every run)', st, summ)
    return acc.result(RULE_PINNED, extra={'model_checks': ['Reflexive', 'Symmetric', 'Transitive', 'TypeStrict',
                                                           'NeIsNegation', 'ContainsIsExistsEq', 'FiveFalseLike',
                                                           'AndOrReturnOperand']})


# --------------------------------------------------------------------- C19
@plan('C19')
def c19(ctx, api):
    acc = Acc()
    thorough = ctx['tier'] == 'thorough'
    typed_traces(ctx, api, acc, 20000 if thorough else 3000, ctx['seed'] + 119)
    st, summ = api['run_tlc_to_harness'](ctx, 'let', 'GenLet',
                                         cfg(constants={'Emit': 'TRUE', 'Prop': '"C19"', 'Depth': 3 if thorough else 2}),
                                         timeout=3000)
    acc.add('GenLet: let nestings to depth %d x 6 documents' % (3 if thorough else 2), st, summ)
    ctx['harness_env'] = {'VERIF_DEEP': '100000'}
    try:
        st, summ = api['run_tlc_to_harness'](ctx, 'deep-lets', 'GenCost', cfg(constants={'Emit': 'TRUE', 'Prop': '"C19"'}), timeout=1500,
                                             harness_args=['-only', 'scale', '-timeout', '120s', '-workers', '8'])
    finally:
        ctx['harness_env'] = {}
    acc.add('let nesting 64 .. 8192 and 100,000 levels deep: shadowing ends with the inner let, chains of re-bindings, no leak to a sibling', st, summ)
    st, summ = api['run_tlc_to_harness'](ctx, 'tsweep', 'GenTSweep', cfg(constants={'Emit': 'TRUE', 'Prop': '"C19"', 'Only': '{}', 'To': 9000 if thorough else 1100}),
                                         timeout=1500, harness_args=['-timeout', '600s'])
    acc.add('GenTSweep: 120 template families (document, expression and expected value with REP / IDX / NUM holes) instantiated for every n = 0..%d: '
            'a 2/3/4-byte character after n letters under 17 string operations, n distinct variables / fields / arguments / hash keys, every array / object / string function on inputs of size n, '
            'arrays of n elements; checked against the full specification for 4 values of n (TemplateLemma)' % (9000 if thorough else 1100), st, summ)
    st, summ = api['run_tlc_to_harness'](ctx, 'probe', 'GenProbe', cfg(constants={'Emit': 'TRUE', 'Prop': '"C19"'}), timeout=1500, harness_args=['-timeout', '60s'])
    acc.add('GenProbe: single inputs with a pinned outcome from the audit round (recorded findings, re-observed on every run)', st, summ)
    return acc.result(RULE_PINNED, extra={'model_checks': ['EnvEqualsSubstitution', 'Parses', 'WrappedNestLemma']})


# --------------------------------------------------------------------- C02
@plan('C02')
def c02(ctx, api):
    acc = Acc()
    thorough = ctx['tier'] == 'thorough'
    typed_traces(ctx, api, acc, 20000 if thorough else 3000, ctx['seed'] + 102)
    st, summ = api['run_tlc_to_harness'](ctx, 'call', 'GenCall',
                                         cfg(constants={'Emit': 'TRUE', 'Prop': '"C02"', 'Small': 15 if thorough else 9}),
                                         timeout=3000)
    acc.add('GenCall: every function x 0..max+1 arguments x pool tuples (pool 21 values + 3 references; %d from the 3rd argument)'
            % (15 if thorough else 9), st, summ)
    st, summ = api['run_tlc_to_harness'](ctx, 'sort', 'GenSort',
                                         cfg(constants={'Emit': 'TRUE', 'Prop': '"C02"', 'Lengths': '{0, 1, 3, 13, 20, 40}',
                                                        'Seeds': '{%d}' % ctx['seed']}), timeout=3000)
    acc.add('GenSort: sort_by / max_by / min_by / sort / max / min on arrays beyond the pool sizes (stability, extremal elements)', st, summ)
    st, summ = api['run_tlc_to_harness'](ctx, 'apply', 'GenApply', cfg(constants={'Emit': 'TRUE', 'Prop': '"C02"'}), timeout=1500)
    acc.add('GenApply: every function x argument count x position of @, pool literals (also through a let variable) at the other positions, '
            'projected / mapped over an array of every admissible pool value and on single elements; the compiled expression is re-used '
            'across a perturbed document', st, summ)
    st, summ = api['run_tlc_to_harness'](ctx, 'intarg', 'GenIntArg', cfg(constants={'Emit': 'TRUE', 'Prop': '"C02"'}), timeout=1500)
    acc.add('GenIntArg: 32 numeral spellings (3e0, 30e-1, 3.0000000000000001, 1e-400 ...) in 8 integer-argument positions; '
            'integrality and value decided by Decimal.tla', st, summ)
    st, summ = api['run_tlc_to_harness'](ctx, 'probe', 'GenProbe', cfg(constants={'Emit': 'TRUE', 'Prop': '"C02"'}), timeout=1500, harness_args=['-timeout', '30s'])
    acc.add('GenProbe: single inputs with a pinned outcome from the audit round (recorded findings, re-observed on every run)', st, summ)
    st, summ = api['run_tlc_to_harness'](ctx, 'tsweep', 'GenTSweep', cfg(constants={'Emit': 'TRUE', 'Prop': '"C02"', 'Only': '{"findoff-", "find", "err-", "a-", "s-", "o-", "padl-", "split-", "repl-", "ends-"}', 'To': 9000 if thorough else 1100}),
                                         timeout=1500, harness_args=['-timeout', '600s'])
    acc.add('GenTSweep function families: every array / object / string function on inputs of size n, find_first / find_last with start and end offsets '
            'behind a multi-byte character that follows n letters, failing calls whose text has n characters, every n = 0..%d' % (9000 if thorough else 1100), st, summ)
    return acc.result(RULE_PINNED, extra={'model_checks': ['UnknownFunction', 'ArityIffOutOfRange', 'NoArityWhenInRange', 'TemplateLemma',
                                                           'TypeErrorIffOutsideSignature', 'OnlyDynamicCategories']})


# --------------------------------------------------------------------- C11
@plan('C11')
def c11(ctx, api):
    acc = Acc()
    thorough = ctx['tier'] == 'thorough'
    n = 4 if thorough else 3
    st, summ = api['run_tlc_to_harness'](ctx, 'str', 'GenStr',
                                         cfg(constants={'Emit': 'TRUE', 'Prop': '"C11"', 'MaxLen': n}), timeout=3000)
    acc.add('GenStr: all strings of length <= %d over {a, e-acute, U+0301, euro, U+FFFD, emoji} x ~170 string operations' % n, st, summ)
    st, summ = api['run_tlc_to_harness'](ctx, 'align', 'GenAlign', cfg(constants={'Emit': 'TRUE', 'Prop': '"C11"', 'MaxK': 34 if thorough else 26}), timeout=1500)
    acc.add('GenAlign: position-sensitive string operations with a multi-byte character at every offset 0..%d' % (34 if thorough else 26), st, summ)
    st, summ = api['run_tlc_to_harness'](ctx, 'sweep', 'GenSweep', cfg(constants={'Emit': 'TRUE', 'Prop': '"C11"', 'From': 0, 'To': 9000 if thorough else 1100}),
                                         timeout=1500, harness_args=['-timeout', '300s'])
    acc.add('GenSweep: 40 token families (raw / JSON / quoted literals with 1-4-byte characters and escapes, blanks, identifiers, ill-formed '
            'and unterminated literals) at EVERY repetition count 0..%d, i.e. every byte alignment across 512 .. 32768-byte boundaries; '
            'Search and Compile at each length (expected outcome a function of n, SweepLemma)' % (9000 if thorough else 1100), st, summ)
    sizes = '{510, 520, 600, 1100, 2000, 5000}' if thorough else '{510, 520, 600, 1100}'
    st, summ = api['run_tlc_to_harness'](ctx, 'bigstr', 'GenBigStr', cfg(constants={'Emit': 'TRUE', 'Prop': '"C11"', 'Sizes': sizes}), timeout=1500,
                                         harness_args=['-timeout', '60s'])
    acc.add('GenBigStr: sort / sort_by / max / min / reverse on %s strings with leading characters of 1-4 bytes in pseudo-random order; '
            'the expected array is a closed form checked against the specification sort for n = 10, 20, 30' % sizes, st, summ)
    st, summ = api['run_tlc_to_harness'](ctx, 'tsweep', 'GenTSweep', cfg(constants={'Emit': 'TRUE', 'Prop': '"C11"', 'Only': '{}', 'To': 9000 if thorough else 1100}),
                                         timeout=1500, harness_args=['-timeout', '600s'])
    acc.add('GenTSweep: 120 template families (document, expression and expected value with REP / IDX / NUM holes) instantiated for every n = 0..%d: '
            'a 2/3/4-byte character after n letters under 17 string operations, n distinct variables / fields / arguments / hash keys, every array / object / string function on inputs of size n, '
            'arrays of n elements; checked against the full specification for 4 values of n (TemplateLemma)' % (9000 if thorough else 1100), st, summ)
    tv = api['run_trace_validation'](ctx, 'unicode-traces', 3000 if thorough else 800, ctx['seed'], corpus=False, mode='unicode')
    acc.add_traces('trace validation: 30 string operations on random strings of <= 7 code points over 12 symbols (1-4 bytes, combining mark, '
                   'U+FFFD, U+10000), recorded from the real Search and checked by TLC', tv)
    return acc.result(RULE_PINNED, extra={'model_checks': ['RenamingHomomorphism', 'NoTypeErrors'],
                                          'generic': 'every result string is checked to be valid UTF-8'})


# --------------------------------------------------------------------- C13
@plan('C13')
def c13(ctx, api):
    acc = Acc()
    thorough = ctx['tier'] == 'thorough'
    lengths = '{0, 1, 2, 3, 11, 12, 13, 20, 33, 64}' if thorough else '{0, 1, 2, 3, 11, 12, 13, 20}'
    seeds = '{%s}' % ', '.join(str(ctx['seed'] + i) for i in range(8 if thorough else 1))
    st, summ = api['run_tlc_to_harness'](ctx, 'sort', 'GenSort',
                                         cfg(constants={'Emit': 'TRUE', 'Prop': '"C13"', 'Lengths': lengths, 'Seeds': seeds}),
                                         timeout=3000)
    acc.add('GenSort: lengths %s x 4 key patterns x {number, string keys} x %d seeds x 10 expressions'
            % (lengths, 8 if thorough else 1), st, summ)
    sizes = '{510, 520, 600, 1100, 2000, 5000}' if thorough else '{510, 520, 600, 1100}'
    st, summ = api['run_tlc_to_harness'](ctx, 'bigstr', 'GenBigStr', cfg(constants={'Emit': 'TRUE', 'Prop': '"C13"', 'Sizes': sizes}), timeout=1500,
                                         harness_args=['-timeout', '60s'])
    acc.add('GenBigStr: sort / sort_by / max / min / reverse on %s strings with leading characters of 1-4 bytes in pseudo-random order; '
            'the expected array is a closed form checked against the specification sort for n = 10, 20, 30' % sizes, st, summ)
    sizes = '{1000, 1024, 1500, 4096, 10000}' if thorough else '{1000, 1024, 1500}'
    st, summ = api['run_tlc_to_harness'](ctx, 'bigsort', 'GenBigSort', cfg(constants={'Emit': 'TRUE', 'Prop': '"C13"', 'Sizes': sizes}), timeout=1500,
                                         harness_args=['-timeout', '60s'])
    acc.add('GenBigSort: sort_by on %s records with many ties in 6 key patterns (descending / ascending blocks, cyclic, sawtooth, scattered, constant) x '
            '{number, string} keys; the stable order is a closed form checked against the specification sort for n = 7, 19, 31' % sizes, st, summ)
    tv = api['run_trace_validation'](ctx, 'sort-traces', 400 if thorough else 96, ctx['seed'], corpus=False, mode='sort',
                                     maxlen=200 if thorough else 100)
    acc.add_traces('trace validation: sort_by / max_by / min_by / sort / group_by on random arrays of 13..200 elements with many ties, '
                   'recorded from the real Search and checked by TLC against the specification sort (quick: up to 100 elements)', tv)
    st, summ = api['run_tlc_to_harness'](ctx, 'num', 'GenNum', cfg(constants={'Emit': 'TRUE', 'Prop': '"C13"'}), timeout=1500)
    acc.add('GenNum: min / max return an element (float64, native and exponent-spelled json.Number elements); numerals and spellings', st, summ)
    st, summ = api['run_tlc_to_harness'](ctx, 'probe', 'GenProbe', cfg(constants={'Emit': 'TRUE', 'Prop': '"C13"'}), timeout=1500, harness_args=['-timeout', '30s'])
    acc.add('GenProbe: single inputs with a pinned outcome from the audit round (recorded findings, re-observed on every run)', st, summ)
    return acc.result(RULE_PINNED, extra={'model_checks': ['Permutation', 'Ordered', 'TiesKeepInputOrder']})


# --------------------------------------------------------------------- C16
@plan('C16')
def c16(ctx, api):
    acc = Acc()
    thorough = ctx['tier'] == 'thorough'
    n = 4 if thorough else 3
    st, summ = api['run_tlc_to_harness'](ctx, 'lit', 'GenLit',
                                         cfg(constants={'Emit': 'TRUE', 'Prop': '"C16"', 'MaxLen': n}), timeout=3000)
    acc.add("GenLit: all strings of length <= %d over {' \" ` \\ a u LF U+0001 e-acute emoji U+FFFD blank} through raw, JSON and quoted-identifier literals (two escaping styles each) and 11 JSON values" % n,
            st, summ)
    st, summ = api['run_tlc_to_harness'](ctx, 'counts', 'GenCost', cfg(constants={'Emit': 'TRUE', 'Prop': '"C16"'}), timeout=1500,
                                         harness_args=['-only', 'count', '-timeout', '60s'])
    acc.add('literals with 255 / 256 / 257 / 65535 / 65536 / 65537 escapes, characters or elements (9 families; expected value = the count)', st, summ)
    st, summ = api['run_tlc_to_harness'](ctx, 'sweep', 'GenSweep', cfg(constants={'Emit': 'TRUE', 'Prop': '"C16"', 'From': 0, 'To': 9000 if thorough else 1100}),
                                         timeout=1500, harness_args=['-timeout', '300s'])
    acc.add('GenSweep: 40 token families (raw / JSON / quoted literals with 1-4-byte characters and escapes, blanks, identifiers, ill-formed '
            'and unterminated literals) at EVERY repetition count 0..%d, i.e. every byte alignment across 512 .. 32768-byte boundaries; '
            'Search and Compile at each length (expected outcome a function of n, SweepLemma)' % (9000 if thorough else 1100), st, summ)
    st, summ = api['run_tlc_to_harness'](ctx, 'names', 'GenNames', cfg(constants={'Emit': 'TRUE', 'Prop': '"C16"'}), timeout=1500)
    acc.add('GenNames: 31 member names that look like syntax ("x.y", "x[0]", "*", "a|b", "", "0", "let" ...) in 17 positions, each paired with its '
            'piped spelling, on documents that also hold what a name split at dots or brackets would find', st, summ)
    st, summ = api['run_tlc_to_harness'](ctx, 'escape', 'GenEscape', cfg(constants={'Emit': 'TRUE', 'Prop': '"C16"', 'Wide': tb(thorough)}), timeout=1500)
    acc.add('GenEscape: \\uXXXX with every four-character body over %d hex digits and near-misses (+ - g _ x blank) in 5 literal positions; 21 control / separator '
            'characters raw inside each literal kind at 3 positions; every one-character escape' % (13 if thorough else 8), st, summ)
    st, summ = api['run_tlc_to_harness'](ctx, 'num', 'GenNum', cfg(constants={'Emit': 'TRUE', 'Prop': '"C16"'}), timeout=1500)
    acc.add('GenNum: 17 numerals of every length and exponent (inside and outside the decimal128 range) kept at full precision through 15 non-computing '
            'forms; 41 spellings of 6 values (E / e, signed and zero-padded exponents, trailing zeros, shifted point) under 27 numeric functions and operators, '
            'each paired with the canonical spelling', st, summ)
    st, summ = api['run_tlc_to_harness'](ctx, 'probe', 'GenProbe', cfg(constants={'Emit': 'TRUE', 'Prop': '"C16"'}), timeout=1500, harness_args=['-timeout', '30s'])
    acc.add('GenProbe: single inputs with a pinned outcome from the audit round (recorded findings, re-observed on every run)', st, summ)
    return acc.result(RULE_PINNED, extra={'model_checks': ['LiteralDecodesToItself', 'DecEncRaw', 'DecEncQuoted', 'DecEncJSON', 'OneToken', 'CountLemma']})


# --------------------------------------------------------------------- C04
@plan('C04')
def c04(ctx, api):
    acc = Acc()
    thorough = ctx['tier'] == 'thorough'
    root = ctx['root']
    for alpha, n_quick, n_thorough in (('Structural', 4, 5), ('Literal', 4, 5), ('Operator', 3, 4), ('Keyword', 4, 5), ('Hash', 5, 6)):
        n = n_thorough if thorough else n_quick
        text = cfg(constants={'Emit': 'TRUE', 'Prop': '"C04"', 'MaxLen': n, 'AlphaName': '"%s"' % alpha})
        text = text.replace('CONSTANTS\n', 'CONSTANTS\n  Alpha <- Alpha%s\n' % alpha)
        st, summ = api['run_tlc_to_harness'](ctx, 'chars-' + alpha.lower(), 'GenChars', text, timeout=3000,
                                             harness_cmd='acceptset',
                                             harness_args=['-alphabets', os.path.join(root, 'spec', 'pools', 'Alphabets.alph'),
                                                           '-alpha', alpha, '-maxlen', str(n)])
        acc.add('GenChars %s alphabet: every concatenation of <= %d lexemes' % (alpha, n), st, summ)
    ctx['harness_env'] = {'VERIF_DEEP': '100000'}
    try:
        st, summ = api['run_tlc_to_harness'](ctx, 'long', 'GenCost', cfg(constants={'Emit': 'TRUE', 'Prop': '"C04"'}), timeout=3000,
                                             harness_args=['-only', 'scale', '-timeout', '120s', '-workers', '8'])
    finally:
        ctx['harness_env'] = {}
    acc.add('long members of the grammar: 12 repetition families (nested to 100,000 levels, flat to 300,000 repetitions) must compile', st, summ)
    st, summ = api['run_tlc_to_harness'](ctx, 'sweep', 'GenSweep', cfg(constants={'Emit': 'TRUE', 'Prop': '"C04"', 'From': 0, 'To': 9000 if thorough else 1100}),
                                         timeout=1500, harness_args=['-timeout', '300s'])
    acc.add('GenSweep: 40 token families (raw / JSON / quoted literals with 1-4-byte characters and escapes, blanks, identifiers, ill-formed '
            'and unterminated literals) at EVERY repetition count 0..%d, i.e. every byte alignment across 512 .. 32768-byte boundaries; '
            'Search and Compile at each length (expected outcome a function of n, SweepLemma)' % (9000 if thorough else 1100), st, summ)
    st, summ = api['run_tlc_to_harness'](ctx, 'escape', 'GenEscape', cfg(constants={'Emit': 'TRUE', 'Prop': '"C04"', 'Wide': tb(thorough)}), timeout=1500)
    acc.add('GenEscape: \\uXXXX with every four-character body over %d hex digits and near-misses (+ - g _ x blank) in 5 literal positions; 21 control / separator '
            'characters raw inside each literal kind at 3 positions; every one-character escape' % (13 if thorough else 8), st, summ)
    st, summ = api['run_tlc_to_harness'](ctx, 'probe', 'GenProbe', cfg(constants={'Emit': 'TRUE', 'Prop': '"C04"'}), timeout=1500, harness_args=['-timeout', '30s'])
    acc.add('GenProbe: single inputs with a pinned outcome from the audit round (recorded findings, re-observed on every run)', st, summ)
    tv = api['run_trace_validation'](ctx, 'mutation-traces', 6000 if thorough else 1500, ctx['seed'], corpus=False, mode='mutate')
    acc.add_traces('trace validation: randomly grown well-formed expressions (depth <= 4) with one to three small edits each (a character deleted, inserted, '
                   'replaced, doubled, neighbours swapped, the text cut short, a continuation appended, a closer dropped) run through the real Search; TLC '
                   'tokenises and parses each text with the specification and checks the recorded outcome -- a syntax error and nothing else for a text '
                   'outside the grammar, the value or fault of the other expression for one inside it', tv)
    tv = api['run_trace_validation'](ctx, 'typed-mutation-traces', 8000 if thorough else 2000, ctx['seed'] + 404, corpus=False, mode='typedmutate')
    acc.add_traces('trace validation: expressions of the type-directed grower (lets with several bindings, by-functions, filters, 34 call shapes) with one to '
                   'three small edits each, run through the real Search; TLC parses each text with the specification and admits a syntax error and nothing '
                   'else for a text outside the grammar', tv)
    return acc.result('every concatenation of at most k lexemes of each alphabet is compiled by the real library (the harness '
                      'enumerates them itself) and compared with the static outcome of the specification, which TLC computed for '
                      'the same enumeration (TLC prints only the texts that are not plain syntax errors); a case is non-trivial '
                      'when that outcome is a single accept/one-category verdict',
                      extra={'model_checks': ['RenderLexRoundTrip', 'BlanksBetweenTokensNeutral']})


# --------------------------------------------------------------------- C05
@plan('C05')
def c05(ctx, api):
    acc = Acc()
    thorough = ctx['tier'] == 'thorough'
    # the oracle is checked before it is trusted
    st, text = api['run_tlc_only'](ctx, 'dec-laws', 'DecimalLaws',
                                   'SPECIFICATION Spec\nCONSTANTS\n  R = %d\nINVARIANTS\n  SmallLaws\nCHECK_DEADLOCK FALSE\n'
                                   % (60 if thorough else 30), timeout=1500)
    if st['errors'] or st['rc'] != 0:
        raise api['Broken']('Decimal.tla disagrees with TLC integer arithmetic: %s' % st['errors'][:3])
    acc.add('DecimalLaws: Decimal.tla = TLC integer arithmetic on all pairs of small scaled integers', st, None)
    if thorough:
        st, text = api['run_tlc_only'](ctx, 'dec-laws-big', 'DecimalLawsBig',
                                       'SPECIFICATION Spec\nINVARIANTS\n  BigLaws\nCHECK_DEADLOCK FALSE\n', timeout=2400)
        if st['errors'] or st['rc'] != 0:
            raise api['Broken']('algebraic laws fail on Decimal.tla: %s' % st['errors'][:3])
        acc.add('DecimalLawsBig: algebraic laws on 34-digit operands', st, None)
    st, summ = api['run_tlc_to_harness'](ctx, 'arith', 'GenArith',
                                         cfg(constants={'Emit': 'TRUE', 'Prop': '"C05"', 'Big': tb(thorough)}), timeout=3000)
    acc.add('GenArith: all ordered pairs of the operand pool x 12 binary operators (4 ways of supplying the operands) + sum, avg + unary family',
            st, summ)
    sizes = '{127, 128, 129, 255, 256, 257, 1000, 4096, 10000, 20000}' if thorough else '{127, 128, 129, 1000, 10000}'
    st, summ = api['run_tlc_to_harness'](ctx, 'bigarr', 'GenBigArr', cfg(constants={'Emit': 'TRUE', 'Prop': '"C05"', 'Sizes': sizes}), timeout=1500)
    acc.add('GenBigArr: sum / avg / max / min / sort / sort_by on %s consecutive integers around 0, 2^53 and 10^15 in 6 Go carriers; '
            'expected values are closed forms computed by Decimal.tla (checked against Eval on small instances)' % sizes, st, summ)
    st, summ = api['run_tlc_to_harness'](ctx, 'num', 'GenNum', cfg(constants={'Emit': 'TRUE', 'Prop': '"C05"'}), timeout=1500)
    acc.add('GenNum: 17 numerals of every length and exponent (inside and outside the decimal128 range) kept at full precision through 15 non-computing '
            'forms; 41 spellings of 6 values (E / e, signed and zero-padded exponents, trailing zeros, shifted point) under 27 numeric functions and operators, '
            'each paired with the canonical spelling', st, summ)
    st, summ = api['run_tlc_to_harness'](ctx, 'probe', 'GenProbe', cfg(constants={'Emit': 'TRUE', 'Prop': '"C05"'}), timeout=1500, harness_args=['-timeout', '30s'])
    acc.add('GenProbe: single inputs with a pinned outcome from the audit round (recorded findings, re-observed on every run)', st, summ)
    return acc.result(RULE_PINNED + '; results needing more than 34 digits admit exactly two values (truncation and truncation + 1 ulp) and count as unpinned',
                      extra={'model_checks': ['SmallLaws', 'BigLaws (thorough)', 'Commutative', 'CmpAntisymmetric']})


# --------------------------------------------------------------------- C06
@plan('C06')
def c06(ctx, api):
    acc = Acc()
    thorough = ctx['tier'] == 'thorough'
    consts = {'Emit': 'TRUE', 'Prop': '"C06"', 'MaxCalls': 3, 'MaxDocs': 6, 'NTexts': 8 if thorough else 6}
    text = api_cfg(consts, extra='PROPERTIES\n  Immutable', npool=4 if thorough else 3)
    st, summ = api['run_tlc_to_harness'](ctx, 'api-bfs', 'API', text, timeout=3000)
    acc.add('API.tla: every history of <= 3 calls over %d texts x %d documents (+ fed-back results)' % (consts['NTexts'], 4 if thorough else 3), st, summ)
    consts = {'Emit': 'TRUE', 'Prop': '"C06"', 'MaxCalls': 2 if thorough else 1, 'MaxDocs': 6, 'NTexts': 200}
    st, summ = api['run_tlc_to_harness'](ctx, 'api-wide', 'API', api_cfg(consts), timeout=3000)
    acc.add('API.tla: every history of <= %d call(s) over all 119 texts (every reordering function x every aliasing source, every ordered pair of reordering functions composed, on unsorted / ascending / descending documents)' % consts['MaxCalls'], st, summ)
    consts = {'Emit': 'TRUE', 'Prop': '"C06"', 'MaxCalls': 3 if thorough else 2, 'MaxDocs': 6, 'NTexts': 200}
    st, summ = api['run_tlc_to_harness'](ctx, 'api-space', 'API', api_cfg(consts, 'SpaceSel'), timeout=3000)
    acc.add('API.tla: every history of <= %d calls over a text and its variants with non-JMESPath blanks around it' % consts['MaxCalls'], st, summ)
    sim = {'num': 40 if thorough else 8, 'depth': 9, 'seed': ctx['seed']}
    consts = {'Emit': 'TRUE', 'Prop': '"C06"', 'MaxCalls': 8, 'MaxDocs': 7, 'NTexts': 200}
    st, summ = api['run_tlc_to_harness'](ctx, 'api-sim', 'API', api_cfg(consts), simulate=sim, timeout=1500)
    acc.add('API.tla -simulate: histories of <= 8 calls over all 119 texts', st, summ, exhaustive=False)
    st, summ = api['run_tlc_to_harness'](ctx, 'apply', 'GenApply', cfg(constants={'Emit': 'TRUE', 'Prop': '"C06"'}), timeout=1500)
    acc.add('GenApply: every function x argument count x position of @, pool literals (also through a let variable) at the other positions, '
            'projected / mapped over an array of every admissible pool value and on single elements; the compiled expression is re-used '
            'across a perturbed document', st, summ)
    tv = api['run_api_trace_validation'](ctx, 'api-traces', 400 if thorough else 120, 12, ctx['seed'])
    acc.add_traces('trace validation: random histories recorded from the real API, consumed event by event by TraceAPI.tla '
                   '(POSTCONDITION: every line consumed, no unexplainable event)', tv)
    return acc.result('cases are the reachable states (histories) of API.tla; each is replayed call by call into the real API with deep '
                      'snapshots of all documents (including spare slice capacity) and all earlier results; a history is non-trivial '
                      'when every step has a single admissible outcome',
                      extra={'model_checks': ['Immutable (action property)', 'Pure', 'StaticAtCompile', 'StaticIgnoresDoc', 'Closed']})


# --------------------------------------------------------------------- C07
@plan('C07', need_race=True)
def c07(ctx, api):
    acc = Acc()
    thorough = ctx['tier'] == 'thorough'
    consts = {'Emit': 'TRUE', 'Prop': '"C07"', 'Gates': 3 if thorough else 2, 'NCallSets': 7, 'First': 1,
              'Rounds': 200 if thorough else 25}
    st, summ = api['run_tlc_to_harness'](ctx, 'conc', 'APIConc', cfg(constants=consts), timeout=3000,
                                         harness_args=['-timeout', '10s'])
    acc.add('APIConc: every interleaving of 2 goroutines x 2 calls (%d gates per call)%s on shared expressions and documents, '
            'replayed with the evaluate-entry hook as gate' % (consts['Gates'], ''), st, summ)
    # three goroutines: 17 million interleavings with 2 gates -- random ones
    sim = {'num': 60 if thorough else 12, 'depth': 40, 'seed': ctx['seed']}
    consts3 = dict(consts, Gates=2, NCallSets=8, First=8)
    st, summ = api['run_tlc_to_harness'](ctx, 'conc3', 'APIConc', cfg(constants=consts3), simulate=sim, timeout=1500,
                                         harness_args=['-timeout', '10s'])
    acc.add('APIConc -simulate: random interleavings of 3 goroutines x 2 calls', st, summ, exhaustive=False)
    # the same call sets ungated under the race detector
    saved = ctx['harness']
    ctx['harness'] = ctx['harness_race']
    ctx['harness_env'] = {'GORACE': 'halt_on_error=1 exitcode=66'}
    try:
        consts2 = dict(consts, Gates=0, NCallSets=8)
        st, summ = api['run_tlc_to_harness'](ctx, 'race', 'APIConc', cfg(constants=consts2), timeout=3000,
                                             harness_args=['-only', 'race', '-timeout', '120s', '-workers', '4'])
        racest, racesumm = st, summ
        # every function next to literals (GenApply) and every call of the function catalogue (GenCall): a freshly compiled
        # expression shared by 4 goroutines released together on one shared document, in the -race build
        ctx['harness_env'] = {'GORACE': 'halt_on_error=1 exitcode=66', 'VERIF_SHARED': '4'}
        st2, summ2 = api['run_tlc_to_harness'](ctx, 'shared-apply', 'GenApply', cfg(constants={'Emit': 'TRUE', 'Prop': '"C07"'}), timeout=1500,
                                               harness_args=['-timeout', '30s'])
        st3, summ3 = api['run_tlc_to_harness'](ctx, 'shared-call', 'GenCall',
                                               cfg(constants={'Emit': 'TRUE', 'Prop': '"C07"', 'Small': 7 if thorough else 3}), timeout=3000,
                                               harness_args=['-timeout', '30s'])
    finally:
        ctx['harness'] = saved
        ctx['harness_env'] = {}
    acc.add('the same call sets from 8 goroutines x %d rounds, ungated, in a -race build of the library' % consts['Rounds'], racest, racesumm)
    acc.add('GenApply in the -race build: every function x position of @ x pool literals (incl. 40-element literals), each expression compiled '
            'afresh and first evaluated by 4 goroutines at once on one shared document', st2, summ2)
    acc.add('GenCall in the -race build: every function x argument tuples, same sharing', st3, summ3)
    return acc.result('a case is one complete interleaving (schedule) of the APIConc machine, or one ungated call set under the race '
                      'detector; non-trivial when every call has a single admissible outcome',
                      extra={'model_checks': ['Pure in every interleaved state'],
                             'limit': 'schedule control is at evaluate-entry granularity; below that the Go race detector is the oracle'})


# --------------------------------------------------------------------- C08
@plan('C08')
def c08(ctx, api):
    acc = Acc()
    thorough = ctx['tier'] == 'thorough'
    st, summ = api['run_tlc_to_harness'](ctx, 'fault', 'GenFault', cfg(constants={'Emit': 'TRUE', 'Prop': '"C08"'}), timeout=1500)
    acc.add('GenFault: single-fault catalogue (every static class, every run-time fault site) x 15 documents', st, summ)
    # every failing case of the function generator: category and nil result
    st, summ = api['run_tlc_to_harness'](ctx, 'call', 'GenCall',
                                         cfg(constants={'Emit': 'TRUE', 'Prop': '"C08"', 'Small': 12 if thorough else 7}), timeout=3000)
    acc.add('GenCall: categories of all failing calls (arity / unknown / type / value)', st, summ)
    consts = {'Emit': 'TRUE', 'Prop': '"C08"', 'MaxCalls': 3, 'MaxDocs': 6, 'NTexts': 16 if thorough else 10}
    st, summ = api['run_tlc_to_harness'](ctx, 'api', 'API', api_cfg(consts) if thorough else
                                         api_cfg(dict(consts, MaxCalls=2)), timeout=3000)
    acc.add('API.tla histories: Compile reports static faults, a compiled Expression never does, one-shot Search reports them for every document', st, summ)
    consts = {'Emit': 'TRUE', 'Prop': '"C08"', 'MaxCalls': 3 if thorough else 2, 'MaxDocs': 6, 'NTexts': 200}
    st, summ = api['run_tlc_to_harness'](ctx, 'api-space', 'API', api_cfg(consts, 'SpaceSel'), timeout=3000)
    acc.add('API.tla histories over a text and its variants with non-JMESPath blanks (a syntax fault must not depend on what was searched before)', st, summ)
    st, summ = api['run_tlc_to_harness'](ctx, 'escape', 'GenEscape', cfg(constants={'Emit': 'TRUE', 'Prop': '"C08"', 'Wide': tb(thorough)}), timeout=1500)
    acc.add('GenEscape: \\uXXXX with every four-character body over %d hex digits and near-misses (+ - g _ x blank) in 5 literal positions; 21 control / separator '
            'characters raw inside each literal kind at 3 positions; every one-character escape' % (13 if thorough else 8), st, summ)
    st, summ = api['run_tlc_to_harness'](ctx, 'probe', 'GenProbe', cfg(constants={'Emit': 'TRUE', 'Prop': '"C08"'}), timeout=1500, harness_args=['-timeout', '30s'])
    acc.add('GenProbe: single inputs with a pinned outcome from the audit round (recorded findings, re-observed on every run)', st, summ)
    st, summ = api['run_tlc_to_harness'](ctx, 'tsweep', 'GenTSweep', cfg(constants={'Emit': 'TRUE', 'Prop': '"C08"', 'Only': '{"err-", "unbound"}', 'To': 9000 if thorough else 1100}),
                                         timeout=1500, harness_args=['-timeout', '600s'])
    acc.add('GenTSweep failing-call families: the category of a fault whose text (pad string, function or variable name, argument list, input) '
            'has n characters / elements, every n = 0..%d' % (9000 if thorough else 1100), st, summ)
    tv = api['run_trace_validation'](ctx, 'mutation-traces', 6000 if thorough else 1500, ctx['seed'] + 202, corpus=False, mode='mutate')
    acc.add_traces('trace validation: randomly grown expressions with one to three small edits run through the real Search; TLC checks the recorded category '
                   '(syntax and nothing else for a text outside the grammar, whatever calls or slices it contains)', tv)
    return acc.result(RULE_PINNED + '; on every failing call the harness also requires a nil result, exactly one matching exported '
                      'category under errors.Is, and that the error formats',
                      extra={'model_checks': ['SingleCategory', 'StaticIgnoresDoc', 'StaticAtCompile']})


# --------------------------------------------------------------------- C18
@plan('C18')
def c18(ctx, api):
    acc = Acc()
    thorough = ctx['tier'] == 'thorough'
    typed_traces(ctx, api, acc, 20000 if thorough else 3000, ctx['seed'] + 118)
    st, summ = api['run_tlc_to_harness'](ctx, 'pipe', 'GenPipe', cfg(constants={'Emit': 'TRUE', 'Prop': '"C18"'}), timeout=3000)
    acc.add('GenPipe: 29 x 24 pairs (e1, e2) x 15 documents; results fed back as Go values', st, summ)
    consts = {'Emit': 'TRUE', 'Prop': '"C18"', 'MaxCalls': 4 if thorough else 3, 'MaxDocs': 6, 'NTexts': 8 if thorough else 5}
    st, summ = api['run_tlc_to_harness'](ctx, 'api', 'API', api_cfg(consts), timeout=3000)
    acc.add('API.tla histories with FeedBack (a result becomes a document of later calls)', st, summ)
    st, summ = api['run_tlc_to_harness'](ctx, 'apply', 'GenApply', cfg(constants={'Emit': 'TRUE', 'Prop': '"C18"'}), timeout=1500)
    acc.add('GenApply: every function x argument count x position of @, pool literals (also through a let variable) at the other positions, '
            'projected / mapped over an array of every admissible pool value and on single elements; the compiled expression is re-used '
            'across a perturbed document', st, summ)
    tv = api['run_api_trace_validation'](ctx, 'api-traces', 300 if thorough else 80, 12, ctx['seed'] + 7)
    acc.add_traces('trace validation: random histories with fed-back results recorded from the real API, validated by TraceAPI.tla', tv)
    return acc.result(RULE_PINNED + '; every successful result is also walked for non-JSON Go types and must survive json.Marshal/decode unchanged',
                      extra={'model_checks': ['PipeLaw', 'Closed']})


# --------------------------------------------------------------------- C15
@plan('C15')
def c15(ctx, api):
    acc = Acc()
    thorough = ctx['tier'] == 'thorough'
    reps = 64 if thorough else 8
    ctx['harness_env'] = {'VERIF_REPEAT': str(reps)}
    try:
        st, summ = api['run_tlc_to_harness'](ctx, 'surface', 'GenSurface', surface_cfg(3 if thorough else 2, 'C15', 'Det'), timeout=3000)
        acc.add('GenSurface depth %d on documents with 2-3-member objects, each case evaluated %d times on rebuilt maps with fresh compilations'
                % (3 if thorough else 2, reps), st, summ)
        st, summ = api['run_tlc_to_harness'](ctx, 'call', 'GenCall',
                                             cfg(constants={'Emit': 'TRUE', 'Prop': '"C15"', 'Small': 9 if thorough else 5}), timeout=3000)
        acc.add('GenCall (keys, values, items, merge, group_by, from_items, sort_by ... over objects) x %d evaluations' % reps, st, summ)
        st, summ = api['run_tlc_to_harness'](ctx, 'let', 'GenLet', cfg(constants={'Emit': 'TRUE', 'Prop': '"C15"', 'Depth': 2}), timeout=3000)
        acc.add('GenLet (duplicate names in one let, multi-select hashes) x %d evaluations' % reps, st, summ)
    finally:
        ctx['harness_env'] = {}
    # ... nor on what an earlier call did to the caller's data: every history of two calls over all texts
    consts = {'Emit': 'TRUE', 'Prop': '"C15"', 'MaxCalls': 2, 'MaxDocs': 6, 'NTexts': 200}
    st, summ = api['run_tlc_to_harness'](ctx, 'api-mut', 'API', api_cfg(consts, 'MutSel', npool=4 if thorough else 2), timeout=3000)
    acc.add('API.tla: every history of 2 calls over the reordering functions x aliasing / mixed sources: the second call sees what the first left behind', st, summ)
    # the outcome of a call must not depend on the calls made before it (process-wide state, caches)
    consts = {'Emit': 'TRUE', 'Prop': '"C15"', 'MaxCalls': 3 if thorough else 2, 'MaxDocs': 6, 'NTexts': 200}
    st, summ = api['run_tlc_to_harness'](ctx, 'api-space', 'API', api_cfg(consts, 'SpaceSel'), timeout=3000)
    acc.add('API.tla: every history of <= %d calls over a text and its blank-variants: the outcome of a call is the one the specification '
            'assigns to it alone, whatever was compiled or searched before' % consts['MaxCalls'], st, summ)
    return acc.result(RULE_PINNED + '; every case is evaluated repeatedly with independently rebuilt maps and fresh compilations; '
                      'outcomes must be equal, as multisets only at arrays the specification marks as unordered (for unpinned cases: '
                      'equal up to array order)', extra={'repetitions': reps})


# --------------------------------------------------------------------- C14
ALL_KINDS = ['json', 'int', 'int8', 'int16', 'int32', 'int64', 'uint', 'uint8', 'uint16', 'uint32', 'uint64',
             'float32', 'float64', 'decimal']


@plan('C14')
def c14(ctx, api):
    acc = Acc()
    thorough = ctx['tier'] == 'thorough'
    tv = api['run_trace_validation'](ctx, 'typed-carrier-traces', 20000 if thorough else 4000, ctx['seed'] + 114, corpus=False, mode='typedcarrier')
    acc.add_traces('trace validation, type-directed grower on documents whose numbers are held in randomly chosen native Go representations '
                   '(float64 / float32 where exact, int, int8..int64, uint..uint32, json.Number): the specification does not know the carrier, so '
                   'every recorded outcome must lie in the same admissible set', tv)
    nvals = 9 if thorough else 7
    kinds = '{' + ', '.join('"%s"' % k for k in ALL_KINDS) + '}'
    kb = kinds[:-1] + ', "jsonexp", "jsondot"}' if thorough else '{"json", "int", "uint8", "int64", "float32", "float64", "decimal", "jsonexp", "jsondot"}'
    text = cfg(constants={'Emit': 'TRUE', 'Prop': '"C14"', 'Big': tb(thorough), 'KindsA': kinds, 'KindsB': kb})
    st, summ = api['run_tlc_to_harness'](ctx, 'carrier', 'GenCarrier', text, timeout=3000)
    acc.add('GenCarrier: %d x %d values, 14 x %d x 3 carrier assignments, 53 expressions'
            % (nvals, nvals, 16 if thorough else 9), st, summ)
    st2, summ2 = api['run_tlc_to_harness'](ctx, 'arith', 'GenArith',
                                           cfg(constants={'Emit': 'TRUE', 'Prop': '"C14"', 'Big': 'FALSE'}), timeout=3000)
    acc.add('GenArith: operands up to 34 digits (2^53+1, 2^63 ...) with json / decimal / int64 / uint64 / float carriers mixed in one operation '
            '(expected outcome from Decimal.tla)', st2, summ2)
    st3, summ3 = api['run_tlc_to_harness'](ctx, 'intarg', 'GenIntArg', cfg(constants={'Emit': 'TRUE', 'Prop': '"C14"'}), timeout=1500)
    acc.add('GenIntArg: integer arguments in every numeric spelling', st3, summ3)
    sizes = '{127, 128, 129, 255, 256, 257, 1000, 4096, 10000, 20000}' if thorough else '{127, 128, 129, 1000, 10000}'
    st4, summ4 = api['run_tlc_to_harness'](ctx, 'bigarr', 'GenBigArr', cfg(constants={'Emit': 'TRUE', 'Prop': '"C14"', 'Sizes': sizes}), timeout=1500)
    acc.add('GenBigArr: large arrays of consecutive integers around 2^53 held as json / int64 / uint64 / decimal / float64 / int', st4, summ4)
    st, summ = api['run_tlc_to_harness'](ctx, 'num', 'GenNum', cfg(constants={'Emit': 'TRUE', 'Prop': '"C14"'}), timeout=1500)
    acc.add('GenNum: 17 numerals of every length and exponent (inside and outside the decimal128 range) kept at full precision through 15 non-computing '
            'forms; 41 spellings of 6 values (E / e, signed and zero-padded exponents, trailing zeros, shifted point) under 27 numeric functions and operators, '
            'each paired with the canonical spelling', st, summ)
    st, summ = api['run_tlc_to_harness'](ctx, 'probe', 'GenProbe', cfg(constants={'Emit': 'TRUE', 'Prop': '"C14"'}), timeout=1500, harness_args=['-timeout', '30s'])
    acc.add('GenProbe: single inputs with a pinned outcome from the audit rounds (to_string of a float64 / float32 that holds 2^60 / 2^30 exactly, with controls in the other carriers)', st, summ)
    return acc.result(RULE_PINNED + '; assignments whose Go kind cannot hold a value exactly are skipped (counted in cases_skipped)',
                      extra={'cases_skipped_carrier_cannot_hold_value': sum(s.get('skipped', 0) for s in [summ])})


# --------------------------------------------------------------------- C09
@plan('C09')
def c09(ctx, api):
    acc = Acc()
    thorough = ctx['tier'] == 'thorough'
    ctx['harness_env'] = {'VERIF_DEEP': '5000000' if thorough else '100000'}
    try:
        st, summ = api['run_tlc_to_harness'](ctx, 'cost', 'GenCost', cfg(constants={'Emit': 'TRUE', 'Prop': '"C09"'}), timeout=3000,
                                             harness_args=['-timeout', '60s' if thorough else '20s', '-workers', '8'])
    finally:
        ctx['harness_env'] = {}
    stp = api['run_tlapm'](ctx, 'slice-proofs', 'SliceProofs')
    acc.add('SliceProofs (TLAPS, %d obligations): the clamp of a slice bound and the length of the walk are independent of the magnitude of start / stop / step '
            'for every length and all integers (the reason behind MagnitudeIndependent, which TLC checks on the listed magnitudes)' % stp['obligations'], stp, None)
    acc.add('GenCost: 142 parameter positions (short subjects, and subjects of 40 mixed-width code points / 70 letters / 70 elements) x 16 magnitudes against the twin magnitude 1000; 8 nesting families scaled 64..8192 and one instance at depth %s'
            % ('5,000,000' if thorough else '100,000'), st, summ)
    # every generated case of the other machines also runs under the per-case time budget (hang detection)
    st, summ = api['run_tlc_to_harness'](ctx, 'slices', 'GenSlice', cfg(constants={'Emit': 'TRUE', 'Prop': '"C09"', 'MaxN': 3}), timeout=3000)
    acc.add('GenSlice with 64-bit limits under the per-case budget of 3 s', st, summ)
    st, summ = api['run_tlc_to_harness'](ctx, 'intarg', 'GenIntArg', cfg(constants={'Emit': 'TRUE', 'Prop': '"C09"'}), timeout=1500)
    acc.add('GenIntArg: numerals with exponents far outside every numeric range in integer-argument positions, under the per-case budget', st, summ)
    st, text = api['run_tlc_only'](ctx, 'lexmachine', 'LexMachine', open(os.path.join(ctx['root'], 'spec', 'LexMachine.cfg')).read(), timeout=1500)
    if st['errors'] or st['rc'] != 0:
        raise api['Broken']('LexMachine model check failed: %s' % st['errors'][:3])
    acc.add('LexMachine: the tokeniser as a state machine -- position strictly increases, terminates in Lex(input)', st, None)
    st, summ = api['run_tlc_to_harness'](ctx, 'probe', 'GenProbe', cfg(constants={'Emit': 'TRUE', 'Prop': '"C09"'}), timeout=1500, harness_args=['-timeout', '60s'])
    acc.add('GenProbe: single inputs with a pinned outcome from the audit round (recorded findings, re-observed on every run)', st, summ)
    return acc.result('measured on the real code: each case is an expression with an integer parameter at a 64-bit magnitude and its twin '
                      'at 1000 (same expected outcome by the huge-magnitude lemma): equal evaluator steps, time <= 50x + 20 ms, allocation '
                      '<= 8x + 1 MiB of the twin; nesting families must grow at most ~quadratically; non-trivial = the twin outcome is pinned',
                      level='exploration',
                      extra={'model_checks': ['MagnitudeIndependent', 'NestLemma', 'LexProgress', 'LexAgrees'],
                             'note': 'running time is not a model property; TLA+ supplies inputs, expected outcomes and progress measures'})


# --------------------------------------------------------------------- C03
@plan('C03')
def c03(ctx, api):
    acc = Acc()
    thorough = ctx['tier'] == 'thorough'
    typed_traces(ctx, api, acc, 20000 if thorough else 3000, ctx['seed'] + 103)
    root = ctx['root']
    text = cfg(spec='HSpec', constants={'Emit': 'TRUE', 'Prop': '"C03"', 'Big': 'FALSE', 'KindsA': '{"json"}', 'KindsB': '{"json"}'},
               invariants=('HCheck',))
    st, summ = api['run_tlc_to_harness'](ctx, 'hostile', 'GenHostile', text, timeout=3000)
    acc.add('GenHostile: 38 non-JSON / non-finite / non-UTF-8 Go values at each of 5 leaf positions x 81 expressions', st, summ)
    st, summ = api['run_tlc_to_harness'](ctx, 'hostile-apply', 'GenApply', cfg(constants={'Emit': 'TRUE', 'Prop': '"C03"'}), timeout=1500)
    acc.add('GenApply: every function x argument count x argument position holding each of the 38 hostile values (pool literals elsewhere), '
            'plus the projected / mapped forms', st, summ)
    n = 6 if thorough else 5
    text = cfg(constants={'Emit': 'TRUE', 'Prop': '"C03"', 'MaxLen': n, 'AlphaName': '"Bytes"'})
    text = text.replace('CONSTANTS\n', 'CONSTANTS\n  Alpha <- AlphaBytes\n')
    st, summ = api['run_tlc_to_harness'](ctx, 'bytes', 'GenChars', text, timeout=3000, harness_cmd='acceptset',
                                         harness_args=['-alphabets', os.path.join(root, 'spec', 'pools', 'Alphabets.alph'),
                                                       '-alpha', 'Bytes', '-maxlen', str(n), '-prop', 'C03'])
    acc.add('GenChars Bytes alphabet (quotes, backslash, invalid UTF-8 byte, NUL, multi-byte characters): every concatenation of <= %d lexemes compiled' % n,
            st, summ)
    ctx['harness_env'] = {'VERIF_DEEP': '5000000' if thorough else '100000'}
    try:
        st, summ = api['run_tlc_to_harness'](ctx, 'deep', 'GenCost', cfg(constants={'Emit': 'TRUE', 'Prop': '"C03"'}), timeout=3000,
                                             harness_args=['-only', 'scale', '-timeout', '120s', '-workers', '8'])
    finally:
        ctx['harness_env'] = {}
    acc.add('nesting families (parentheses, !, index, flatten, pipe, multi-select, unary minus, ||) to depth %s' % ('5,000,000' if thorough else '100,000'), st, summ)
    st, summ = api['run_tlc_to_harness'](ctx, 'call', 'GenCall', cfg(constants={'Emit': 'TRUE', 'Prop': '"C03"', 'Small': 15 if thorough else 9}), timeout=3000)
    acc.add('GenCall: every function with every pool tuple (integer arguments at 0, +-1, fractions) -- a panic is outside every admissible set', st, summ)
    st, summ = api['run_tlc_to_harness'](ctx, 'sort', 'GenSort',
                                         cfg(constants={'Emit': 'TRUE', 'Prop': '"C03"', 'Lengths': '{0, 1, 2, 13, 33}', 'Seeds': '{%d}' % ctx['seed']}), timeout=1500)
    acc.add('GenSort incl. the re-entrancy family (expression-reference functions nested in each other)', st, summ)
    st, summ = api['run_tlc_to_harness'](ctx, 'intarg', 'GenIntArg', cfg(constants={'Emit': 'TRUE', 'Prop': '"C03"'}), timeout=1500)
    acc.add('GenIntArg: integer arguments in every numeric spelling incl. exponents far outside every range', st, summ)
    st, summ = api['run_tlc_to_harness'](ctx, 'cost', 'GenCost', cfg(constants={'Emit': 'TRUE', 'Prop': '"C03"'}), timeout=3000,
                                         harness_args=['-only', 'cost', '-workers', '8'])
    acc.add('GenCost: integer parameters at the 64-bit limits in every position', st, summ)
    st, summ = api['run_tlc_to_harness'](ctx, 'sweep', 'GenSweep', cfg(constants={'Emit': 'TRUE', 'Prop': '"C03"', 'From': 0, 'To': 9000 if thorough else 1100}),
                                         timeout=1500, harness_args=['-timeout', '300s'])
    acc.add('GenSweep: 40 token families (raw / JSON / quoted literals with 1-4-byte characters and escapes, blanks, identifiers, ill-formed '
            'and unterminated literals) at EVERY repetition count 0..%d, i.e. every byte alignment across 512 .. 32768-byte boundaries; '
            'Search and Compile at each length (expected outcome a function of n, SweepLemma)' % (9000 if thorough else 1100), st, summ)
    st, summ = api['run_tlc_to_harness'](ctx, 'align', 'GenAlign', cfg(constants={'Emit': 'TRUE', 'Prop': '"C03"', 'MaxK': 34 if thorough else 26}), timeout=1500)
    acc.add('GenAlign: one multi-byte character at every offset of an ASCII string under 37 position-sensitive operations, and the characters whose '
            'upper / lower case counterpart has another encoded width under 13 operations (a panic is outside every admissible set)', st, summ)
    st, summ = api['run_tlc_to_harness'](ctx, 'tsweep', 'GenTSweep', cfg(constants={'Emit': 'TRUE', 'Prop': '"C03"', 'Only': '{"err-", "chain-", "s-", "sl-", "stride-"}', 'To': 9000 if thorough else 1100}),
                                         timeout=1500, harness_args=['-timeout', '600s'])
    acc.add('GenTSweep failing-call families: pad strings p.w^n (w of 1-4 bytes, 4 alignment prefixes, literal or from the document), function and '
            'variable names of n letters, n surplus arguments, type and value faults on inputs of size n, for every n = 0..%d -- the error of every '
            'failing call is formatted (Error()) before the case passes; plus the string and operator-run families' % (9000 if thorough else 1100), st, summ)
    tv = api['run_trace_validation'](ctx, 'mutation-traces', 6000 if thorough else 1500, ctx['seed'] + 101, corpus=False, mode='mutate')
    acc.add_traces('trace validation: randomly grown expressions with one to three small edits (mostly outside the grammar) run through the real Search and '
                   'checked by TLC; a panic is recorded as an outcome no set admits', tv)
    return acc.result('a case passes when Compile / Search / Expression.Search return normally (value or error, error formats, no panic, no fatal '
                      'runtime error, no hang); cases run in child processes so that a crash or hang is attributed to its input; non-trivial = '
                      'the specification also pins the outcome', level='model_checking')
