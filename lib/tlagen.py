"""Render tagged values (lib/tagged.py) as TLA+ expressions, and generate
pool modules (spec/Docs*.tla) from plain JSON files under spec/pools/."""
import json, os, sys
sys.path.insert(0, os.path.dirname(os.path.abspath(__file__)))
import tagged


def seq(items):
    return '<<' + ', '.join(items) + '>>'


def tla(t):
    k = t['t']
    if k == 'null':
        return 'Null'
    if k == 'bool':
        return 'JTrue' if t['b'] else 'JFalse'
    if k == 'num':
        return 'Num(%d, %d)' % (t['n'], t['e']) if t['e'] else 'JInt(%d)' % t['n']
    if k == 'str':
        return 'Str(%s)' % seq(map(str, t['s']))
    if k == 'arr':
        return 'Arr(%s)' % seq(tla(x) for x in t['a'])
    if k == 'obj':
        return 'Obj(%s)' % seq('Mem(%s, %s)' % (seq(map(str, m['k'])), tla(m['v'])) for m in t['o'])
    raise ValueError(k)


def gen_pool(json_path, module, name='Docs'):
    vals = tagged.loads_keep_numbers(open(json_path, encoding='utf-8').read())
    lines = ['\\* GENERATED from %s by lib/tlagen.py' % os.path.basename(json_path),
             '---- MODULE %s ----' % module,
             'EXTENDS JValue',
             '%s == <<' % name]
    body = []
    for v in vals:
        body.append('  \\* %s\n  %s' % (json.dumps(v), tla(tagged.tag(v))))
    lines.append(',\n'.join(body))
    lines.append('>>')
    lines.append('====')
    return '\n'.join(lines) + '\n'


def gen_alphabets(path):
    A = json.load(open(path))
    lines = ['\\* GENERATED from %s by lib/tlagen.py' % os.path.basename(path), '---- MODULE Alphabets ----', 'EXTENDS Integers',
             '\\* lexeme alphabets for the exhaustive string enumerations of property C04 (code point sequences)']
    for name, syms in A.items():
        lines.append('Alpha%s == <<%s>>' % (name, ', '.join(seq(('(0 - %d)' % -c if c < 0 else str(c)) for c in x) for x in syms)))
    lines.append('====')
    return '\n'.join(lines) + '\n'


def main():
    spec = os.path.join(os.path.dirname(os.path.abspath(__file__)), '..', 'spec')
    out = gen_alphabets(os.path.join(spec, 'pools', 'Alphabets.alph'))
    dst = os.path.join(spec, 'Alphabets.tla')
    if not os.path.exists(dst) or open(dst).read() != out:
        open(dst, 'w').write(out)
    for f in sorted(os.listdir(os.path.join(spec, 'pools'))):
        if f.endswith('.json'):
            module = 'Docs' + f[:-5]
            out = gen_pool(os.path.join(spec, 'pools', f), module, 'Pool' + f[:-5])
            dst = os.path.join(spec, module + '.tla')
            if not os.path.exists(dst) or open(dst).read() != out:
                open(dst, 'w').write(out)


if __name__ == '__main__':
    main()
